#!/bin/bash
# usage: reconfirm_vc.sh <seed-id> <checks...>   after a check was strengthened: re-run step 3 of confirm_seed.sh (isolated
# patched copy) for a stored seed and append the result to its confirm.log (the first result is kept as confirm.first.log).
id=$1; shift
d=/verif/seeded/$id
[ -f $d/confirm.first.log ] || cp $d/confirm.log $d/confirm.first.log
echo "-- after strengthening ($(git -C /verif log --format=%h -1)+): tools/try_vc.sh seeded/$id/patch.diff $*" >> $d/confirm.log
/verif/tools/try_vc.sh $d/patch.diff "$@" 2>&1 | cut -c1-600 | tee -a $d/confirm.log | cut -c1-200

#!/usr/bin/env python3
"""Regenerate MANIFEST.json from tools/registry.py + tools/manifest_text.py."""
import json, os, sys
ROOT = os.path.dirname(os.path.dirname(os.path.abspath(__file__)))
sys.path.insert(0, os.path.join(ROOT, "tools"))
import registry, manifest_text as T

props = [json.loads(l)["id"] for l in open(os.path.join(ROOT, "properties.jsonl"))]
checks = []
for pid in props:
    if pid not in registry.CHECKS:
        continue
    t = T.TEXT[pid]
    checks.append({
        "property_id": pid,
        "quick_cmd": "./check %s --tier quick" % pid,
        "thorough_cmd": "./check %s --tier thorough" % pid,
        "evidence_file": "/verif/evidence/%s.json" % pid,
        "replay_cmd_template": "./check %s --replay {path}" % pid,
        "engine": "+".join(sorted({p["name"] for p in registry.CHECKS[pid]["parts"]})),
        "level_claimed": {"category": registry.CHECKS[pid]["level"], "text": t["text"], "design_ref": t["design_ref"]},
        "level_note": t["note"],
        "technique": t["technique"],
    })
na = [{"property_id": p, "reason": T.NOT_APPLICABLE.get(p, "no check registered yet")} for p in props if p not in registry.CHECKS]
m = {
    "version": 1,
    "setup_cmd": "tools/setup.sh",
    "hooks": {
        "guard": "LLBUILD_VERIF",
        "enable": "tools/build_repo.sh <verif|asan|tsan> configures /repo out of tree under /verif/build/repo-<variant> with -DCMAKE_CXX_FLAGS='-Wno-error -DLLBUILD_VERIF' (plus the sanitizer flags) and builds it with ninja; every check calls it first",
        "baseline_off_cmd": "tools/baseline_off.sh",
        "source_commits": T.HOOK_COMMITS,
        "add_only": True,
    },
    "engines": T.ENGINES,
    "checks": checks,
    "notes": T.NOTES,
    "not_applicable": na,
}
json.dump(m, open(os.path.join(ROOT, "MANIFEST.json"), "w"), indent=1)
print("MANIFEST.json: %d checks, %d not_applicable" % (len(checks), len(na)))

#!/bin/bash
# Baseline suite with the LLBUILD_VERIF guard OFF: rebuild /repo/_build (the
# tree the pinned suite uses; configured without the define) and run the seven
# googletest executables the baseline runs (ctest registers none of them).
set -u
B=/repo/_build
cmake --build $B -j16 > /var/tmp/verif_baseline_build.log 2>&1 || { tail -30 /var/tmp/verif_baseline_build.log; echo "BASELINE BUILD FAILED"; exit 2; }
rc=0; total=0
for t in BasicTests BuildSystemTests CASTests CAPITests NinjaTests EvoTests CoreTests; do
  out=$(cd $B/bin && timeout 900 ./$t 2>&1); r=$?
  n=$(echo "$out" | grep -c '^\[       OK \]')
  total=$((total+n))
  echo "$t rc=$r ok=$n"
  [ $r -eq 0 ] || { rc=1; echo "$out" | grep -E '^\[  FAILED|Failure' | head -20; }
done
ctest --test-dir $B -j8 --timeout 900 > /dev/null 2>&1
echo "baseline: $total test cases passed, rc=$rc"
exit $rc

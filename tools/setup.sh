#!/bin/bash
# MANIFEST.setup_cmd: build everything the checks need from files on disk (offline).
set -u
cd /verif
mkdir -p build evidence replays
for v in verif asan; do tools/build_repo.sh $v || exit 1; done
for d in harness/*/; do
  [ -f "$d/Makefile" ] && { make -s -C "$d" -j16 || exit 1; }
done
echo "setup ok"

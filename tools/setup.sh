#!/bin/bash
# MANIFEST.setup_cmd: build everything the registered checks need from files on disk (offline).
set -u
root=$(cd "$(dirname "$0")/.." && pwd)
cd "$root"
mkdir -p build evidence replays
repo=${VERIF_REPO:-/repo}
# (harness dir, repo build variant) pairs of every registered part
pairs=$(python3 - <<'P'
import sys, os
sys.path.insert(0, "tools")
import registry
seen = set()
for c in registry.CHECKS.values():
    for p in c["parts"]:
        seen.add((p["dir"], p.get("variant", "verif")))
for d, v in sorted(seen):
    print(d, v)
P
)
for v in $(echo "$pairs" | awk '{print $2}' | sort -u); do tools/build_repo.sh $v || exit 1; done
echo "$pairs" | while read d v; do
  make -s -C harness/$d -j16 B=$root/build/repo-$v OUT=$root/build/harness/$d R=$repo SRC=$repo || exit 1
done || exit 1
echo "setup ok"

#!/bin/bash
# MANIFEST.setup_cmd: build everything the checks need from files on disk (offline).
set -u
root=$(cd "$(dirname "$0")/.." && pwd)
cd "$root"
mkdir -p build evidence replays
for v in verif asan tsan; do tools/build_repo.sh $v || exit 1; done
for d in harness/*/; do
  n=$(basename "$d")
  [ -f "$d/Makefile" ] || continue
  b=$root/build/repo-verif; [ "$n" = parsex ] && b=$root/build/repo-asan; [ "$n" = tsanx ] && b=$root/build/repo-tsan
  make -s -C "$d" -j16 B=$b OUT=$root/build/harness/$n R=${VERIF_REPO:-/repo} SRC=${VERIF_REPO:-/repo} || exit 1
done
echo "setup ok"

"""Registry: which harness parts decide which property (see DESIGN.md §5)."""

ENGINEX = "{build}/harness/enginex/enginex"


def enginex(prop, qs=16, ts=16, qb=150, tb=1500):
    return {
        "name": "enginex", "dir": "enginex", "variant": "verif",
        "cmd": [ENGINEX, "--prop", prop, "--tier", "{tier}", "--shard", "{shard}", "--nshards", "{nshards}",
                "--out", "{out}", "--seed", "{seed}", "--budget", "{budget}"],
        "shards": {"quick": qs, "thorough": ts},
        "budget": {"quick": qb, "thorough": tb},
    }


A_ENGINE = [
    "rule programs are drawn from the grammar of DESIGN.md §4.1 (<=4 derived keys, <=2 start requests, one value-dependent "
    "request, one discovered leaf); worlds outside it are not covered",
    "tasks are oblivious to cancellation: they always issue the requests their program dictates and complete only with the value it computes",
    "single-threaded exploration through the three engine notification points; thread-level timing is schedx's job",
    "epochs are rank-compressed in the state key: the engine only compares epochs and increments the current one",
]

CHECKS = {
    "C01": {"level": "model_checking", "parts": [enginex("C01")], "assumptions": A_ENGINE},
    "C02": {"level": "model_checking", "parts": [enginex("C02")], "assumptions": A_ENGINE},
    "C03": {"level": "model_checking", "parts": [enginex("C03")], "assumptions": A_ENGINE},
    "C05": {"level": "model_checking", "parts": [enginex("C05")], "assumptions": A_ENGINE},
    "C06": {"level": "model_checking", "parts": [enginex("C06")], "assumptions": A_ENGINE},
    "C07": {"level": "model_checking", "parts": [enginex("C07")], "assumptions": A_ENGINE},
}

"""Registry: which harness parts decide which property (see DESIGN.md §5)."""

ENGINEX = "{build}/harness/enginex/enginex"


def enginex(prop, qs=16, ts=16, qb=450, tb=1800):
    return {
        "name": "enginex", "dir": "enginex", "variant": "verif",
        "cmd": [ENGINEX, "--prop", prop, "--tier", "{tier}", "--shard", "{shard}", "--nshards", "{nshards}",
                "--out", "{out}", "--seed", "{seed}", "--budget", "{budget}"],
        "shards": {"quick": qs, "thorough": ts},
        "budget": {"quick": qb, "thorough": tb},
    }


def schedx(prop, qb=300, tb=1800):
    return {
        "name": "schedx", "dir": "schedx", "variant": "verif",
        "cmd": ["{build}/harness/schedx/schedx", "--prop", prop, "--tier", "{tier}", "--shard", "{shard}", "--nshards", "{nshards}",
                "--out", "{out}", "--seed", "{seed}", "--budget", "{budget}"],
        "shards": {"quick": 16, "thorough": 16},
        "budget": {"quick": qb, "thorough": tb},
    }


def enumx(prop, qb=60, tb=600):
    return {
        "name": "enumx", "dir": "enumx", "variant": "verif",
        "cmd": ["{build}/harness/enumx/enumx", "--prop", prop, "--tier", "{tier}", "--shard", "{shard}", "--nshards", "{nshards}",
                "--out", "{out}", "--seed", "{seed}", "--budget", "{budget}"],
        "shards": {"quick": 16, "thorough": 16},
        "budget": {"quick": qb, "thorough": tb},
    }


def ninjax(prop="C17"):
    return {
        "name": "ninjax", "dir": "ninjax", "variant": "verif",
        "cmd": ["/usr/bin/python3", "{root}/harness/ninjax/ninjax.py", "--prop", prop, "--tier", "{tier}", "--shard", "{shard}",
                "--nshards", "{nshards}", "--out", "{out}", "--seed", "{seed}", "--budget", "{budget}"],
        "shards": {"quick": 16, "thorough": 16},
        "budget": {"quick": 150, "thorough": 2400},
    }


def parsex(prop, qb=150, tb=1500):
    return {
        "name": "parsex", "dir": "parsex", "variant": "asan",
        "cmd": ["{build}/harness/parsex/parsex", "--prop", prop, "--tier", "{tier}", "--shard", "{shard}", "--nshards", "{nshards}",
                "--out", "{out}", "--seed", "{seed}", "--budget", "{budget}"],
        "shards": {"quick": 16, "thorough": 16},
        "budget": {"quick": qb, "thorough": tb},
    }


def crashx(qb=120, tb=1200):
    return {
        "name": "crashx", "dir": "crashx", "variant": "verif",
        "cmd": ["{build}/harness/crashx/crashx", "--prop", "C04", "--tier", "{tier}", "--shard", "{shard}", "--nshards", "{nshards}",
                "--out", "{out}", "--seed", "{seed}", "--budget", "{budget}"],
        "shards": {"quick": 16, "thorough": 16},
        "budget": {"quick": qb, "thorough": tb},
    }


def worldx(prop, qb, tb):
    return {
        "name": "worldx", "dir": "worldx", "variant": "verif",
        "cmd": ["/usr/bin/python3", "{root}/harness/worldx/worldx.py", "--prop", prop, "--tier", "{tier}", "--shard", "{shard}",
                "--nshards", "{nshards}", "--out", "{out}", "--seed", "{seed}", "--budget", "{budget}"],
        "shards": {"quick": 16, "thorough": 16},
        "budget": {"quick": qb, "thorough": tb},
    }


def tsanx(prop):
    return {
        "name": "tsanx", "dir": "tsanx", "variant": "tsan",
        "cmd": ["{build}/harness/tsanx/tsanx", "--prop", prop, "--tier", "{tier}", "--shard", "{shard}", "--nshards", "{nshards}",
                "--out", "{out}", "--seed", "{seed}", "--budget", "{budget}"],
        "shards": {"quick": 8, "thorough": 16},
        "budget": {"quick": 60, "thorough": 600},
    }


def stalex(qb=240, tb=900):
    return {
        "name": "stalex", "dir": "stalex", "variant": "verif",
        "cmd": ["{build}/harness/stalex/stalex", "--prop", "C14", "--tier", "{tier}", "--shard", "{shard}", "--nshards", "{nshards}",
                "--out", "{out}", "--seed", "{seed}", "--budget", "{budget}"],
        "shards": {"quick": 16, "thorough": 16},
        "budget": {"quick": qb, "thorough": tb},
    }


def procx(qb=60, tb=600):
    return {
        "name": "procx", "dir": "procx", "variant": "verif",
        "cmd": ["{build}/harness/procx/procx", "--prop", "C16", "--tier", "{tier}", "--shard", "{shard}", "--nshards", "{nshards}",
                "--out", "{out}", "--seed", "{seed}", "--budget", "{budget}"],
        "shards": {"quick": 16, "thorough": 16},
        "budget": {"quick": qb, "thorough": tb},
    }


def worldx2(prop, qb, tb):
    return {
        "name": "worldx2", "dir": "worldx2", "variant": "verif",
        "cmd": ["/usr/bin/python3", "{root}/harness/worldx2/worldx2.py", "--prop", prop, "--tier", "{tier}", "--shard", "{shard}",
                "--nshards", "{nshards}", "--out", "{out}", "--seed", "{seed}", "--budget", "{budget}"],
        "shards": {"quick": 16, "thorough": 16},
        "budget": {"quick": qb, "thorough": tb},
    }


def worldx3(qb, tb, prop="C18"):
    return {
        "name": "worldx3", "dir": "worldx3", "variant": "verif",
        "cmd": ["/usr/bin/python3", "{root}/harness/worldx3/worldx3.py", "--prop", prop, "--tier", "{tier}", "--shard", "{shard}",
                "--nshards", "{nshards}", "--out", "{out}", "--seed", "{seed}", "--budget", "{budget}"],
        "shards": {"quick": 16, "thorough": 16},
        "budget": {"quick": qb, "thorough": tb},
    }


def kgx(prop="C10", qb=60, tb=600, reuse=False):
    return {
        "name": "kgxr" if reuse else "kgx", "dir": "kgx", "variant": "verif",
        "cmd": ["{build}/harness/kgx/kgx", "--prop", prop] + (["--extra", "reuse"] if reuse else []) + ["--tier", "{tier}", "--shard", "{shard}", "--nshards", "{nshards}",
                "--out", "{out}", "--seed", "{seed}", "--budget", "{budget}"],
        "shards": {"quick": 16, "thorough": 16},
        "budget": {"quick": qb, "thorough": tb},
    }


def _kgx_old(prop="C10", qb=60, tb=600):
    return {
        "name": "kgx", "dir": "kgx", "variant": "verif",
        "cmd": ["{build}/harness/kgx/kgx", "--prop", prop, "--tier", "{tier}", "--shard", "{shard}", "--nshards", "{nshards}",
                "--out", "{out}", "--seed", "{seed}", "--budget", "{budget}"],
        "shards": {"quick": 16, "thorough": 16},
        "budget": {"quick": qb, "thorough": tb},
    }


A_SCHED = [
    "sequential consistency; atomics are not scheduling points (every conflicting pair of atomic accesses in these bodies is separated by a mutex operation)",
    "data races as such are invisible to a serialising scheduler",
    "timed condition waits fire as a scheduler choice that costs one deviation",
]

A_ENGINE = [
    "rule programs are drawn from the grammar of DESIGN.md §4.1 (<=4 derived keys, <=2 start requests, one value-dependent "
    "request, one discovered leaf); worlds outside it are not covered",
    "tasks are oblivious to cancellation: they always issue the requests their program dictates and complete only with the value it computes",
    "single-threaded exploration through the three engine notification points; thread-level timing is schedx's job",
    "epochs are rank-compressed in the state key: the engine only compares epochs and increments the current one",
]

CHECKS = {
    "C01": {"level": "model_checking", "parts": [enginex("C01")], "assumptions": A_ENGINE},
    "C02": {"level": "model_checking", "parts": [enginex("C02")], "assumptions": A_ENGINE},
    "C03": {"level": "model_checking", "parts": [enginex("C03")], "assumptions": A_ENGINE},
    "C04": {"level": "fault_enumeration", "parts": [crashx(), worldx3(120, 600, prop="C04"), enginex("C04", qb=300, tb=900)], "assumptions": []},
    "C05": {"level": "model_checking", "parts": [enginex("C05"), schedx("C05"), tsanx("C05"), kgx("C05", qb=120, tb=900, reuse=True)], "assumptions": A_ENGINE + A_SCHED},
    "C06": {"level": "model_checking", "parts": [enginex("C06"), schedx("C06"), tsanx("C06")], "assumptions": A_ENGINE + A_SCHED},
    "C07": {"level": "model_checking", "parts": [enginex("C07")], "assumptions": A_ENGINE},
    "C08": {"level": "model_checking", "parts": [worldx("C08", 300, 1800)], "assumptions": []},
    "C09": {"level": "model_checking", "parts": [worldx("C09", 200, 1500)], "assumptions": []},
    "C10": {"level": "model_checking", "parts": [worldx("C10", 150, 600), kgx(), kgx("C10", qb=120, tb=900, reuse=True)], "assumptions": []},
    "C11": {"level": "exploration", "parts": [parsex("C11"), worldx2("C11", 100, 1000), worldx3(120, 600, prop="C11")], "assumptions": []},
    "C12": {"level": "model_checking", "parts": [worldx2("C12", 150, 1100), kgx("C12", 120, 600)], "assumptions": []},
    "C18": {"level": "model_checking", "parts": [worldx3(200, 1500)], "assumptions": []},
    "C20": {"level": "model_checking", "parts": [enginex("C20")], "assumptions": A_ENGINE},
    "C13": {"level": "exploration", "parts": [enumx("C13"), tsanx("C13")], "assumptions": []},
    "C14": {"level": "exploration", "parts": [enumx("C14"), stalex()], "assumptions": []},
    "C15": {"level": "exploration", "parts": [enumx("C15")], "assumptions": []},
    "C16": {"level": "model_checking", "parts": [schedx("C16"), procx(), tsanx("C16")], "assumptions": A_SCHED},
    "C17": {"level": "exploration", "parts": [ninjax()], "assumptions": []},
    "C19": {"level": "exploration", "parts": [parsex("C19")], "assumptions": []},
}

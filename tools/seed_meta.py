#!/usr/bin/env python3
"""Write seeded/<id>/meta.json from the agent's meta + confirm.log, and seeded/README.md."""
import json, os, re, glob
root = "/verif/seeded"
rows = []
for d in sorted(glob.glob(root + "/C*")):
    sid = os.path.basename(d)
    log = open(d + "/confirm.log").read() if os.path.exists(d + "/confirm.log") else ""
    agent = {}
    try:
        agent = json.load(open(d + "/demo/meta.json"))
    except Exception:
        pass
    checks = {}
    cur = None
    for line in log.splitlines():
        m = re.match(r"== check (\S+) rc=(\d+)", line)
        if m:
            cur = m.group(1); checks[cur] = {"rc": int(m.group(2)), "classes": []}
            continue
        m = re.match(r"\s*violation class (\S+) \((\d+) occurrence", line)
        if m and cur:
            checks[cur]["classes"].append(m.group(1))
    tests = re.search(r"tests with change: (\d+) passed, failures=(\d+)", log)
    dw = re.search(r"demo with change rc=(\d+)", log)
    dwo = re.search(r"demo without change rc=(\d+)", log)
    meta = {
        "seed": sid,
        "property": agent.get("property", sid.split("-")[0]),
        "summary": agent.get("summary", ""),
        "needs_to_manifest": agent.get("needs", ""),
        "files": agent.get("files", []),
        "origin": "independent sub-agent given only the property title+statement and a scratch worktree (tools/seed_brief.py)",
        "confirmed_by_me": {
            "baseline_tests_with_change": ("%s passed, failures=%s" % tests.groups()) if tests else "?",
            "demo_rc_with_change": int(dw.group(1)) if dw else None,
            "demo_rc_without_change": int(dwo.group(1)) if dwo else None,
            "how": "tools/confirm_seed.sh %s (isolated copy of /repo + patch, quick tier)" % sid,
        },
        "checks_run": checks,
        "caught_by": sorted(c for c, v in checks.items() if v["rc"] == 1),
        "missed_by": sorted(c for c, v in checks.items() if v["rc"] == 0),
    }
    json.dump(meta, open(d + "/meta.json", "w"), indent=1)
    rows.append(meta)
with open(root + "/README.md", "w") as f:
    f.write("# Seeded changes\n\nEach directory holds `patch.diff` (apply with `git -C /repo apply`), the sub-agent's demonstration (`demo/`), "
            "`confirm.log` and `meta.json`. All were confirmed to compile, to pass the 83 baseline tests, and to fail their own demonstration only with the change.\n\n"
            "| seed | what the change does | needs | caught by (quick tier) | not caught by |\n|---|---|---|---|---|\n")
    for m in rows:
        cb = "; ".join("%s (%s)" % (c, ", ".join(x.split(".", 1)[1] for x in m["checks_run"][c]["classes"][:3])) for c in m["caught_by"]) or "—"
        f.write("| %s | %s | %s | %s | %s |\n" % (m["seed"], m["summary"].replace("|", "/")[:300], m["needs_to_manifest"].replace("|", "/")[:300], cb, ", ".join(m["missed_by"]) or "—"))
print(len(rows), "seeds")

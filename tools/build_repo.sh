#!/bin/bash
# Build /repo's current working tree into /verif/build/repo-<variant>.
#   verif : shipped flags + -DLLBUILD_VERIF            (clang++-16)
#   asan  : + -fsanitize=address                        (clang++-14)
#   tsan  : + -fsanitize=thread                         (clang++-14)
# Incremental (ninja). flock-serialised. Exit 2 on compile failure.
set -u
variant=${1:-verif}
root=$(cd "$(dirname "$0")/.." && pwd)/build
dir=$root/repo-$variant
mkdir -p "$root"
exec 9>"$root/.lock-$variant"
flock 9
case $variant in
  verif) cxx=clang++-16; flags="-Wno-error -DLLBUILD_VERIF" ;;
  asan)  cxx=clang++-14; flags="-Wno-error -DLLBUILD_VERIF -fsanitize=address -fno-omit-frame-pointer" ;;
  tsan)  cxx=clang++-14; flags="-Wno-error -DLLBUILD_VERIF -fsanitize=thread -fno-omit-frame-pointer" ;;
  *) echo "unknown variant $variant" >&2; exit 2 ;;
esac
if [ ! -f "$dir/build.ninja" ]; then
  cmake -G Ninja -S "${VERIF_REPO:-/repo}" -B "$dir" -DCMAKE_BUILD_TYPE=RelWithDebInfo \
    -DCMAKE_CXX_COMPILER=$cxx -DCMAKE_CXX_FLAGS="$flags" \
    -DBUILD_SHARED_LIBS=OFF -DBUILD_TESTING=OFF \
    -DLLBUILD_SUPPORT_BINDINGS="" > "$dir.cmake.log" 2>&1 || { cat "$dir.cmake.log" >&2; exit 2; }
fi
targets="llbuildBasic llbuildCore llbuildNinja llbuildBuildSystem llbuildCommands llvmSupport LLVMDemangle libllbuild llbuild"
if ! ninja -C "$dir" -j16 $targets > "$dir.ninja.log" 2>&1; then
  tail -40 "$dir.ninja.log" >&2
  echo "BUILD-FAILED variant=$variant" >&2
  exit 2
fi
exit 0

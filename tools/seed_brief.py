#!/usr/bin/env python3
"""Print the brief given to a seeding sub-agent for one property (title + statement only, nothing from /verif)."""
import json, sys
pid = sys.argv[1]
sid = sys.argv[2] if len(sys.argv) > 2 else pid          # seed id (worktree name), e.g. C01-2
avoid = sys.argv[3] if len(sys.argv) > 3 else ""         # ideas already used by earlier seeds
wt = "/var/tmp/seed/" + sid
p = [json.loads(l) for l in open('/verif/properties.jsonl') if json.loads(l)['id'] == pid][0]
print(f"""You are given a git worktree of apple/swift-llbuild (Apple's low-level incremental build engine: C++ core library `lib/Core` with a SQLite build database, `lib/BuildSystem`, `lib/Ninja`, `lib/Basic`, a C API in `products/libllbuild`, the `llbuild` command line tool in `products/llbuild` + `lib/Commands`) at `{wt}`. Work ONLY inside that directory (it is a detached worktree; do not touch `/repo`, do not touch `/verif`, do not read anything under `/verif`). No network is available.

Here is a semantic property the library is supposed to satisfy:

  **{p['title']}** — {p['statement']}

Your task: produce ONE realistic code change (a plausible bug a maintainer could introduce by accident in a refactoring, an optimisation, or an off-by-one — not a sabotage that ordinary use would expose at once) to the non-test sources in `{wt}` that BREAKS this property while
  (a) the tree still compiles, and
  (b) the project's existing unit tests all still pass, and
  (c) the breakage needs something specific to manifest: a particular interleaving or completion order, a crash or fault at a particular point, a multi-step sequence of operations (e.g. a particular history of builds and changes), an unusual input, or two cooperating code sites that each look fine alone. A change whose effect shows in the very first trivial use is NOT wanted.
Prefer a small diff (1-15 lines) in the code that is meant to make the property hold (read the code first and understand the mechanism).
""" + (("Earlier seeds for this property already used the following idea(s); choose a DIFFERENT mechanism, code site and kind of trigger: " + avoid + "\n") if avoid else "") + f"""

How to build and run the existing tests (takes a few minutes the first time; use all cores):
  cmake -G Ninja -S {wt} -B {wt}/_build -DCMAKE_BUILD_TYPE=RelWithDebInfo -DCMAKE_CXX_COMPILER=clang++-16 -DCMAKE_CXX_FLAGS=-Wno-error > /dev/null
  cmake --build {wt}/_build -j16
  for t in BasicTests BuildSystemTests CASTests CAPITests NinjaTests EvoTests CoreTests; do (cd {wt}/_build/bin && ./$t > /dev/null 2>&1; echo "$t rc=$?"); done
All seven must exit 0 (83 test cases) both before and after your change. (Note the build defines NDEBUG: assert() is compiled out.)

You must also write a DEMONSTRATION: a small stand-alone program or a new googletest case (put it under `{wt}/seed_demo/`, with a `run.sh` that builds and runs it against the libraries in `{wt}/_build/lib` — they are static archives: link e.g. `-L{wt}/_build/lib -Wl,--start-group -lllbuildBuildSystem -lllbuildNinja -lllbuildCore -lllbuildBasic -lllvmSupport -Wl,--end-group -lLLVMDemangle -lsqlite3 -lcurses -lpthread -ldl`; compile with `clang++-16 -std=c++14 -fno-rtti -I{wt}/include -I{wt}/lib/llvm/Support/include`; see `{wt}/unittests/` and `{wt}/examples/` for how the APIs are used; for tool-level properties a shell script driving `{wt}/_build/bin/llbuild` is fine) that exits 0 on the UNCHANGED tree and exits non-zero (printing what went wrong in terms of the property) with your change applied. Verify both yourself: run `run.sh` with the change reverted (`git diff -- . ':!seed_demo' > /tmp/{sid}.p; git apply -R /tmp/{sid}.p; rebuild; run; git apply /tmp/{sid}.p; rebuild` - do NOT use `git stash`, the stash is shared with other worktrees) and with it applied.

Deliverables, all inside `{wt}/seed_demo/`:
  - `patch.diff` : `git -C {wt} diff -- . ':!seed_demo'` of your change (source files only, not the demo),
  - the demonstration sources and `run.sh`,
  - `meta.json` : {{"property": "{pid}", "seed": "{sid}", "summary": "<one line: what the change does>", "needs": "<what specific interleaving/history/input/fault it needs in order to manifest>", "files": [...], "tests_pass": true, "demo_fails_with_change": true, "demo_passes_without": true}}.
Leave the worktree with your change APPLIED (uncommitted) and `_build` built with it.

In your final reply give: the diff, why it breaks the property, exactly what is needed for it to manifest, and the output of the test binaries and of the demonstration with and without the change. If your first idea turns out to be caught by the existing tests, or to be visible immediately, try another idea.""")

#!/bin/bash
# usage: try_vc.sh <patch.diff> <check args...>   e.g. try_vc.sh seeded/C10-6/patch.diff C10
# Like try_mutant.sh but never touches /repo or /verif/build: the patch is applied to the isolated worktree
# /var/tmp/vc/repo and the checks run from a copy of /verif's working tree in /var/tmp/vc/verif (as confirm_seed.sh, step 3).
set -u
patch=$(readlink -f "$1"); shift
vc=/var/tmp/vc
mkdir -p $vc
if [ ! -d $vc/repo ]; then git -C /repo worktree add -q --detach $vc/repo HEAD; fi
git -C $vc/repo checkout -q --detach $(git -C /repo rev-parse HEAD) 2>/dev/null; git -C $vc/repo checkout -q -- . ; git -C $vc/repo clean -qfd -e _build
git -C $vc/repo apply "$patch" || { echo "patch does not apply"; exit 3; }
mkdir -p $vc/verif; rsync -a --delete --exclude build --exclude .git --exclude seeded --exclude evidence --exclude replays /verif/ $vc/verif/
mkdir -p $vc/verif/evidence $vc/verif/replays
for c in "$@"; do
  o=$(cd $vc/verif && VERIF_REPO=$vc/repo ./check $c 2>&1); rc=$?
  echo "== check $c rc=$rc"
  echo "$o" | grep -E "VIOLATION|violation class|KNOWN-FINDING|quick:|harness error|failed" | cut -c1-500 | head -14
done
git -C $vc/repo checkout -q -- .

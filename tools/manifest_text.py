HOOK_COMMITS = ["d5fe92d", "HEAD~0 (see git log --grep='verif hooks' in /repo)"]

ENGINES = [
    {"name": "kgx", "path": "harness/kgx", "serves_properties": ["C10", "C05", "C12"], "kind_free_text": "in-process keep-going BuildSystemFrontend runner: failing-subset x flag x failure-kind enumeration with recorded failures"},
    {"name": "worldx2", "path": "harness/worldx2", "serves_properties": ["C12", "C11"], "kind_free_text": "directory-tree shape x edit explorer and discovered-dependency history explorer on top of worldx"},
    {"name": "worldx3", "path": "harness/worldx3", "serves_properties": ["C18", "C04", "C11"], "kind_free_text": "Ninja manifest family x edit-history explorer through `llbuild ninja build` on top of worldx"},
    {"name": "stalex", "path": "harness/stalex", "serves_properties": ["C14"], "kind_free_text": "in-process stale-file-removal runner with recording file system, exhaustive list/roots triples"},
    {"name": "procx", "path": "harness/procx", "serves_properties": ["C16"], "kind_free_text": "enumeration of child-process behaviours through the real execution queues"},
    {"name": "tsanx", "path": "harness/tsanx", "serves_properties": ["C05", "C06", "C16"], "kind_free_text": "schedx thread bodies free-running under ThreadSanitizer (sampling; supplementary to schedx for the data-race clause)"},
    {"name": "worldx", "path": "harness/worldx", "serves_properties": ["C08", "C09", "C10"],
     "kind_free_text": "on-disk history explorer: description DSL + reference evaluator + logical clock + deterministic helper command; every history replayed through the real llbuild tool"},
    {"name": "crashx", "path": "harness/crashx", "serves_properties": ["C04"],
     "kind_free_text": "crash-point enumerator: libc write-path interposition in the harness executable, kill before the N-th database call for all N, recovery and continuation oracles"},
    {"name": "schedx", "path": "harness/schedx", "serves_properties": ["C05", "C06", "C16"],
     "kind_free_text": "stateless DFS over thread schedules with iterative context bounding: a cooperative scheduler interposes pthread mutex/cond/"
                       "create/join in the harness executable, one forked execution of the real engine / execution queues per schedule"},
    {"name": "enumx", "path": "harness/enumx", "serves_properties": ["C13", "C14", "C15"],
     "kind_free_text": "bounded-exhaustive enumeration of file-state pairs, (path, root) pairs and key/value encodings against reference models"},
    {"name": "parsex", "path": "harness/parsex", "serves_properties": ["C19", "C11"],
     "kind_free_text": "bounded-exhaustive enumeration of parser inputs in exact-size buffers under AddressSanitizer / guard pages; codec round trips"},
    {"name": "ninjax", "path": "harness/ninjax", "serves_properties": ["C17"],
     "kind_free_text": "bounded-exhaustive manifest grammar, differential against /usr/bin/ninja 1.11.1; shell-quoting round trip through /bin/sh"},
    {"name": "enginex", "path": "harness/enginex", "serves_properties": ["C01", "C02", "C03", "C04", "C05", "C06", "C07", "C20"],
     "kind_free_text": "explicit-state breadth-first search over event histories; every transition runs the real BuildEngine (and SQLite BuildDB) "
                       "under a chooser that owns completion order, delivery points and cancellation points; reference evaluator + shadow record as oracles"},
]

NOTES = ("All checks go through ./check <id> --tier quick|thorough, which rebuilds /repo's working tree (tools/build_repo.sh), rebuilds the harness, "
         "runs the sharded exploration and rewrites evidence/<id>.json. known_findings.json lists defects found (fixed ones suppress nothing).")

_E = "DESIGN.md §4.1-4.2, §5 "
TEXT = {
    "C01": {"design_ref": _E + "C01",
            "technique": "explicit-state model checking of the real engine: BFS over histories x bounded in-build schedule deviations, reference evaluator oracle",
            "text": "Every history up to depth 4 (quick) / 5 (thorough) of {set leaf, tamper output cell, build any key, restart on the same database, redefine a rule} "
                    "over 46 curated rule worlds (four of them also under four hostile key spellings: NUL inside, prefix-up-to-NUL pairs, 0xFF), the enumerated static family and the 156-world request-mode family (every order and normal/single-use/must-follow assignment of three requests), with and without SQLite database, in database mode with one build per history cancelled at every step or hit by a database write error at every write, default schedule plus every single "
                    "deviation (synchronous vs deferred completion, delivery order), is executed on a fresh real engine; every successful build's value "
                    "and every input handed to a task is compared with a memoised recursive reference evaluation in the current external state. A structured A-B-A pass goes beyond the depth bound: build K, set any subset of leaves, rebuild K interrupted at every step / write, optional restart, put leaves back, rebuild K.",
            "note": "Trusted: the reference evaluator (80 lines) and the world grammar; worlds outside the grammar, deeper histories and >1 schedule deviation per build are not covered."},
    "C02": {"design_ref": _E + "C02",
            "technique": "explicit-state model checking of the real engine with a shadow record of change/up-to-date stamps as oracle",
            "text": "Same search as C01 extended with one interrupted build per history (cancellation at every engine step, database write error at every write); for every task creation the "
                    "observer demands a true justification (never built / signature / declared invalid / recorded non-order-only dependency changed since "
                    "last up to date / interrupted) from its own shadow record, at most one execution per rule per build, and checks every reason reported to the delegate.",
            "note": "The shadow record mirrors what the statement lists, kept in two layers (memory / persisted) so restarts are judged against what a new process can know."},
    "C03": {"design_ref": _E + "C03",
            "technique": "explicit-state model checking: restart-split differential + write/read-back identity on the real SQLite BuildDB",
            "text": "Every database-mode history up to the depth bound is run in one engine and again with a restart at every build boundary (executed sets, "
                    "values must agree); after every build a fresh BuildDB must read back exactly the last record written for every key (value, signature, "
                    "epochs, dependency list with flags) and the epoch; histories include one build cancelled at every step or failing at every database write.",
            "note": "Hostile key/value byte strings and the version/lock matrix are separate parts (see DESIGN.md)."},
    "C05": {"design_ref": _E + "C05",
            "technique": "explicit-state model checking of the real engine with cancellation injected at every engine step",
            "text": "For every history up to the depth bound, one build is cancelled at every step (every client callback and each of the three engine "
                    "notification points, under every explored schedule) or made to fail by an error of its N-th database write for every N; the interrupted build must fail, leave no computing task, persist only results of "
                    "completed tasks, and every later build on the same engine after reset or on a restarted engine must return the clean-build value; plus the structured A-B-A pass of C01.",
            "note": "Cancellation is issued on the engine thread at hook points; foreign-thread timing is the schedx part."},
    "C06": {"design_ref": _E + "C06",
            "technique": "exhaustive enumeration of all completion orders/delivery points of a build on the real engine; outcome and protocol oracles",
            "text": "For every prefix history up to depth 2 (3 thorough) and every final build, ALL schedules (each task completes synchronously or deferred; "
                    "deferred completions delivered in every order at loop-top or before-wait points) are executed; values, executed sets and the full "
                    "canonical engine state must be identical across schedules and every task must see the documented callback protocol; in database mode every write of the final build is additionally made to fail under every schedule with <= 1 deviation (the build has to return).",
            "note": "Single-threaded emulation of completion order; real threads under a preemption-bounded scheduler are the schedx part."},
    "C07": {"design_ref": _E + "C07",
            "technique": "exhaustive enumeration of all directed request graphs up to n keys on the real engine + BFS over cycle-capable dynamic worlds",
            "text": "All 66,128 directed graphs (self-loops included) on up to 4 keys (thorough: plus all 5-key graphs with out-degree <= 2), each under every "
                    "depth-3 history of builds, and the curated dynamic worlds under depth-3/4 histories with and without database: a required cycle must fail the build with exactly one "
                    "report whose list starts at the requested key, follows real wait-for edges and closes; no cycle in requests+recorded dependencies means no report, no stall, success.",
            "note": "Which of several cycles is reported is not constrained."},
}

TEXT.update({
    "C04": {"design_ref": "DESIGN.md §4.4, §5 C04",
            "technique": "exhaustive crash-point enumeration: the process is killed before every libc call that touches the database or its journal, then recovery + continuation on the real code",
            "text": "For 8 worlds x 5 (10 thorough) histories (two of them with a gracefully cancelled build) and a fan world of 1100 (5000) rules on the real engine with the real SQLite BuildDB, a forked child runs the history and _exit()s immediately "
                    "before the N-th open-for-write/pwrite/write/fsync/fdatasync/ftruncate/unlink on the database, its journal or directory, for every N (including "
                    "schema creation); the parent then opens the file with a fresh BuildDB (stored epoch >= every result epoch, every dependency resolves, every stored "
                    "record is one the engine handed over with the dependency list of the same execution, PRAGMA integrity_check ok) and runs 6 (12) continuation "
                    "histories whose every build must succeed with the clean-build value, including worlds whose output cells the killed build had already rewritten. "
                    "Part enginex: graceful interruption then process death - over the 46 curated rule worlds in database mode: build K, set any subset of leaves, rebuild K cancelled at EVERY "
                    "step or failed at every database write, new process on that database, any one / all of the leaves put back, rebuild K: clean-build value and consistent persisted records. "
                    "Part worldx3: the `llbuild ninja` tool SIGKILLed while a command has half-written its outputs; the continued build must give clean-build contents.",
            "note": "Process death only (writes already issued persist); power loss / torn sectors are not claimed by the property."},
    "C20": {"design_ref": "DESIGN.md §5 C20",
            "technique": "explicit-state model checking with a twin driver: every history runs through the C++ interface and through the libllbuild C interface, event logs and databases compared",
            "text": "For every history up to depth 4 (5) over the worlds expressible through core.h (no single-use requests, no signatures), with keys containing NUL, 0xFF "
                    "and numeric-looking spellings and values wrapped in NUL/0xFF bytes, with and without an attached database (including restarts and a client-version bump), the "
                    "sequence of client-visible events (rule lookups, create_task, is_result_valid arguments and answers, update_status, start, provide_value(id, bytes), "
                    "inputs_available, completions, cycle keys, results) and the persisted database must be identical between the two interfaces; the C run is also judged against the reference evaluator. Schema-version matrix: writer and reader each through C++ or C x 8 x 8 client versions around 2^31 - reuse iff equal.",
            "note": "The C API offers no cancellation, prior values or single-use requests, so those are outside this check."},
    "C08": {"design_ref": "DESIGN.md §4.5, §5 C08",
            "technique": "bounded-exhaustive exploration of edit histories through the real llbuild tool (new process per build) against a reference evaluator cross-checked with clean builds",
            "text": "32 description families (shell via a deterministic helper, phony, mkdir, symlink, archive (`ar`, members read back from the archive); file, virtual, directory-tree and directory-structure nodes; multiple outputs; "
                    "shared sub-graphs), each with 2-4 description variants: every history up to 3 events (4 for 12 families; thorough 4 resp. 5) of {edit / same-size rewrite a source, "
                    "delete or overwrite an output, switch description, build a target}, serial and -j4, is replayed from scratch in a fresh sandbox with logical-clock mtimes; after "
                    "each successful build every output reachable from the target must have the reference content.",
            "note": "Only observable edits (logical clock); real compilers and timestamps not produced by the clock are outside."},
    "C09": {"design_ref": "DESIGN.md §5 C09",
            "technique": "bounded-exhaustive exploration: null builds after every explored history, all single-attribute definition pairs in process and end to end, signatures across processes",
            "text": "For every history of C08's space an immediate further build in a new process must execute nothing but always-out-of-date commands and a command that ran must have a "
                    "cause; 147 pairs of shell/phony/mkdir/symlink/clang/swift-compiler/shared-library/archive/node definitions differing in exactly one attribute (incl. every edge of the 3-flag cube and every flag-carrying base) must have different signatures (in-process getSignature) and "
                    "re-execute end to end when signature-relevant, not re-execute otherwise; every signature computed in two processes must agree.",
            "note": "phony commands are invisible in the execution log, so their pairs are judged in process only."},
    "C10": {"design_ref": "DESIGN.md §5 C10",
            "technique": "exhaustive enumeration of failing command subsets x failure kinds x failing build index through the real tool, then repair and rebuild",
            "text": "7 (34) descriptions with up to 4 commands over file, virtual, directory and multi-output edges: every subset of commands is made to fail (exit 1 before/after writing, "
                    "SIGKILL, death by SIGTERM/SIGSEGV/SIGABRT, missing undeclared input, unwritable output) in build 0..2 of a history, serial and parallel; no consumer of a failed command may run, llbuild must exit "
                    "non-zero, the next build must retry the failed commands, and after repair the build must converge to the clean-build state; plus SIGINT scenarios with a gated helper.",
            "note": "Cancellation timing of -j4 runs is real time (one gated command per scenario). Second part (kgx): the same oracle in process under a KEEP-GOING client (a BuildSystemFrontend "
                    "delegate that counts failures and does not cancel, new frontend per build on one SQLite database): 6 (10) descriptions x every failing subset x {no flag, allow-modified-outputs, "
                    "allow-missing-inputs} x {fail-before, fail-after, kill-after, term-after} x lanes x with/without a prior successful build; failed results are really recorded there and must be retried. "
                    "Tool scenarios (kgx): a mkdir / symlink command that fails without a process (path occupied by a file, parent of the link a file, missing declared input) x repair {cause removed, "
                    "cause removed and the output made by hand beside the recorded failure} x prior build: two failing builds report failure, the build after repair converges."},
    "C11": {"design_ref": "DESIGN.md §5 C11",
            "technique": "bounded-exhaustive enumeration of dependency files (all path strings over the format's special characters x layouts, all truncations) on the real parsers under ASan",
            "text": "All path strings up to length 4 (6 thorough) over {a,' ','#','$','\\',':','/','.'} and pairs of them, rendered with the documented escaping into "
                    "single-rule, two-rule, continuation and CRLF layouts, must be recovered byte for byte by MakefileDepsParser; all dependency-info files with up to 2 (3) "
                    "records over a hostile operand alphabet likewise; every truncation and structural fault must be reported through the error callback.",
            "note": "History part (worldx2): 48 path classes (spaces, '#', '$', backslash, colon, leading/trailing/doubled, sub-directory, absolute, relative under a working-directory) x "
                    "{makefile, dependency-info, P named only in the second of two dependency files} x P initially present/missing x every history of <=2 (3) steps of {modify, delete, create P, touch nothing} through the real tool: the command re-executes iff P changed; malformed dependency files fail the build. "
                    "Ninja part (worldx3 --prop C11): the six manifest families whose statements report discovered dependencies (depfile / deps = gcc; on a generator statement; next to an order-only "
                    "input; consumer declared before its phony / restat producers; generated header; two discovered files): every history of <= 3 (4) events through `llbuild ninja build`, "
                    "contents = clean build, a changed discovered input re-runs the command, an unchanged one does not, null builds run nothing."},
    "C12": {"design_ref": "DESIGN.md §5 C12",
            "technique": "bounded-exhaustive exploration of directory-tree shapes x edits through the real llbuild tool against a reference listing model",
            "text": "All 145 (1513 thorough) trees of depth <=2 and fan-out <=2 over {file, dir, symlink} with names {a, b, k.x}: the null control and every single edit (add, remove, rename, "
                    "retype, content change of same/different size, mtime-only, chmod, symlink retarget) at every position, all pairs of edits on the small shapes, chained "
                    "build-edit-build-edit-build histories, for a directory-tree and a directory-structure input, without filter, with `*.x` and with an exact-name exclusion: the consuming command "
                    "re-executes iff the filter-visible listing (tree) resp. names/types (structure) changed; excluded names are invisible both ways; nothing changed => nothing runs.",
            "note": "Compound edits that restore the structure, chmod and a directory's own mtime are enumerated but not asserted (statement silent). Second part (kgx --prop C12): a long-lived client - ONE "
                    "BuildSystemFrontend runs a first build and one build after every edit of every word of <= 4 (5) edits over {nothing, rewrite / add / remove a name hidden by the exclusion patterns, rewrite a "
                    "visible file at depth 1 / 2, add a visible file} on a directory-tree and a directory-structure input with content-exclusion-patterns: the consumers re-run exactly when a visible name changed."},
    "C18": {"design_ref": "DESIGN.md §5 C18",
            "technique": "bounded-exhaustive exploration of edit histories through `llbuild ninja build` (new process per build) against a reference evaluator cross-checked with clean builds",
            "text": "13 (26) Ninja manifest families with 3-7 variants each (explicit/implicit/order-only inputs, multiple outputs, phony, depfile, restat, generator, generator with depfile, consumer declared before its phony/restat producers, pool): every history up to "
                    "3 (4; 5 for two families) events of {rewrite/touch a source, delete an output, switch manifest variant, build}, with --jobs 1 and 4, with and without database, plus a failure "
                    "phase (fail-before/after of each command and death of its shell by SIGTERM, repair, rebuild, null build; -k 1 and -k 0): contents equal the clean build, an immediate rebuild runs nothing, order-only inputs "
                    "never trigger, implicit/depfile inputs and command changes do, a failing command stops dependents and is retried.",
            "note": "Equal mtimes (the < vs <= boundary) cannot occur under the logical clock; in --no-db mode only contents, ordering and failure semantics are asserted."},
    "C13": {"design_ref": "DESIGN.md §5 C13",
            "technique": "exhaustive enumeration of all ordered pairs of file states x 3 file-system modes x 2 observers on real files",
            "text": "63 (127 thorough) file states (missing, contents of several sizes incl. multi-buffer, two mtimes, inode kept/replaced, directory, symlink, dangling "
                    "symlink) - all ordered pairs, in default, device-agnostic and checksum-only mode, through getFileInfo and getLinkInfo: unequal whenever the statement "
                    "says so, equal when untouched, never the missing sentinel for an existing object; checksums compared with an independent MD5.",
            "note": "tmpfs only; a change of device number alone cannot be produced."},
    "C14": {"design_ref": "DESIGN.md §5 C14",
            "technique": "exhaustive enumeration of all (path, root) string pairs up to length 6 (8) against a component-wise reference",
            "text": "All 1.86M (477M thorough) absolute (path, root) pairs over {'/','a','b','.'} up to length 6 (8) are passed to the real pathIsPrefixedByPath and "
                    "compared with a split-on-separator, drop-empty-components prefix test.",
            "note": "Second part (stalex): every (previous list, current list, roots) triple with lists of <=2 paths from a 12-path alphabet and <=2 roots from 6 is run in process "
                    "through a real BuildSystem + SQLite database with a recording file system (new BuildSystem per run = restart); the set of remove() calls must equal the reference, nothing else may be touched; all three-list histories (13 x 79 x 13 quick, 13 x 79 x 79 thorough) judged at the third run; real-tmpfs subtree removal; a link flavour of the world; and the two-list histories once more with every '/' of the description written as the YAML escape (every list element has to be unescaped by the description parser)."},
    "C15": {"design_ref": "DESIGN.md §5 C15",
            "technique": "exhaustive enumeration of keys/values of every kind over a byte alphabet; round-trip, canonicity and global injectivity oracles",
            "text": "All 9 key kinds x names up to length 3 (4) over {'a','/',NUL,0xFF} x filter lists, all 18 value kinds x 0..3 outputs x FileInfo fields in "
                    "{0,1,2^64-1} x signatures x string lists: decode(encode(v)) reproduces every accessor, re-encoding is identical, and a global map from "
                    "bytes to abstract value never sees two values (injectivity across kinds); every value is also decoded INTO a variable that already holds a value of each kind "
                    "(move assignment, the way the build system refills its slots) and must still encode to the same bytes.",
            "note": "NUL inside StringList elements is outside the type's domain."},
    "C16": {"design_ref": "DESIGN.md §4.3, §5 C16",
            "technique": "preemption-bounded stateless model checking of the real LaneBasedExecutionQueue / SerialQueue under an interposing cooperative scheduler",
            "text": "Four bodies (lane queue with 2 lanes and serial queue, each with and without a concurrent cancelAllJobs): 4 jobs incl. one High priority and one "
                    "submitted from inside a job, then destruction; every schedule with at most 2 (3) preemptions / early timer firings (1 (2) for the canceller "
                    "bodies) is executed: every job exactly once before the destructor returns, in-flight <= lanes, started/finished paired, no deadlock or lost wake-up, no thread left blocked.",
            "note": "Subprocess half (procx): every exit code 0..255, 8 fatal signals, 8 output-size classes (position-coded bytes), early close, lane release over the control fd, spawn errors, "
                    "environment precedence cases, signals without SA_RESTART interrupting the lane thread's wait for a lingering child, and cancellation placements through the real queues' executeProcess: completion exactly once after the last output, status mapping, no zombie. "
                    "Kernel scheduling of the children is not controlled. tsanx: the same thread bodies free-running under ThreadSanitizer (sampling, supplementary)."},
    "C17": {"design_ref": "DESIGN.md §5 C17",
            "technique": "bounded-exhaustive differential testing against the reference implementation /usr/bin/ninja 1.11.1",
            "text": "Every manifest with at most 2 (3) non-default features out of a 27-dimension grammar (path flavours incl. non-ASCII bytes, input classes, "
                    "build/rule/file-level bindings, nested references, commands referring to $depfile/$rspfile, include/subninja (7 child-file kinds incl. a binding that refers to the inherited value of the same name), continuations, CRLF, comments, keyword-like identifiers) is loaded by "
                    "both tools; outputs, the three input classes, expanded command, description, depfile, rspfile and rspfile_content of every build statement must agree; "
                    "all strings up to length 4 over a shell-special alphabet must survive shellEscaped + /bin/sh.",
            "note": "Trusted base: ninja 1.11.1 as the definition of Ninja's evaluation rules; manifests ninja rejects are skipped."},
    "C19": {"design_ref": "DESIGN.md §5 C19",
            "technique": "bounded-exhaustive enumeration of parser inputs in exact-size heap buffers under AddressSanitizer plus guard pages; lexer tiling oracle",
            "text": "All Ninja token strings up to length 5 over a 16-token alphabet (+ raw byte strings) through 4 lexer modes, parser and loader; all Makefile-deps "
                    "strings up to length 7 over 8 bytes; all dependency-info strings up to length 6 over 6 bytes; 19k YAML documents from a shape generator: must "
                    "terminate, never read outside the buffer, report problems only via callbacks; tokens tile the input and EOF only at the true end.",
            "note": "Inputs longer than the bounds are not covered (the statement's coverage-guided fuzzing is a different family)."},
})

NOT_APPLICABLE = {
}

HOOK_COMMITS = ["d5fe92d", "HEAD~0 (see git log --grep='verif hooks' in /repo)"]

ENGINES = [
    {"name": "enginex", "path": "harness/enginex", "serves_properties": ["C01", "C02", "C03", "C05", "C06", "C07"],
     "kind_free_text": "explicit-state breadth-first search over event histories; every transition runs the real BuildEngine (and SQLite BuildDB) "
                       "under a chooser that owns completion order, delivery points and cancellation points; reference evaluator + shadow record as oracles"},
]

NOTES = ("All checks go through ./check <id> --tier quick|thorough, which rebuilds /repo's working tree (tools/build_repo.sh), rebuilds the harness, "
         "runs the sharded exploration and rewrites evidence/<id>.json. known_findings.json lists defects found (fixed ones suppress nothing).")

_E = "DESIGN.md §4.1-4.2, §5 "
TEXT = {
    "C01": {"design_ref": _E + "C01",
            "technique": "explicit-state model checking of the real engine: BFS over histories x bounded in-build schedule deviations, reference evaluator oracle",
            "text": "Every history up to depth 4 (quick) / 5 (thorough) of {set leaf, tamper output cell, build any key, restart on the same database, redefine a rule} "
                    "over 30 curated rule worlds plus the enumerated static family, with and without SQLite database, default schedule plus every single "
                    "deviation (synchronous vs deferred completion, delivery order), is executed on a fresh real engine; every successful build's value "
                    "and every input handed to a task is compared with a memoised recursive reference evaluation in the current external state.",
            "note": "Trusted: the reference evaluator (80 lines) and the world grammar; worlds outside the grammar, deeper histories and >1 schedule deviation per build are not covered."},
    "C02": {"design_ref": _E + "C02",
            "technique": "explicit-state model checking of the real engine with a shadow record of change/up-to-date stamps as oracle",
            "text": "Same search as C01 extended with one cancelled build per history (cancellation at every engine step); for every task creation the "
                    "observer demands a true justification (never built / signature / declared invalid / recorded non-order-only dependency changed since "
                    "last up to date / interrupted) from its own shadow record, at most one execution per rule per build, and checks every reason reported to the delegate.",
            "note": "The shadow record mirrors what the statement lists, kept in two layers (memory / persisted) so restarts are judged against what a new process can know."},
    "C03": {"design_ref": _E + "C03",
            "technique": "explicit-state model checking: restart-split differential + write/read-back identity on the real SQLite BuildDB",
            "text": "Every database-mode history up to the depth bound is run in one engine and again with a restart at every build boundary (executed sets, "
                    "values must agree); after every build a fresh BuildDB must read back exactly the last record written for every key (value, signature, "
                    "epochs, dependency list with flags) and the epoch.",
            "note": "Hostile key/value byte strings and the version/lock matrix are separate parts (see DESIGN.md)."},
    "C05": {"design_ref": _E + "C05",
            "technique": "explicit-state model checking of the real engine with cancellation injected at every engine step",
            "text": "For every history up to the depth bound, one build is cancelled at every step (every client callback and each of the three engine "
                    "notification points, under every explored schedule); the cancelled build must fail, leave no computing task, persist only results of "
                    "completed tasks, and every later build on the same engine after reset or on a restarted engine must return the clean-build value.",
            "note": "Cancellation is issued on the engine thread at hook points; foreign-thread timing is the schedx part."},
    "C06": {"design_ref": _E + "C06",
            "technique": "exhaustive enumeration of all completion orders/delivery points of a build on the real engine; outcome and protocol oracles",
            "text": "For every prefix history up to depth 2 (3 thorough) and every final build, ALL schedules (each task completes synchronously or deferred; "
                    "deferred completions delivered in every order at loop-top or before-wait points) are executed; values, executed sets and the full "
                    "canonical engine state must be identical across schedules and every task must see the documented callback protocol.",
            "note": "Single-threaded emulation of completion order; real threads under a preemption-bounded scheduler are the schedx part."},
    "C07": {"design_ref": _E + "C07",
            "technique": "exhaustive enumeration of all directed request graphs up to n keys on the real engine + BFS over cycle-capable dynamic worlds",
            "text": "All directed graphs (self-loops included) on up to 3 keys, a sixteenth (quick) or all (thorough) of the 65536 graphs on 4 keys, and the "
                    "curated dynamic worlds under depth-3/4 histories with and without database: a required cycle must fail the build with exactly one "
                    "report whose list starts at the requested key, follows real wait-for edges and closes; no cycle in requests+recorded dependencies means no report, no stall, success.",
            "note": "Which of several cycles is reported is not constrained."},
}

NOT_APPLICABLE = {
    "C04": "check under construction in this round (crash-point enumerator crashx, DESIGN.md §4.4); not yet registered",
    "C08": "check under construction (worldx on-disk history explorer, DESIGN.md §4.5); not yet registered",
    "C09": "check under construction (worldx + signature enumerator); not yet registered",
    "C10": "check under construction (worldx failure-subset enumerator); not yet registered",
    "C11": "check under construction (deps codec enumerator + worldx histories); not yet registered",
    "C12": "check under construction (worldx directory-tree enumerator); not yet registered",
    "C13": "check under construction (file-state pair enumerator enumx); not yet registered",
    "C14": "check under construction (prefix predicate enumerator + in-process stale-file-removal runner); not yet registered",
    "C15": "check under construction (key/value codec enumerator); not yet registered",
    "C16": "check under construction (preemption-bounded scheduler schedx + subprocess behaviours procx); not yet registered",
    "C17": "check under construction (differential enumerator against /usr/bin/ninja); not yet registered",
    "C18": "check under construction (worldx, Ninja rendering); not yet registered",
    "C19": "check under construction (bounded-exhaustive parser inputs under ASan); not yet registered",
    "C20": "check under construction (C-API twin driver of enginex); not yet registered",
}

#!/bin/bash
# usage: try_mutant.sh <patch.diff> <Cxx>...   apply a patch to /repo, run the quick checks, revert.
patch=$1; shift
cd /repo || exit 3
git diff --quiet || { echo "/repo has local changes"; exit 3; }
git apply "$patch" || { echo "patch does not apply"; exit 3; }
for p in "$@"; do
  out=$(cd /verif && VERIF_OUT_DIR=/var/tmp/mutant-out ./check $p 2>&1); rc=$?
  echo "== $p rc=$rc"; echo "$out" | grep -E "VIOLATION|KNOWN-FINDING|violation class|quick:|harness error|failed" | cut -c1-400 | head -12
done
git -C /repo checkout -- .

#!/bin/bash
# usage: confirm_seed.sh <seed-id> [check ids...]
# Confirms a seeded change produced by a sub-agent in /var/tmp/seed/<seed-id> WITHOUT touching /repo or
# /verif/build (other work may be using them): works in an isolated pair
#   /var/tmp/vc/repo  (git worktree of /repo HEAD + the patch)   /var/tmp/vc/verif (copy of /verif's working tree)
#   1. the 7 baseline test binaries pass in the agent's worktree built WITH the change,
#   2. the demonstration fails with the change and passes without it (agent's worktree, rebuilt both ways),
#   3. the given quick checks (default: the property of the seed id's prefix) run against the patched copy.
# Everything is stored under /verif/seeded/<seed-id>/.
set -u
id=$1; shift
prop=${id%%-*}
checks=${*:-$prop}
wt=/var/tmp/seed/$id
out=/verif/seeded/$id
vc=/var/tmp/vc
mkdir -p $out $vc
git -C $wt diff -- . ':!seed_demo' > $out/patch.diff
[ -s $out/patch.diff ] || cp $wt/seed_demo/patch.diff $out/patch.diff
rm -rf $out/demo; mkdir -p $out/demo; (cd $wt/seed_demo && find . -maxdepth 1 -type f -size -200k -exec cp {} $out/demo/ \;)
log=$out/confirm.log; : > $log
if ! diff -q <(grep -v '^index ' $out/patch.diff) <(grep -v '^index ' $wt/seed_demo/patch.diff) > /dev/null 2>&1; then echo "NOTE: worktree diff differs from the agent's seed_demo/patch.diff (using the agent's file)" | tee -a $log; cp $wt/seed_demo/patch.diff $out/patch.diff; (cd $wt && git checkout -q -- . && git apply $out/patch.diff); fi
echo "seed $id property $prop base $(git -C /repo log --format=%h -1)" | tee -a $log
# 1. baseline tests with the change (agent's worktree)
( cd $wt && cmake --build _build -j16 > /dev/null 2>&1; tot=0; bad=0
  for t in BasicTests BuildSystemTests CASTests CAPITests NinjaTests EvoTests CoreTests; do
    o=$(cd _build/bin && timeout 900 ./$t 2>&1); r=$?; n=$(echo "$o" | grep -c '^\[       OK \]'); tot=$((tot+n)); [ $r -eq 0 ] || bad=1
  done; echo "tests with change: $tot passed, failures=$bad" ) | tee -a $log
# 2. demonstration with / without
( cd $wt && bash seed_demo/run.sh > $out/demo_with.log 2>&1; echo "demo with change rc=$?" ) | tee -a $log
# (no `git stash`: the stash is shared by all worktrees of /repo)
( cd $wt && git apply -R $out/patch.diff && cmake --build _build -j16 > /dev/null 2>&1; bash seed_demo/run.sh > $out/demo_without.log 2>&1; echo "demo without change rc=$?"; git apply $out/patch.diff; cmake --build _build -j16 > /dev/null 2>&1 ) | tee -a $log
# 3. checks against an isolated patched copy
if [ ! -d $vc/repo ]; then git -C /repo worktree add -q --detach $vc/repo HEAD; fi
git -C $vc/repo checkout -q --detach $(git -C /repo rev-parse HEAD) 2>/dev/null; git -C $vc/repo checkout -q -- . ; git -C $vc/repo clean -qfd -e _build
git -C $vc/repo apply --check $out/patch.diff 2>>$log || { echo "PATCH DOES NOT APPLY to /repo HEAD" | tee -a $log; exit 3; }
git -C $vc/repo apply $out/patch.diff
mkdir -p $vc/verif; rsync -a --delete --exclude build --exclude .git --exclude seeded --exclude evidence --exclude replays /verif/ $vc/verif/
mkdir -p $vc/verif/evidence $vc/verif/replays
for c in $checks; do
  o=$(cd $vc/verif && VERIF_REPO=$vc/repo ./check $c 2>&1); rc=$?
  echo "== check $c rc=$rc" | tee -a $log
  echo "$o" | grep -E "VIOLATION|violation class|KNOWN-FINDING|quick:|harness error|failed" | cut -c1-600 | head -14 | tee -a $log
done
git -C $vc/repo checkout -q -- .

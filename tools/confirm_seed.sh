#!/bin/bash
# usage: confirm_seed.sh <Cxx> [check ids...]
# Confirms a seeded change produced by a sub-agent in /var/tmp/seed/<Cxx>:
#   1. the patch applies to /repo HEAD, compiles, and the 83 baseline tests pass with it,
#   2. the demonstration fails with the change and passes without it (in the agent's worktree),
#   3. runs the given checks (default: the property itself) against /repo with the patch applied,
# then reverts /repo and stores everything under /verif/seeded/<Cxx>/.
set -u
id=$1; shift
checks=${*:-$id}
wt=/var/tmp/seed/$id
out=/verif/seeded/$id
mkdir -p $out
[ -f $wt/seed_demo/patch.diff ] || { git -C $wt diff -- . ':!seed_demo' > $wt/seed_demo/patch.diff; }
git -C $wt diff -- . ':!seed_demo' > $out/patch.diff
[ -s $out/patch.diff ] || cp $wt/seed_demo/patch.diff $out/patch.diff
cp -r $wt/seed_demo/. $out/demo 2>/dev/null; rm -rf $out/demo/_build $out/demo/*.o
log=$out/confirm.log; : > $log
cd /repo
git diff --quiet || { echo "/repo dirty" | tee -a $log; exit 3; }
git apply --check $out/patch.diff 2>>$log || { echo "PATCH DOES NOT APPLY to /repo HEAD" | tee -a $log; exit 3; }
# demonstration in the agent's worktree: with change (expect fail), without (expect pass)
( cd $wt && cmake --build _build -j16 > /dev/null 2>&1; bash seed_demo/run.sh > $out/demo_with.log 2>&1; echo "demo with change rc=$?" ) | tee -a $log
( cd $wt && git stash -q -- . ':!seed_demo' 2>/dev/null || git stash -q; cmake --build _build -j16 > /dev/null 2>&1; bash seed_demo/run.sh > $out/demo_without.log 2>&1; echo "demo without change rc=$?"; git stash pop -q; cmake --build _build -j16 > /dev/null 2>&1 ) | tee -a $log
git apply $out/patch.diff
/verif/tools/baseline_off.sh 2>&1 | tail -1 | tee -a $log
for c in $checks; do
  o=$(cd /verif && ./check $c 2>&1); rc=$?
  echo "== check $c rc=$rc" | tee -a $log
  echo "$o" | grep -E "VIOLATION|violation class|KNOWN-FINDING|quick:|harness error|failed" | cut -c1-500 | head -12 | tee -a $log
done
git -C /repo checkout -- .
git -C /repo status --short | grep -v _build | head -3
find /verif/replays -type f -delete

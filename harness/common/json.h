// Minimal JSON output helpers shared by all harnesses (no parsing needed:
// replays are passed back as a plain spec string by ./check).
#pragma once
#include <cstdint>
#include <cstdio>
#include <cstring>
#include <map>
#include <set>
#include <string>
#include <vector>
#include <chrono>

namespace vj {

inline std::string esc(const std::string& s) {
  std::string o;
  for (unsigned char c : s) {
    switch (c) {
    case '"': o += "\\\""; break;
    case '\\': o += "\\\\"; break;
    case '\n': o += "\\n"; break;
    case '\r': o += "\\r"; break;
    case '\t': o += "\\t"; break;
    default:
      if (c < 0x20 || c >= 0x7f) { char b[8]; snprintf(b, sizeof b, "\\u%04x", c); o += b; }
      else o += (char)c;
    }
  }
  return o;
}
inline std::string q(const std::string& s) { return "\"" + esc(s) + "\""; }

struct Violation {
  std::string cls;    // classification: a named matcher (see known_findings.json)
  std::string what;   // one-line human description
  std::string spec;   // replay spec (harness-specific mini language)
};

// Result accumulator: counters (summed across shards), samples, violations.
struct Result {
  std::map<std::string, long long> counters;
  std::map<std::string, std::string> strings;
  std::vector<std::string> samples;      // already-JSON values
  std::vector<std::string> assumptions;
  std::vector<Violation> violations;
  std::map<std::string, int> perClass;
  bool exhaustive = true;
  size_t maxPerClass = 5;

  void count(const std::string& k, long long n = 1) { counters[k] += n; }
  void maxOf(const std::string& k, long long n) { if (!counters.count(k) || counters[k] < n) counters[k] = n; }
  void sample(const std::string& jsonValue, size_t cap = 6) { if (samples.size() < cap) samples.push_back(jsonValue); }
  void violate(const std::string& cls, const std::string& what, const std::string& spec) {
    int& n = perClass[cls];
    ++n;
    count("violations_raw");
    if ((size_t)n <= maxPerClass) violations.push_back({cls, what, spec});
  }
  bool write(const std::string& path) const {
    FILE* f = fopen(path.c_str(), "w");
    if (!f) return false;
    fprintf(f, "{\n \"coverage\": {\n");
    for (auto& kv : counters) fprintf(f, "  %s: %lld,\n", q(kv.first).c_str(), kv.second);
    for (auto& kv : strings) fprintf(f, "  %s: %s,\n", q(kv.first).c_str(), q(kv.second).c_str());
    fprintf(f, "  \"samples\": [");
    for (size_t i = 0; i < samples.size(); ++i) fprintf(f, "%s%s", i ? ", " : "", samples[i].c_str());
    fprintf(f, "],\n  \"exhaustive\": %s\n },\n", exhaustive ? "true" : "false");
    fprintf(f, " \"assumptions\": [");
    for (size_t i = 0; i < assumptions.size(); ++i) fprintf(f, "%s%s", i ? ", " : "", q(assumptions[i]).c_str());
    fprintf(f, "],\n \"violations\": [\n");
    for (size_t i = 0; i < violations.size(); ++i) {
      auto& v = violations[i];
      fprintf(f, "  {\"class\": %s, \"what\": %s, \"replay\": {\"spec\": %s}}%s\n", q(v.cls).c_str(),
              q(v.what).c_str(), q(v.spec).c_str(), i + 1 < violations.size() ? "," : "");
    }
    fprintf(f, " ]\n}\n");
    fclose(f);
    return true;
  }
};

// Common command line.
struct Args {
  std::string tier = "quick", out = "/dev/stdout", replaySpec, prop, extra;
  int shard = 0, nshards = 1;
  long long seed = 0;
  double budget = 120;
  std::chrono::steady_clock::time_point t0 = std::chrono::steady_clock::now();
  bool thorough() const { return tier == "thorough"; }
  double elapsed() const { return std::chrono::duration<double>(std::chrono::steady_clock::now() - t0).count(); }
  bool overBudget() const { return elapsed() > budget; }
  void parse(int argc, char** argv) {
    for (int i = 1; i < argc; ++i) {
      std::string a = argv[i];
      auto next = [&]() -> std::string { return i + 1 < argc ? argv[++i] : ""; };
      if (a == "--tier") tier = next();
      else if (a == "--out") out = next();
      else if (a == "--shard") shard = atoi(next().c_str());
      else if (a == "--nshards") nshards = atoi(next().c_str());
      else if (a == "--seed") seed = atoll(next().c_str());
      else if (a == "--budget") budget = atof(next().c_str());
      else if (a == "--replay-spec") replaySpec = next();
      else if (a == "--prop") prop = next();
      else if (a == "--extra") extra = next();
    }
  }
};

}  // namespace vj

// kgx: C10, keep-going part.  "A failed or cancelled command never feeds dependents and is always retried",
// decided IN PROCESS for library clients that KEEP GOING after a command failure (SwiftPM through the C API, any
// BuildSystemFrontendDelegate whose hadCommandFailure() does not cancel).  The `llbuild buildsystem build` tool
// (harness/worldx/c10.py) cancels the whole build at the first failure and a cancelled build never records a
// FailedCommand result, so everything that depends on RECORDED failures is out of its reach.
//
// One scenario = (description, flag put on the failing commands, non-empty subset F of shell commands directed to
// fail, failure kind, lane count, prior) and is the history
//     [prior=1: clean successful build, then every source edited]
//     B1  failing build            (control file makes every TAG in F fail in the chosen way)
//     B2  failing build again      (nothing changed, cause still present)
//         repair                   (control entries removed)
//     B3  build                    (must succeed, re-run what failed and what is downstream, reach the clean state)
//     B4  null build               (must run nothing)
// on ONE SQLite database in a sandbox under /dev/shm/verif-kgx-<pid>/<n>/.  Every build is a NEW
// BuildSystemFrontend (= restart at every boundary) with a delegate that counts failures and does NOT cancel, and the
// real lane based execution queue (1 lane = the tool's --serial, or 2/4 lanes).  Every shell command is
// harness/worldx's `vcmd cat TAG OUT... -- IN...` (exec.log, logical clock, .vctl control file).
//
// Replay spec:  kg|<description>|<none|amo|ami|amo-all|ami-all>|<C1+C3>|<fail-before|fail-after|kill-after|kill-before>|<lanes>|<prior>
#include "../common/json.h"

#include "llbuild/Basic/ExecutionQueue.h"
#include "llbuild/Basic/FileSystem.h"
#include "llbuild/BuildSystem/BuildKey.h"
#include "llbuild/BuildSystem/BuildSystem.h"
#include "llbuild/BuildSystem/BuildSystemFrontend.h"
#include "llbuild/BuildSystem/Command.h"
#include "llbuild/BuildSystem/Tool.h"

#include "llvm/ADT/Twine.h"
#include "llvm/Support/SourceMgr.h"

#include <algorithm>
#include <cerrno>
#include <cstdio>
#include <cstdlib>
#include <dirent.h>
#include <fcntl.h>
#include <map>
#include <mutex>
#include <set>
#include <string>
#include <sys/file.h>
#include <sys/stat.h>
#include <sys/wait.h>
#include <unistd.h>
#include <vector>

using namespace llvm;
using namespace llbuild;
using namespace llbuild::basic;
using namespace llbuild::buildsystem;

namespace {

typedef std::vector<std::string> Strs;
typedef std::set<int> ISet;

std::string gScratch;
std::string gVcmd;

void wipe(const std::string& dir, bool removeSelf) {
  DIR* d = opendir(dir.c_str());
  if (d) {
    Strs names;
    while (dirent* e = readdir(d)) {
      std::string n = e->d_name;
      if (n != "." && n != "..") names.push_back(n);
    }
    closedir(d);
    for (auto& n : names) {
      std::string p = dir + "/" + n;
      struct stat st;
      if (lstat(p.c_str(), &st) == 0 && S_ISDIR(st.st_mode)) wipe(p, true);
      else unlink(p.c_str());
    }
  }
  if (removeSelf) rmdir(dir.c_str());
}

[[noreturn]] void fatal(const std::string& msg) {  // harness error: never a verdict
  fprintf(stderr, "kgx: HARNESS ERROR: %s\n", msg.c_str());
  if (chdir("/") != 0) {}
  if (!gScratch.empty()) wipe(gScratch, true);
  exit(3);
}

std::string join(const Strs& v, const char* sep) {
  std::string o;
  for (size_t i = 0; i < v.size(); ++i) o += (i ? sep : "") + v[i];
  return o;
}
std::string jsonList(const Strs& v) {
  std::string o = "[";
  for (size_t i = 0; i < v.size(); ++i) o += (i ? ", " : "") + vj::q(v[i]);
  return o + "]";
}
Strs split(const std::string& s, char c) {
  Strs out;
  size_t pos = 0;
  while (true) {
    size_t e = s.find(c, pos);
    out.push_back(s.substr(pos, e == std::string::npos ? std::string::npos : e - pos));
    if (e == std::string::npos) break;
    pos = e + 1;
  }
  return out;
}

// ---------------------------------------------------------------- descriptions
bool isVirtual(const std::string& n) { return n.size() >= 2 && n[0] == '<' && n.back() == '>'; }
bool isDirNode(const std::string& n) { return !n.empty() && n.back() == '/'; }

struct Cmd {
  std::string name;  // = vcmd TAG
  bool phony;
  Strs ins, outs;
};
struct Desc {
  std::string id;
  std::vector<Cmd> cmds;
  Strs targets;  // nodes of target "all"
  bool quick;
  std::vector<int> shell;  // indices of the shell commands (bit j of a failing mask = cmds[shell[j]])
  int producer(const std::string& node) const {
    for (size_t i = 0; i < cmds.size(); ++i)
      for (auto& o : cmds[i].outs)
        if (o == node) return (int)i;
    return -1;
  }
  int byName(const std::string& n) const {
    for (size_t i = 0; i < cmds.size(); ++i)
      if (cmds[i].name == n) return (int)i;
    return -1;
  }
  bool isGate(int c) const {  // a phony command all of whose outputs are virtual: deliberately does not propagate failure
    if (!cmds[c].phony) return false;
    for (auto& o : cmds[c].outs)
      if (!isVirtual(o)) return false;
    return true;
  }
  // commands that directly or transitively consume an output of a member of S (members of S only when downstream of another member)
  ISet consumers(const ISet& S, bool dropGates) const {
    std::set<std::string> dirty;
    for (int c : S) dirty.insert(cmds[c].outs.begin(), cmds[c].outs.end());
    ISet res;
    bool changed = true;
    while (changed) {
      changed = false;
      for (size_t c = 0; c < cmds.size(); ++c) {
        if (res.count((int)c) || (dropGates && isGate((int)c))) continue;
        bool hit = false;
        for (auto& i : cmds[c].ins) hit = hit || dirty.count(i);
        if (!hit) continue;
        res.insert((int)c);
        dirty.insert(cmds[c].outs.begin(), cmds[c].outs.end());
        changed = true;
      }
    }
    return res;
  }
  ISet producersOf(const ISet& S) const {  // transitive producers of the inputs of S
    ISet res;
    std::vector<int> todo(S.begin(), S.end());
    while (!todo.empty()) {
      int c = todo.back();
      todo.pop_back();
      for (auto& i : cmds[c].ins) {
        int p = producer(i);
        if (p >= 0 && res.insert(p).second) todo.push_back(p);
      }
    }
    return res;
  }
};

std::vector<Desc> descriptions() {
  auto S = [](const char* n, Strs ins, Strs outs) { return Cmd{n, false, ins, outs}; };
  auto P = [](const char* n, Strs ins, Strs outs) { return Cmd{n, true, ins, outs}; };
  std::vector<Desc> ds;
  // chain C1 -> C2 -> C3
  ds.push_back({"chain", {S("C1", {"s1"}, {"o1"}), S("C2", {"o1"}, {"o2"}), S("C3", {"o2", "s2"}, {"o3"})}, {"o3"}, true, {}});
  ds.push_back({"diamond", {S("C1", {"s1"}, {"o1"}), S("C2", {"o1"}, {"o2"}), S("C3", {"o1", "s2"}, {"o3"}), S("C4", {"o2", "o3"}, {"o4"})}, {"o4"}, true, {}});
  // two independent sub-graphs sharing the source s1
  ds.push_back({"indep", {S("C1", {"s1"}, {"o1"}), S("C2", {"o1"}, {"o2"}), S("C3", {"s1", "s2"}, {"o3"}), S("C4", {"o3"}, {"o4"})}, {"o2", "o4"}, true, {}});
  // one command with two outputs, each with its own consumer
  ds.push_back({"multi", {S("C1", {"s1"}, {"o1", "o2"}), S("C2", {"o1"}, {"o3"}), S("C3", {"o2", "s2"}, {"o4"})}, {"o3", "o4"}, true, {}});
  // a virtual-node edge between two shell commands
  ds.push_back({"virt", {S("C1", {"s1"}, {"o1", "<v>"}), S("C2", {"<v>", "s2"}, {"o2"}), S("C3", {"o1", "o2"}, {"o3"})}, {"o3"}, true, {}});
  // a phony gate with a virtual output between C1 and C2 (C3 also has the direct edge o1)
  ds.push_back({"gate", {S("C1", {"s1"}, {"o1"}), P("G", {"o1"}, {"<g>"}), S("C2", {"<g>", "s2"}, {"o2"}), S("C3", {"o1", "o2"}, {"o3"})}, {"o3"}, true, {}});
  // a produced directory consumed as a tree
  ds.push_back({"dir", {S("C1", {"s1"}, {"d1/"}), S("C2", {"d1/"}, {"o2"}), S("C3", {"s2"}, {"o3"}), S("C4", {"o2", "o3"}, {"o4"})}, {"o4"}, false, {}});
  // three independent producers joined by one consumer
  ds.push_back({"wide", {S("C1", {"s1"}, {"o1"}), S("C2", {"s1", "s2"}, {"o2"}), S("C3", {"s2"}, {"o3"}), S("C4", {"o1", "o2", "o3"}, {"o4"})}, {"o4"}, false, {}});
  // commands whose only outputs are virtual
  ds.push_back({"virtonly", {S("C1", {"s1"}, {"<a>"}), S("C2", {"<a>", "s2"}, {"<b>"}), S("C3", {"<b>", "s1"}, {"o3"})}, {"o3"}, false, {}});
  // the usual aggregate target: a phony command at the END (nothing behind it)
  ds.push_back({"phonyall", {S("C1", {"s1"}, {"o1"}), S("C2", {"o1", "s2"}, {"o2"}), S("C3", {"s2"}, {"o3"}), P("ALL", {"o2", "o3"}, {"<all>"})}, {"<all>"}, false, {}});
  // a producer with two consumers, one of which also waits for a second producer (reuse scenarios: C2 is slowed down)
  ds.push_back({"share", {S("C1", {"s1"}, {"o1"}), S("C2", {"s2"}, {"o2"}), S("C3", {"o1", "o2"}, {"o3"}), S("C4", {"o1"}, {"o4"})}, {"o3", "o4"}, true, {}});
  for (auto& d : ds)
    for (size_t i = 0; i < d.cmds.size(); ++i)
      if (!d.cmds[i].phony) d.shell.push_back((int)i);
  return ds;
}

// flag variants: the attribute is put on the failing commands only, or (thorough: "-all") on every shell command, consumers included
enum Flag { F_NONE = 0, F_AMO = 1, F_AMI = 2 };
const int kNumFlags = 5;
const char* const kFlagShort[] = {"none", "amo", "ami", "amo-all", "ami-all"};
const char* const kFlagName[] = {"none", "allow-modified-outputs", "allow-missing-inputs", "allow-modified-outputs-on-all", "allow-missing-inputs-on-all"};
const char* const kFlagAttr[] = {"", "allow-modified-outputs", "allow-missing-inputs", "allow-modified-outputs", "allow-missing-inputs"};
int flagBase(int f) { return f >= 3 ? f - 2 : f; }
bool flagAll(int f) { return f >= 3; }
// kinds (the control word of vcmd's .vctl): kill-before is thorough only
const int kNumKinds = 5;
const char* const kKinds[] = {"fail-before", "fail-after", "kill-after", "term-after", "kill-before"};
const char* const kCtlWord[] = {"fail-before", "fail-after", "kill-after", "sig-after 15", "kill"};

std::string yq(const std::string& s) {
  std::string o = "\"";
  for (char c : s) {
    if (c == '"' || c == '\\') o += '\\';
    o += c;
  }
  return o + "\"";
}
std::string yqList(const Strs& v) {
  std::string o = "[";
  for (size_t i = 0; i < v.size(); ++i) o += (i ? ", " : "") + yq(v[i]);
  return o + "]";
}

// the same rendering as harness/worldx/wx.py Desc.yaml()
std::string yaml(const Desc& d, int flag, const ISet& flagged) {
  std::string y = "client:\n  name: basic\ntargets:\n  \"all\": " + yqList(d.targets) + "\ncommands:\n";
  for (size_t i = 0; i < d.cmds.size(); ++i) {
    const Cmd& c = d.cmds[i];
    bool fl = flagged.count((int)i) != 0;
    y += "  " + yq(c.name) + ":\n    tool: " + (c.phony ? "phony" : "shell") + "\n";
    y += "    inputs: " + yqList(c.ins) + "\n    outputs: " + yqList(c.outs) + "\n";
    if (c.phony) continue;
    Strs a{gVcmd, "cat", c.name};
    if (fl && flagBase(flag) == F_AMI) a.push_back("-m");
    for (auto& o : c.outs)
      if (!isVirtual(o)) a.push_back(o);
    a.push_back("--");
    for (auto& n : c.ins)
      if (!isVirtual(n)) a.push_back(n);
    y += "    args: " + yqList(a) + "\n";
    if (fl && flag != F_NONE) y += std::string("    ") + kFlagAttr[flag] + ": true\n";
  }
  return y;
}

// ---------------------------------------------------------------- reference evaluator (what vcmd writes)
// payload(c) = TAG '(' contents(in1) ',' contents(in2) ... ')' over the non-virtual inputs; a directory output d/ holds the
// single file d/f with the payload and reads back as the canonical listing "{f=<payload>}".
struct Reference {
  const Desc& d;
  const std::map<std::string, std::string>& src;
  std::map<int, std::string> memo;
  std::string payload(int c) {
    auto it = memo.find(c);
    if (it != memo.end()) return it->second;
    std::string p = d.cmds[c].name + "(";
    bool first = true;
    for (auto& n : d.cmds[c].ins) {
      if (isVirtual(n)) continue;
      if (!first) p += ",";
      first = false;
      p += contents(n);
    }
    p += ")";
    memo[c] = p;
    return p;
  }
  std::string contents(const std::string& n) {
    int p = d.producer(n);
    if (p < 0) {
      auto it = src.find(n);
      if (it == src.end()) fatal("reference: no source " + n);
      return it->second;
    }
    if (d.cmds[p].phony) fatal("reference: file produced by a phony command");
    return isDirNode(n) ? "{f=" + payload(p) + "}" : payload(p);
  }
  std::map<std::string, std::string> outputs() {  // every file/directory output of every shell command -> expected observation
    std::map<std::string, std::string> m;
    for (int c : d.shell)
      for (auto& o : d.cmds[c].outs)
        if (!isVirtual(o)) m[o] = contents(o);
    return m;
  }
};

// ---------------------------------------------------------------- sandbox (the conventions of wx.py's Sandbox and of vcmd)
const long long BASE_SEC = 1000000000LL;

struct Sandbox {
  std::string root;
  off_t logOff = 0;
  std::string p(const std::string& rel) const { return root + "/" + rel; }
  void create(const std::string& r) {
    root = r;
    wipe(root, true);
    if (mkdir(root.c_str(), 0755) != 0) fatal("mkdir " + root + ": " + strerror(errno));
    rawWrite(".vclock", "0000000000000000000\n");
    logOff = 0;
  }
  void destroy() { wipe(root, true); }
  void rawWrite(const std::string& rel, const std::string& data) {
    int fd = open(p(rel).c_str(), O_WRONLY | O_CREAT | O_TRUNC, 0644);
    if (fd < 0) fatal("open " + p(rel) + ": " + strerror(errno));
    size_t off = 0;
    while (off < data.size()) {
      ssize_t n = ::write(fd, data.data() + off, data.size() - off);
      if (n <= 0) fatal("write " + p(rel));
      off += (size_t)n;
    }
    close(fd);
  }
  long long tick() {  // the logical clock shared with vcmd
    int fd = open(p(".vclock").c_str(), O_RDWR);
    if (fd < 0) fatal("open .vclock");
    if (flock(fd, LOCK_EX) != 0) fatal("flock .vclock");
    char b[32];
    ssize_t r = pread(fd, b, sizeof b - 1, 0);
    long long v = 0;
    if (r > 0) { b[r] = 0; v = atoll(b); }
    ++v;
    int n = snprintf(b, sizeof b, "%019lld\n", v);
    if (pwrite(fd, b, (size_t)n, 0) != n) fatal("pwrite .vclock");
    flock(fd, LOCK_UN);
    close(fd);
    return v;
  }
  void stamp(const std::string& rel) {
    long long t = tick();
    struct timespec ts[2];
    ts[0].tv_sec = ts[1].tv_sec = BASE_SEC + t / 1000;
    ts[0].tv_nsec = ts[1].tv_nsec = (t % 1000) * 1000000L;
    if (utimensat(AT_FDCWD, p(rel).c_str(), ts, AT_SYMLINK_NOFOLLOW) != 0) fatal("utimensat " + p(rel));
  }
  void write(const std::string& rel, const std::string& content) {  // in place (inode kept) + fresh logical mtime
    rawWrite(rel, content);
    stamp(rel);
  }
  void remove(const std::string& node) {
    std::string rel = node;
    while (rel.size() > 1 && rel.back() == '/') rel.pop_back();
    struct stat st;
    if (lstat(p(rel).c_str(), &st) != 0) return;
    if (S_ISDIR(st.st_mode)) wipe(p(rel), true);
    else unlink(p(rel).c_str());
  }
  bool exists(const std::string& node) const {
    std::string rel = node;
    while (rel.size() > 1 && rel.back() == '/') rel.pop_back();
    struct stat st;
    return lstat(p(rel).c_str(), &st) == 0;
  }
  static bool slurp(const std::string& path, std::string& out) {
    int fd = open(path.c_str(), O_RDONLY);
    if (fd < 0) return false;
    out.clear();
    char buf[8192];
    ssize_t n;
    while ((n = read(fd, buf, sizeof buf)) > 0) out.append(buf, (size_t)n);
    close(fd);
    return true;
  }
  static std::string listing(const std::string& dir) {  // vcmd's canonical recursive listing
    DIR* d = opendir(dir.c_str());
    if (!d) return "<unreadable>";
    Strs names;
    while (dirent* e = readdir(d)) {
      std::string n = e->d_name;
      if (n != "." && n != "..") names.push_back(n);
    }
    closedir(d);
    std::sort(names.begin(), names.end());
    std::string o = "{";
    for (size_t i = 0; i < names.size(); ++i) {
      std::string q = dir + "/" + names[i], c;
      struct stat st;
      o += (i ? "," : "") + names[i] + "=";
      if (lstat(q.c_str(), &st) != 0) o += "!";
      else if (S_ISDIR(st.st_mode)) o += listing(q);
      else if (slurp(q, c)) o += c;
      else o += "!";
    }
    return o + "}";
  }
  std::string observe(const std::string& node) const {  // content / listing / "<missing>"
    std::string rel = node;
    while (rel.size() > 1 && rel.back() == '/') rel.pop_back();
    struct stat st;
    if (stat(p(rel).c_str(), &st) != 0) return "<missing>";
    if (S_ISDIR(st.st_mode)) return listing(p(rel));
    std::string c;
    return slurp(p(rel), c) ? c : "<unreadable>";
  }
  Strs newExec() {  // TAGs appended to exec.log since the last call, in start order
    Strs out;
    int fd = open(p("exec.log").c_str(), O_RDONLY);
    if (fd < 0) return out;
    std::string data;
    char buf[4096];
    ssize_t n;
    lseek(fd, logOff, SEEK_SET);
    while ((n = read(fd, buf, sizeof buf)) > 0) data.append(buf, (size_t)n);
    close(fd);
    logOff += (off_t)data.size();
    std::string cur;
    for (char c : data) {
      if (c == '\n') { if (!cur.empty()) out.push_back(cur); cur.clear(); }
      else cur += c;
    }
    return out;
  }
  void setCtl(const std::map<std::string, std::string>& e) {  // TAG -> kind; empty removes the file
    if (e.empty()) { unlink(p(".vctl").c_str()); return; }
    std::string s;
    for (auto& kv : e) s += kv.first + " " + kv.second + "\n";
    rawWrite(".vctl", s);
  }
};

// ---------------------------------------------------------------- one build through the real frontend, keep-going delegate
struct BuildObs {
  bool initialized = false;
  bool ok = false;           // what BuildSystemFrontend::build() returned (and no diagnostics)
  unsigned failures = 0;     // hadCommandFailure() calls
  unsigned errors = 0;       // error() diagnostics
  bool cycle = false;
  Strs ran;                  // exec.log: TAGs whose process really started, in start order
  Strs started;              // commandStarted() for shell commands
  Strs statuses;             // "C1=failed" ... from commandFinished()
  std::string output;        // process output + diagnostics
};

class KGDelegate : public BuildSystemFrontendDelegate {
  std::mutex m;

public:
  BuildObs& o;
  // reuse scenarios: cancel the build from inside the cancelAt-th status callback (0: never)
  long callbacks = 0, cancelAt = 0;
  bool cancelIssued = false;
  void tick() {
    bool fire = false;
    { std::lock_guard<std::mutex> l(m); fire = ++callbacks == cancelAt; if (fire) cancelIssued = true; }
    if (fire) cancel();
  }
  void commandPreparing(Command* c) override { BuildSystemFrontendDelegate::commandPreparing(c); tick(); }
  bool shouldCommandStart(Command* c) override { tick(); return BuildSystemFrontendDelegate::shouldCommandStart(c); }
  KGDelegate(llvm::SourceMgr& sm, BuildObs& o) : BuildSystemFrontendDelegate(sm, "basic", 0), o(o) {}
  std::unique_ptr<Tool> lookupTool(StringRef) override { return nullptr; }
  // KEEP GOING: count, never cancel (the tool's delegate calls cancel() here)
  void hadCommandFailure() override {
    { std::lock_guard<std::mutex> l(m); ++o.failures; }
    BuildSystemFrontendDelegate::hadCommandFailure();
    tick();
  }
  void error(StringRef filename, const Token&, const Twine& message) override {
    std::lock_guard<std::mutex> l(m);
    ++o.errors;
    o.output += "error: " + filename.str() + ": " + message.str() + "\n";
  }
  void commandStarted(Command* c) override {
    tick();
    if (!c->shouldShowStatus()) return;
    std::lock_guard<std::mutex> l(m);
    o.started.push_back(c->getName().str());
  }
  void commandFinished(Command* c, ProcessStatus st) override {
    tick();
    if (!c->shouldShowStatus()) return;
    std::lock_guard<std::mutex> l(m);
    o.statuses.push_back(c->getName().str() + "=" +
                         (st == ProcessStatus::Succeeded ? "succeeded" : st == ProcessStatus::Failed ? "failed" :
                          st == ProcessStatus::Cancelled ? "cancelled" : st == ProcessStatus::Skipped ? "skipped" : "unknown"));
  }
  void commandHadError(Command*, StringRef d) override { std::lock_guard<std::mutex> l(m); o.output += "command error: " + d.str(); }
  void commandHadNote(Command*, StringRef d) override { std::lock_guard<std::mutex> l(m); o.output += "note: " + d.str(); }
  void commandHadWarning(Command*, StringRef d) override { std::lock_guard<std::mutex> l(m); o.output += "warning: " + d.str(); }
  void commandCannotBuildOutputDueToMissingInputs(Command* c, Node*, ArrayRef<BuildKey>) override {
    std::lock_guard<std::mutex> l(m);
    o.output += "cannot build " + c->getName().str() + " due to missing inputs\n";
  }
  void cannotBuildNodeDueToMultipleProducers(Node*, std::vector<Command*>) override {
    std::lock_guard<std::mutex> l(m);
    o.output += "multiple producers\n";
  }
  void commandProcessHadError(Command*, ProcessHandle, const Twine& msg) override {
    std::lock_guard<std::mutex> l(m);
    o.output += "process error: " + msg.str() + "\n";
  }
  void commandProcessHadOutput(Command*, ProcessHandle, StringRef d) override { std::lock_guard<std::mutex> l(m); o.output += d.str(); }
  void commandProcessFinished(Command*, ProcessHandle, const ProcessResult&) override {}
  // reuse scenarios, cancelAt == -1: cancel from inside the FIRST commandProcessStarted callback (the lane thread is
  // inside spawnProcess at that moment)
  void commandProcessStarted(Command*, ProcessHandle) override {
    bool fire = false;
    { std::lock_guard<std::mutex> l(m); fire = cancelAt == -1 && !cancelIssued; if (fire) cancelIssued = true; }
    if (fire) cancel();
  }
  void cycleDetected(const std::vector<core::Rule*>&) override { std::lock_guard<std::mutex> l(m); o.cycle = true; }
};

const char* const kEnv[] = {"PATH=/usr/bin:/bin", "LLBUILD_TEST=1", "LANG=C", nullptr};

long long gBuilds = 0;
std::string gProp = "C05";  // class prefix of the reuse scenarios (they serve C05 and C10)

// the process cwd must be the sandbox root
BuildObs runBuild(Sandbox& sb, int lanes, bool db) {
  BuildObs o;
  sb.newExec();
  ++gBuilds;
  {
    llvm::SourceMgr sm;
    BuildSystemInvocation inv;
    inv.buildFilePath = "build.llbuild";
    inv.dbPath = db ? "build.db" : "";
    inv.useSerialBuild = lanes == 1;  // one lane of the lane based queue, as `--serial`
    inv.schedulerLanes = (uint32_t)lanes;
    inv.environment = kEnv;
    KGDelegate del(sm, o);
    BuildSystemFrontend fe(del, inv, createLocalFileSystem());
    o.initialized = fe.initialize();
    if (o.initialized) {
      bool r = fe.build("all");
      o.ok = r && o.errors == 0;
    }
  }  // the frontend (engine, queue threads, database connection) is gone here
  o.ran = sb.newExec();
  return o;
}

// ---------------------------------------------------------------- the judge
struct Item {
  int desc, flag;
  unsigned mask;
  int kind, lanes, prior;
};

struct Judge {
  vj::Result& res;
  const std::vector<Desc>& descs;
  bool verbose = false;
  int sandboxNo = 0;
  std::set<std::string> crossChecked;
  std::set<std::string> sampleKinds;

  std::string specOf(const Item& it) const {
    const Desc& d = descs[it.desc];
    Strs f;
    for (size_t j = 0; j < d.shell.size(); ++j)
      if (it.mask >> j & 1) f.push_back(d.cmds[d.shell[j]].name);
    return "kg|" + d.id + "|" + kFlagShort[it.flag] + "|" + join(f, "+") + "|" + kKinds[it.kind] + "|" + std::to_string(it.lanes) + "|" +
           std::to_string(it.prior);
  }

  Strs names(const Desc& d, const ISet& s) const {
    Strs o;
    for (int c : s) o.push_back(d.cmds[c].name);
    return o;
  }
  ISet toSet(const Desc& d, const Strs& tags, const std::string& what) const {
    ISet s;
    for (auto& t : tags) {
      int c = d.byName(t);
      if (c < 0) fatal(what + ": unknown TAG in exec.log: " + t);
      s.insert(c);
    }
    return s;
  }
  static ISet inter(const ISet& a, const ISet& b) {
    ISet o;
    for (int x : a) if (b.count(x)) o.insert(x);
    return o;
  }
  static ISet minus(const ISet& a, const ISet& b) {
    ISet o;
    for (int x : a) if (!b.count(x)) o.insert(x);
    return o;
  }
  static ISet uni(const ISet& a, const ISet& b) {
    ISet o = a;
    o.insert(b.begin(), b.end());
    return o;
  }

  void show(const char* label, const BuildObs& o, const Sandbox& sb, const Desc& d) {
    if (!verbose) return;
    printf("  %-28s reported %s, command failures=%u, diagnostics=%u\n    executed (exec.log): [%s]\n    commandStarted:      [%s]\n    commandFinished:     [%s]\n",
           label, o.ok ? "SUCCESS" : "FAILURE", o.failures, o.errors, join(o.ran, " ").c_str(), join(o.started, " ").c_str(),
           join(o.statuses, " ").c_str());
    printf("    files:");
    for (int c : d.shell)
      for (auto& n : d.cmds[c].outs)
        if (!isVirtual(n)) printf(" %s=%s", n.c_str(), sb.observe(n).c_str());
    printf("\n");
    if (!o.output.empty()) {
      std::string t = o.output;
      for (size_t i = 0; i < t.size(); ++i)
        if (t[i] == '\n' && i + 1 < t.size()) t.insert(i + 1, "      | "), i += 8;
      printf("      | %s%s", t.c_str(), t.back() == '\n' ? "" : "\n");
    }
  }

  void sanity(const BuildObs& o, const std::string& what) {
    if (!o.initialized) fatal(what + ": the description did not load / the database did not attach\n" + o.output);
    if (o.cycle) fatal(what + ": cycle reported\n" + o.output);
  }

  // ---- reuse scenarios (C05 at the BuildSystem level): ONE frontend (one BuildSystem, one engine, one set of Command
  // objects) serves a build that is cancelled from inside its cancelAt-th status callback (optionally with a command
  // directed to fail and another one slowed down), then - cause removed, optionally every source edited - a second
  // build and a null build. The later builds must give the clean-build result whatever the first one left behind.
  // ---- built-in tools that can fail without any process: mkdir (path occupied by a file / missing declared input) and
  // symlink (the parent of the link is a file).  History: [prior successful build], cause put in place, failing build,
  // failing build again, repair (cause removed; "present": the tool's output additionally made by hand, so that it
  // exists although the recorded result is a failure), build, null build.
  struct ToolSc { int tool; int cause; int repair; int prior; };   // tool 0 mkdir 1 symlink; cause 0 obstructed 1 missing-input; repair 0 plain 1 present
  static const char* toolName(int t) { return t == 0 ? "mkdir" : "symlink"; }
  static const char* causeName(int c) { return c == 0 ? "obstructed" : "missing-input"; }
  static const char* repairName(int r) { return r == 0 ? "plain" : "output-present"; }
  std::string specOf(const ToolSc& t) const {
    return std::string("kt|") + toolName(t.tool) + "|" + causeName(t.cause) + "|" + repairName(t.repair) + "|" + std::to_string(t.prior);
  }
  std::string toolYaml(const ToolSc& t) const {
    std::string out = t.tool == 0 ? "out" : "ld/lnk";
    std::string y = "client:\n  name: basic\ntargets:\n  \"all\": [\"o2\"]\ncommands:\n";
    y += "  \"T\":\n    tool: " + std::string(toolName(t.tool)) + "\n    inputs: " + (t.cause == 1 ? "[\"stamp\"]" : "[]") + "\n    outputs: [" + yq(out) + "]\n";
    if (t.tool == 1) y += "    contents: \"../s1\"\n";
    Strs a{gVcmd, "cat", "USE", "o2", "--"};
    a.push_back(t.tool == 0 ? "s1" : "ld/lnk");
    y += "  \"USE\":\n    tool: shell\n    inputs: " + yqList(t.tool == 0 ? Strs{out, "s1"} : Strs{out}) + "\n    outputs: [\"o2\"]\n    args: " + yqList(a) + "\n";
    return y;
  }
  void makeOutputByHand(Sandbox& sb, const ToolSc& t) {
    if (t.tool == 0) { if (mkdir(sb.p("out").c_str(), 0755) != 0) fatal("mkdir out by hand"); }
    else {
      mkdir(sb.p("ld").c_str(), 0755);
      if (symlink("../s1", sb.p("ld/lnk").c_str()) != 0) fatal("symlink by hand");
    }
  }
  void runTool(const ToolSc& t) {
    const std::string spec = specOf(t);
    const std::string what = std::string(toolName(t.tool)) + " command T feeding shell command USE [keep-going, 1 lane] cause=" + causeName(t.cause) + " repair=" + repairName(t.repair) +
                             " prior=" + std::to_string(t.prior);
    Sandbox sb;
    sb.create(gScratch + "/" + std::to_string(++sandboxNo));
    if (chdir(sb.root.c_str()) != 0) fatal("chdir sandbox");
    sb.write("s1", "s1:0");
    sb.rawWrite("build.llbuild", toolYaml(t));
    res.count("evaluations");
    res.count("tool_scenarios");
    const std::string outPath = t.tool == 0 ? "out" : "ld/lnk";
    // reference: what a clean build of this description leaves in o2 (own sandbox, no database)
    std::string want;
    {
      Sandbox ref;
      ref.create(gScratch + "/" + std::to_string(++sandboxNo));
      if (chdir(ref.root.c_str()) != 0) fatal("chdir sandbox");
      ref.write("s1", "s1:0");
      if (t.cause == 1) ref.write("stamp", "stamp");
      ref.rawWrite("build.llbuild", toolYaml(t));
      BuildObs o = runBuild(ref, 1, false);
      if (!o.ok) fatal(what + ": the reference clean build failed\n" + o.output);
      want = ref.observe("o2");
      if (chdir(sb.root.c_str()) != 0) fatal("chdir sandbox");
      ref.destroy();
    }
    auto show = [&](const char* label, const BuildObs& o) {
      if (verbose) printf("  %s: ok=%d failures=%u ran=[%s] started=[%s]\n%s", label, (int)o.ok, o.failures, join(o.ran, " ").c_str(), join(o.started, " ").c_str(), o.output.c_str());
    };
    if (t.prior) {
      if (t.cause == 1) sb.write("stamp", "stamp");
      BuildObs o = runBuild(sb, 1, true);
      show("prior build", o);
      if (!o.ok || sb.observe("o2") != want) fatal(what + ": the prior build failed\n" + o.output);
      if (t.cause == 0) { sb.remove(t.tool == 0 ? "out" : "ld"); }   // the obstruction replaces the output
      sb.remove("o2");
    }
    // the cause
    if (t.cause == 0) sb.write(t.tool == 0 ? "out" : "ld", "obstruction");
    else sb.remove("stamp");
    if (t.cause == 1 && t.prior == 0 && t.repair == 1) makeOutputByHand(sb, t);   // the output exists all along although T cannot succeed
    bool reached = false;
    for (int round = 1; round <= 2; ++round) {
      BuildObs o = runBuild(sb, 1, true);
      show(round == 1 ? "failing build" : "failing build again", o);
      if (!o.initialized) fatal(what + ": description did not load\n" + o.output);
      bool useRan = std::find(o.ran.begin(), o.ran.end(), "USE") != o.ran.end();
      if (useRan)
        res.violate("C10.kt-consumer-ran-after-tool-failure", what + ": USE executed in failing build #" + std::to_string(round) + " although T cannot succeed", spec);
      if (o.ok)
        res.violate(std::string("C10.kt-build-reported-success-although-tool-command-failed") + (round == 2 ? "-second-build" : ""),
                    what + ": failing build #" + std::to_string(round) + " reported success although T cannot succeed (" + causeName(t.cause) + "); ran [" + join(o.ran, " ") + "]", spec);
      else reached = true;
    }
    if (reached) res.count("distinct_nontrivial");
    // repair
    if (t.cause == 0) {
      sb.remove(t.tool == 0 ? "out" : "ld");
      if (t.repair == 1) makeOutputByHand(sb, t);
    } else {
      sb.write("stamp", "stamp");
      if (t.repair == 1 && !sb.exists(outPath)) makeOutputByHand(sb, t);
    }
    BuildObs o3 = runBuild(sb, 1, true);
    show("build after repair", o3);
    if (!o3.ok)
      res.violate("C10.kt-build-after-repair-failed", what + ": the build after the repair failed: " + o3.output, spec);
    else {
      std::string got = sb.observe("o2");
      if (got != want)
        res.violate(std::string("C10.kt-no-convergence-after-repair-") + (got == "<missing>" ? "missing-output" : "wrong-output"),
                    what + ": the build after the repair reported success but o2 is '" + got + "', a clean build leaves '" + want + "' (ran [" + join(o3.ran, " ") + "])", spec);
      else res.count("converged_after_repair");
      BuildObs o4 = runBuild(sb, 1, true);
      show("null build", o4);
      if (!o4.ok || !o4.ran.empty())
        res.violate("C10.kt-null-build-not-clean", what + ": the null build after convergence returned " + std::to_string((int)o4.ok) + " and ran [" + join(o4.ran, " ") + "]", spec);
    }
    if (chdir("/") != 0) {}
    sb.destroy();
  }
  static std::vector<ToolSc> toolScenarios() {
    std::vector<ToolSc> v;
    for (int tool = 0; tool < 2; ++tool)
      for (int cause = 0; cause < (tool == 0 ? 2 : 1); ++cause)
        for (int repair = 0; repair < 2; ++repair)
          for (int prior = 0; prior < 2; ++prior) v.push_back({tool, cause, repair, prior});
    return v;
  }

  // ---- C12 sessions: ONE BuildSystemFrontend runs a sequence of builds over a directory-tree input and a
  // directory-structure input that both carry content-exclusion-patterns ["*.tmp"]; between the builds one edit from a
  // small alphabet is made in BOTH directories.  T (tree input) must run iff a name the patterns do not hide was changed
  // in any way; S (structure input) iff a visible name was added / removed; hidden names never matter.
  //   edits: n nothing | h rewrite hidden sub/scratch.tmp | H add hidden top-level junk<k>.tmp | r remove the hidden file added last
  //          v rewrite visible sub/data.txt (other size) | V rewrite visible keep.txt | a add visible sub/new<k>.txt
  static std::vector<std::string> sessionAlphabetWords(int maxLen) {
    const std::string alpha = "nhHrvVa";
    std::vector<std::string> out, level{""};
    for (int l = 1; l <= maxLen; ++l) {
      std::vector<std::string> next;
      for (auto& w : level)
        for (char c : alpha) next.push_back(w + c);
      out.insert(out.end(), next.begin(), next.end());
      level.swap(next);
    }
    return out;
  }
  void runSession(const std::string& word) {
    const std::string spec = "ks|" + word;
    const std::string what = "one BuildSystemFrontend, builds separated by the edits '" + word + "' (tree/ and stree/ with content-exclusion-patterns [*.tmp])";
    Sandbox sb;
    sb.create(gScratch + "/" + std::to_string(++sandboxNo));
    if (chdir(sb.root.c_str()) != 0) fatal("chdir sandbox");
    sb.write("s1", "s1:0");
    for (const char* d : {"tree", "stree"}) {
      std::string D = d;
      if (mkdir(sb.p(D).c_str(), 0755) != 0 || mkdir(sb.p(D + "/sub").c_str(), 0755) != 0) fatal("mkdir tree");
      sb.write(D + "/keep.txt", "k0");
      sb.write(D + "/sub/data.txt", "d0");
      sb.write(D + "/sub/scratch.tmp", "t0");
    }
    std::string y = "client:\n  name: basic\ntargets:\n  \"all\": [\"o1\", \"o2\"]\nnodes:\n"
                    "  \"tree/\":\n    content-exclusion-patterns: [\"*.tmp\"]\n"
                    "  \"stree/\":\n    is-directory-structure: true\n    content-exclusion-patterns: [\"*.tmp\"]\ncommands:\n";
    y += "  \"T\":\n    tool: shell\n    inputs: [\"tree/\"]\n    outputs: [\"o1\"]\n    args: " + yqList({gVcmd, "cat", "T", "o1", "--", "s1"}) + "\n";
    y += "  \"S\":\n    tool: shell\n    inputs: [\"stree/\"]\n    outputs: [\"o2\"]\n    args: " + yqList({gVcmd, "cat", "S", "o2", "--", "s1"}) + "\n";
    sb.rawWrite("build.llbuild", y);
    res.count("evaluations");
    res.count("session_scenarios");
    {
      BuildObs o;
      llvm::SourceMgr sm;
      BuildSystemInvocation inv;
      inv.buildFilePath = "build.llbuild";
      inv.dbPath = "build.db";
      inv.useSerialBuild = true;
      inv.schedulerLanes = 1;
      inv.environment = kEnv;
      KGDelegate del(sm, o);
      BuildSystemFrontend fe(del, inv, createLocalFileSystem());
      auto build = [&](Strs& ran) {
        o.failures = 0; o.errors = 0; o.output.clear();
        sb.newExec();
        ++gBuilds;
        bool r = fe.build("all");
        ran = sb.newExec();
        return r && !o.failures && !o.errors;
      };
      Strs ran;
      if (!build(ran)) fatal(what + ": the first build failed\n" + o.output);
      std::sort(ran.begin(), ran.end());
      if (ran != Strs{"S", "T"}) fatal(what + ": the first build ran [" + join(ran, " ") + "]");
      int junk = 0, added = 0, ver = 0;
      std::vector<int> junkAlive;
      std::string done;
      bool nontrivial = false;
      for (char e : word) {
        done += e;
        bool wantT = false, wantS = false, applicable = true;
        ++ver;
        for (const char* d : {"tree", "stree"}) {
          std::string D = d;
          switch (e) {
          case 'n': break;
          case 'h': sb.write(D + "/sub/scratch.tmp", "t" + std::string((size_t)(ver % 7) + 1, 'x')); break;
          case 'H': sb.write(D + "/junk" + std::to_string(junk) + ".tmp", "j"); break;
          case 'r': if (junkAlive.empty()) applicable = false; else sb.remove(D + "/junk" + std::to_string(junkAlive.back()) + ".tmp"); break;
          case 'v': sb.write(D + "/sub/data.txt", "d" + std::string((size_t)(ver % 7) + 1, 'y')); wantT = true; break;
          case 'V': sb.write(D + "/keep.txt", "k" + std::string((size_t)(ver % 7) + 1, 'z')); wantT = true; break;
          case 'a': sb.write(D + "/sub/new" + std::to_string(added) + ".txt", "n"); wantT = true; wantS = true; break;
          }
        }
        if (e == 'H') junkAlive.push_back(junk++);
        if (e == 'r' && applicable) junkAlive.pop_back();
        if (e == 'a') ++added;
        if (!applicable) { res.count("session_words_not_applicable"); break; }
        if (!build(ran)) {
          res.violate("C12.ks-session-build-failed", what + ": the build after '" + done + "' failed: " + o.output.substr(0, 200), spec);
          break;
        }
        res.count("session_builds_judged");
        bool gotT = std::find(ran.begin(), ran.end(), "T") != ran.end(), gotS = std::find(ran.begin(), ran.end(), "S") != ran.end();
        if (verbose) printf("  after '%s': ran [%s] (want T=%d S=%d)\n", done.c_str(), join(ran, " ").c_str(), (int)wantT, (int)wantS);
        const char* kind = e == 'n' ? "nothing-changed" : (e == 'h' || e == 'H' || e == 'r') ? "only-hidden-names-changed" : e == 'a' ? "visible-name-added" : "visible-content-changed";
        if (gotT && !wantT) res.violate(std::string("C12.ks-tree-consumer-reran-") + kind, what + ": after '" + done + "' the consumer of the directory-tree input re-executed (ran [" + join(ran, " ") + "])", spec);
        if (gotS && !wantS) res.violate(std::string("C12.ks-structure-consumer-reran-") + kind, what + ": after '" + done + "' the consumer of the directory-structure input re-executed (ran [" + join(ran, " ") + "])", spec);
        if (!gotT && wantT) res.violate(std::string("C12.ks-tree-consumer-not-rerun-") + kind, what + ": after '" + done + "' the consumer of the directory-tree input did not re-execute", spec);
        if (!gotS && wantS) res.violate(std::string("C12.ks-structure-consumer-not-rerun-") + kind, what + ": after '" + done + "' the consumer of the directory-structure input did not re-execute", spec);
        if (wantT || wantS) nontrivial = true;
      }
      if (nontrivial) res.count("distinct_nontrivial");
    }
    if (chdir("/") != 0) {}
    sb.destroy();
  }

  struct Reuse { int desc; int fail; int kind; int slow; int lanes; int edit; long cancelAt; };
  std::string specOf(const Reuse& r) const {
    const Desc& d = descs[r.desc];
    return "ru|" + d.id + "|" + (r.fail < 0 ? "-" : d.cmds[r.fail].name) + "|" + kKinds[r.kind] + "|" + (r.slow < 0 ? "-" : d.cmds[r.slow].name) + "|" +
           std::to_string(r.lanes) + "|" + std::to_string(r.edit) + "|" + std::to_string(r.cancelAt);
  }
  // returns the number of status callbacks of the first build (so that the caller knows when to stop raising cancelAt)
  long runReuse(const Reuse& r) {
    const Desc& d = descs[r.desc];
    const std::string spec = specOf(r);
    const std::string what = d.id + " [" + std::to_string(r.lanes) + " lane(s), one frontend reused] first build" +
                             (r.fail >= 0 ? " with " + d.cmds[r.fail].name + " directed to " + kKinds[r.kind] : "") +
                             (r.slow >= 0 ? ", " + d.cmds[r.slow].name + " slowed down" : "") + ", cancelled from status callback #" + std::to_string(r.cancelAt) +
                             (r.edit ? ", then every source edited" : "");
    const std::string y = yaml(d, F_NONE, {});
    crossCheck(d, y);
    Sandbox sb;
    sb.create(gScratch + "/" + std::to_string(++sandboxNo));
    if (chdir(sb.root.c_str()) != 0) fatal("chdir sandbox");
    std::map<std::string, std::string> src{{"s1", "s1:0"}, {"s2", "s2:0"}};
    for (auto& kv : src) sb.write(kv.first, kv.second);
    sb.rawWrite("build.llbuild", y);
    res.count("evaluations");
    res.count("reuse_scenarios");
    long firstCallbacks = 0;
    {
      BuildObs o1;
      llvm::SourceMgr sm;
      BuildSystemInvocation inv;
      inv.buildFilePath = "build.llbuild";
      inv.dbPath = "build.db";
      inv.useSerialBuild = r.lanes == 1;
      inv.schedulerLanes = (uint32_t)r.lanes;
      inv.environment = kEnv;
      BuildObs* cur = &o1;
      KGDelegate del(sm, *cur);
      BuildSystemFrontend fe(del, inv, createLocalFileSystem());
      std::map<std::string, std::string> ctl;
      if (r.fail >= 0) ctl[d.cmds[r.fail].name] = kCtlWord[r.kind];
      if (r.slow >= 0) ctl[d.cmds[r.slow].name] = "delay 150";
      sb.setCtl(ctl);
      del.cancelAt = r.cancelAt;
      sb.newExec();
      ++gBuilds;
      bool r1 = fe.build("all");
      o1.ran = sb.newExec();
      firstCallbacks = del.callbacks;
      bool cancelled = del.cancelIssued;
      if (cancelled) res.count("reuse_first_builds_cancelled");
      if (cancelled && r1)
        res.violate(gProp + ".ru-cancelled-build-reported-success", what + ": the cancelled build returned success (ran: " + join(o1.ran, " ") + ")", spec);
      if (verbose) printf("%s\n  B1: returned %d, %ld callbacks, cancelled=%d, ran [%s]\n%s", what.c_str(), (int)r1, firstCallbacks, (int)cancelled, join(o1.ran, " ").c_str(), o1.output.c_str());
      // repair, optional edit
      sb.setCtl({});
      if (r.edit) for (auto& kv : src) { kv.second = kv.first + ":1"; sb.write(kv.first, kv.second); }
      Reference ref{d, src, {}};
      auto want = ref.outputs();
      // B2 on the SAME frontend
      del.cancelAt = 0; del.callbacks = 0; del.cancelIssued = false;
      o1.failures = 0; o1.errors = 0; o1.output.clear();
      ++gBuilds;
      bool r2 = fe.build("all");
      Strs ran2 = sb.newExec();
      if (verbose) printf("  B2: returned %d, ran [%s]\n%s", (int)r2, join(ran2, " ").c_str(), o1.output.c_str());
      res.count("reuse_later_builds");
      if (!r2 || o1.failures || o1.errors)
        res.violate(gProp + ".ru-later-build-failed", what + ": the next build on the same frontend, cause removed, failed (returned " + std::to_string(r2) + ", " +
                        std::to_string(o1.failures) + " command failures; ran: " + join(ran2, " ") + ") " + o1.output.substr(0, 200), spec);
      else
        for (auto& kv : want) {
          std::string got = sb.observe(kv.first);
          if (got != kv.second) {
            res.violate(gProp + ".ru-later-build-" + (got == "<missing>" ? "missing-output" : "stale-output"),
                        what + ": after the next (successful) build on the same frontend output " + kv.first + " is '" + got + "', a clean build gives '" + kv.second +
                            "' (ran: " + join(ran2, " ") + ")", spec);
            break;
          }
        }
      // B3: nothing changed
      o1.failures = 0; o1.errors = 0; o1.output.clear();
      ++gBuilds;
      bool r3 = fe.build("all");
      Strs ran3 = sb.newExec();
      res.count("reuse_later_builds");
      if (verbose) printf("  B3: returned %d, ran [%s]\n", (int)r3, join(ran3, " ").c_str());
      if (r2 && !o1.failures && (!r3 || !ran3.empty()))
        res.violate(gProp + ".ru-null-build-not-clean", what + ": a third build with no change returned " + std::to_string(r3) + " and ran [" + join(ran3, " ") + "]", spec);
    }
    if (chdir("/") != 0) {}
    sb.destroy();
    return firstCallbacks;
  }

  // the reference evaluator against a REAL clean build (no database, empty output tree), once per description text
  void crossCheck(const Desc& d, const std::string& y) {
    if (!crossChecked.insert(y).second) return;
    Sandbox cs;
    cs.create(gScratch + "/clean");
    if (chdir(cs.root.c_str()) != 0) fatal("chdir clean sandbox");
    std::map<std::string, std::string> src{{"s1", "s1:0"}, {"s2", "s2:0"}};
    for (auto& kv : src) cs.write(kv.first, kv.second);
    cs.rawWrite("build.llbuild", y);
    BuildObs o = runBuild(cs, 1, false);
    sanity(o, "clean build of " + d.id);
    if (!o.ok) fatal("reference/clean-build disagreement: clean build of " + d.id + " failed\n" + y + o.output);
    if (toSet(d, o.ran, "clean build").size() != d.shell.size() || o.ran.size() != d.shell.size())
      fatal("clean build of " + d.id + " executed [" + join(o.ran, " ") + "]");
    Reference ref{d, src, {}};
    for (auto& kv : ref.outputs()) {
      std::string got = cs.observe(kv.first);
      if (got != kv.second)
        fatal("reference/clean-build disagreement: " + d.id + " output " + kv.first + ": reference '" + kv.second + "', clean build '" + got + "'");
    }
    res.count("clean_build_crosschecks");
    if (chdir("/") != 0) {}
    cs.destroy();
  }

  void run(const Item& it) {
    const Desc& d = descs[it.desc];
    const std::string flagName = kFlagName[it.flag], kind = kKinds[it.kind];
    const std::string tail = flagName + "-" + kind;
    const std::string spec = specOf(it);
    ISet F, shell(d.shell.begin(), d.shell.end());
    for (size_t j = 0; j < d.shell.size(); ++j)
      if (it.mask >> j & 1) F.insert(d.shell[j]);
    const std::string what = d.id + " [" + std::to_string(it.lanes) + (it.lanes == 1 ? " lane" : " lanes") + ", keep-going] fail={" + join(names(d, F), ",") +
                             "} flag=" + flagName + " kind=" + kind + (it.prior ? " after a successful build and an edit of every source" : "");
    const ISet flagged = flagAll(it.flag) ? shell : F;
    const std::string y = yaml(d, it.flag, flagged);
    crossCheck(d, y);

    Sandbox sb;
    sb.create(gScratch + "/" + std::to_string(++sandboxNo));
    if (chdir(sb.root.c_str()) != 0) fatal("chdir sandbox");
    std::map<std::string, std::string> src{{"s1", "s1:0"}, {"s2", "s2:0"}};
    for (auto& kv : src) sb.write(kv.first, kv.second);
    sb.rawWrite("build.llbuild", y);
    if (verbose) printf("%s\n--- build.llbuild ---\n%s---\n", what.c_str(), y.c_str());
    res.count("evaluations");
    const long long violationsBefore = res.counters["violations_raw"];

    if (it.prior) {
      BuildObs p = runBuild(sb, it.lanes, true);
      sanity(p, what + ": prior build");
      show("prior build:", p, sb, d);
      if (!p.ok || p.ran.size() != d.shell.size()) fatal(what + ": the prior clean build failed or did not run everything\n" + p.output);
      for (auto& kv : src) { kv.second = kv.first + ":1"; sb.write(kv.first, kv.second); }
      // An allow-modified-outputs command with a recorded SUCCESS whose outputs exist is by design "updated" without being
      // executed (known C08 finding), so it could not be made to fail: remove its outputs so that it has to run.
      if (flagBase(it.flag) == F_AMO)
        for (int c : flagged)
          for (auto& o : d.cmds[c].outs)
            if (!isVirtual(o)) sb.remove(o);
    }
    Reference ref{d, src, {}};
    auto want = ref.outputs();

    std::map<std::string, std::string> ctl;
    for (int c : F) ctl[d.cmds[c].name] = kCtlWord[it.kind];
    sb.setCtl(ctl);

    // model of the first failing build (documented behaviour, gates do not propagate): for a sanity counter only
    ISet modelBlocked = d.consumers(F, true);
    ISet modelExec = minus(shell, modelBlocked);

    ISet failedLast;     // commands whose most recent execution failed
    ISet ranWhileFailing;  // commands that executed (successfully) in B1/B2
    bool nontrivial = false;
    ISet attempted1;
    BuildObs obs[4];

    for (int b = 0; b < 2; ++b) {  // B1 and B2: the cause is present
      const char* label = b == 0 ? "failing build" : "second failing build (nothing changed)";
      std::map<int, int> outState;  // 1 = all file outputs present, 0 = none, 2 = no file outputs, 3 = mixed
      if (b == 1)
        for (int c : failedLast) {
          int have = 0, total = 0;
          for (auto& o : d.cmds[c].outs)
            if (!isVirtual(o)) { ++total; have += sb.exists(o); }
          outState[c] = total == 0 ? 2 : have == total ? 1 : have == 0 ? 0 : 3;
        }
      BuildObs& o = obs[b] = runBuild(sb, it.lanes, true);
      sanity(o, what + ": " + label);
      show(b == 0 ? "B1 failing build:" : "B2 failing build again:", o, sb, d);
      ISet exec = toSet(d, o.ran, what);
      if (exec.size() != o.ran.size())
        res.violate("C10.kg-other-command-executed-twice-in-one-build", what + ": " + label + " executed [" + join(o.ran, " ") + "]", spec);
      ISet attempted = inter(exec, F);
      if (b == 0) {
        attempted1 = attempted;
        nontrivial = !attempted.empty();
        if (exec != modelExec) res.count("first_failing_builds_whose_execution_set_differs_from_the_model");
      }
      res.count("failing_builds_judged");
      // -- retried?
      if (b == 1) {
        ISet notRetried = minus(failedLast, exec);
        for (int c : failedLast) {
          if (!exec.count(c)) continue;
          res.count("retries_observed");
          res.count(outState[c] == 1 ? "retries_observed_with_all_outputs_on_disk" : outState[c] == 0 ? "retries_observed_with_outputs_absent" : "retries_observed_of_commands_without_file_outputs");
        }
        if (!notRetried.empty())
          res.violate("C10.kg-failed-command-not-retried-" + tail,
                      what + ": " + join(names(d, notRetried), ",") + " failed in the first build; the next build (same database, cause still present) did not re-attempt " +
                          "it (executed: [" + join(o.ran, " ") + "], reported " + (o.ok ? "success" : "failure") + ")", spec);
      }
      // a command that failed and was not re-attempted is still a failed command
      ISet failedNow = uni(attempted, minus(failedLast, exec));
      // -- reports failure?
      if (!failedNow.empty() && o.ok)
        res.violate("C10.kg-build-reported-success-" + tail,
                    what + ": the " + label + " reported success (command failures counted: " + std::to_string(o.failures) + ") although " +
                        join(names(d, failedNow), ",") + (attempted.empty() ? " is recorded as failed and the cause is still present" : " failed"), spec);
      if (!attempted.empty() && o.failures == 0) res.count("failing_builds_with_zero_counted_failures");
      // -- consumers
      ISet blocked = inter(d.consumers(failedNow, false), shell);
      ISet leaked = inter(blocked, exec);
      // (members of F that are downstream of another failed command count as consumers too)
      ISet real = inter(leaked, d.consumers(failedNow, true));
      ISet gated = minus(leaked, real);
      if (!real.empty())
        res.violate("C10.kg-consumer-ran-after-failure-" + tail,
                    what + ": in the " + label + " " + join(names(d, failedNow), ",") + " failed" + (attempted.empty() ? " (recorded, not re-attempted)" : "") +
                        ", yet its consumer(s) " + join(names(d, real), ",") + " executed (executed: [" + join(o.ran, " ") + "])", spec);
      if (!gated.empty()) {
        res.count("consumers_executed_behind_a_phony_virtual_gate", (long long)gated.size());
        res.violate("C10.kg-consumer-ran-behind-phony-virtual-gate",
                    what + ": in the " + label + " " + join(names(d, failedNow), ",") + " failed, yet " + join(names(d, gated), ",") +
                        ", which consumes it only through the virtual output of a phony command, executed (executed: [" + join(o.ran, " ") +
                        "]); documented exception in PhonyCommand::getResultForOutput", spec);
      }
      res.count("consumers_held_back", (long long)minus(blocked, exec).size());
      // -- keep-going really happened?
      ISet related = uni(uni(failedNow, d.consumers(failedNow, false)), d.producersOf(failedNow));
      ISet indep = minus(exec, related);
      if (!indep.empty() && !attempted.empty()) {
        res.count("failing_builds_with_independent_commands_executed");
        res.count("independent_command_executions_in_failing_builds", (long long)indep.size());
      }
      if (!attempted.empty()) {
        if (attempted.size() > 1) res.count("failing_builds_with_several_failed_commands");
      }
      failedLast = failedNow;
      ranWhileFailing = uni(ranWhileFailing, minus(exec, attempted));
    }
    if (nontrivial) res.count("distinct_nontrivial");

    // ---- repair, B3
    sb.setCtl({});
    {
      BuildObs& o = obs[2] = runBuild(sb, it.lanes, true);
      sanity(o, what + ": build after repair");
      show("B3 build after repair:", o, sb, d);
      ISet exec = toSet(d, o.ran, what);
      if (!o.ok)
        res.violate("C10.kg-build-after-repair-failed-" + tail,
                    what + ": the cause was removed but the next build reports failure (failures=" + std::to_string(o.failures) + ", executed [" + join(o.ran, " ") + "])", spec);
      ISet notRerun = minus(failedLast, exec);
      res.count("reruns_of_failed_commands_after_repair_observed", (long long)inter(failedLast, exec).size());
      if (!notRerun.empty())
        res.violate("C10.kg-failed-command-not-rerun-after-repair-" + tail,
                    what + ": after the repair the next build did not re-execute " + join(names(d, notRerun), ",") + ", whose last execution failed (executed: [" +
                        join(o.ran, " ") + "])", spec);
      // downstream commands that have not executed since the failure (those that wrongly did are reported above and are up to date by now)
      ISet down = minus(minus(inter(d.consumers(failedLast, false), shell), failedLast), ranWhileFailing);
      ISet downMissing = minus(down, exec);
      res.count("downstream_runs_after_repair_observed", (long long)inter(down, exec).size());
      if (!downMissing.empty())
        res.violate("C10.kg-downstream-not-rerun-after-repair-" + tail,
                    what + ": after the repair the next build did not execute the downstream command(s) " + join(names(d, downMissing), ",") + " (executed: [" +
                        join(o.ran, " ") + "])", spec);
      Strs wrong;
      for (auto& kv : want) {
        std::string got = sb.observe(kv.first);
        if (got != kv.second) wrong.push_back(kv.first + " is '" + got + "', a clean build gives '" + kv.second + "'");
      }
      if (!wrong.empty())
        res.violate("C10.kg-no-convergence-after-repair-" + tail, what + ": after the repair build: " + wrong[0], spec);
      else if (o.ok)
        res.count("converged_after_repair");
    }
    // ---- B4 null build
    {
      BuildObs& o = obs[3] = runBuild(sb, it.lanes, true);
      sanity(o, what + ": null build");
      show("B4 null build:", o, sb, d);
      if (!o.ran.empty())
        res.violate("C10.kg-null-build-ran-commands-" + tail, what + ": the build after the converged one executed [" + join(o.ran, " ") + "]", spec);
      else if (!o.ok)
        res.violate("C10.kg-null-build-reported-failure-" + tail, what + ": the null build after the repair reports failure", spec);
      else
        res.count("null_builds_running_nothing");
    }

    // ---- samples: the first scenario of a few shapes
    std::string shape;
    ISet indep1 = minus(toSet(d, obs[0].ran, what), uni(uni(attempted1, d.consumers(attempted1, false)), d.producersOf(attempted1)));
    if (!indep1.empty() && flagBase(it.flag) == F_AMO && it.kind == 1) shape = "amo-fail-after-with-independent-work";
    else if (!indep1.empty()) shape = "independent-work";
    else if (flagBase(it.flag) == F_AMO && it.kind == 1) shape = "amo-fail-after";
    else if (it.prior) shape = "prior";
    else if (it.lanes > 1) shape = "parallel";
    else shape = "plain";
    if (res.counters["violations_raw"] == violationsBefore && sampleKinds.insert(shape).second) {
      std::string s = "{\"spec\": " + vj::q(spec) + ", \"description\": " + vj::q(d.id) + ", \"failing\": " + jsonList(names(d, F)) + ", \"flag\": " + vj::q(flagName) +
                      ", \"kind\": " + vj::q(kind) + ", \"lanes\": " + std::to_string(it.lanes) + ", \"prior_successful_build\": " + (it.prior ? "true" : "false");
      const char* bn[] = {"failing_build", "failing_build_again", "build_after_repair", "null_build"};
      for (int b = 0; b < 4; ++b)
        s += std::string(", \"") + bn[b] + "\": {\"executed\": " + jsonList(obs[b].ran) + ", \"reported_success\": " + (obs[b].ok ? "true" : "false") +
             ", \"command_failures\": " + std::to_string(obs[b].failures) + "}";
      s += "}";
      res.sample(s, 6);
    }

    if (chdir("/") != 0) {}
    sb.destroy();
  }
};

unsigned popcount(unsigned m) { unsigned n = 0; for (; m; m &= m - 1) ++n; return n; }

}  // namespace

int main(int argc, char** argv) {
  vj::Args args;
  args.parse(argc, argv);
  if (args.prop != "C10" && args.prop != "C05" && args.prop != "C12") { fprintf(stderr, "kgx: only --prop C10, C05 or C12\n"); return 2; }
  if (args.nshards < 1 || args.shard < 0 || args.shard >= args.nshards) { fprintf(stderr, "kgx: bad shard\n"); return 2; }

  // the helper command
  {
    Strs cand;
    if (const char* e = getenv("VERIF_WORLDX_BIN")) cand.push_back(std::string(e) + "/vcmd");
    cand.push_back("/verif/build/harness/worldx/vcmd");
    std::string self = argv[0];
    size_t sl = self.rfind('/');
    cand.push_back((sl == std::string::npos ? std::string(".") : self.substr(0, sl)) + "/vcmd");
    for (auto& c : cand)
      if (access(c.c_str(), X_OK) == 0) { gVcmd = c; break; }
    if (gVcmd.empty()) { fprintf(stderr, "kgx: vcmd not found (make -C /verif/harness/worldx)\n"); return 2; }
    if (gVcmd[0] != '/') {
      char cwd[4096];
      if (getcwd(cwd, sizeof cwd)) gVcmd = std::string(cwd) + "/" + gVcmd;
    }
  }
  unsetenv("VCMD_CTL");

  gScratch = "/dev/shm/verif-kgx-" + std::to_string((long)getpid());
  wipe(gScratch, true);
  if (mkdir(gScratch.c_str(), 0755) != 0) { perror("kgx: mkdir scratch"); return 2; }

  vj::Result res;
  auto descs = descriptions();
  Judge J{res, descs};
  const bool thorough = args.thorough();

  res.assumptions = {
      "C10 keep-going: the client is a BuildSystemFrontendDelegate whose hadCommandFailure() counts and does not cancel (SwiftPM / C API style); every build is a new "
      "BuildSystemFrontend on the same SQLite file; 1 lane = useSerialBuild (one lane of the lane based queue), otherwise schedulerLanes lanes",
      "C10 keep-going: 'fails' = vcmd directed through the control file: fail-before exits 1 before writing anything, fail-after writes ALL outputs completely and then exits 1, "
      "kill-after writes all outputs and then raises SIGKILL on itself (kill-before: before writing; both are recorded as CancelledCommand results), term-after writes all outputs and then dies of SIGTERM (a fatal signal that is not an interrupt: a failed command); the flag "
      "(allow-modified-outputs / allow-missing-inputs) is put on every command of the failing subset, in the -on-all variants on every shell command (consumers included)",
      "C10 keep-going: 'the build reports failure' = BuildSystemFrontend::build() returns false; 'executed' = the command's process started (line in vcmd's exec.log); "
      "a command whose recorded result is a failure and which the next build does not re-attempt still counts as failed in that build (its consumers must not run, the build must not report success)",
      "C10 keep-going: a consumer reachable from the failed command ONLY through the virtual output of a phony command is reported under the separate class "
      "C10.kg-consumer-ran-behind-phony-virtual-gate (PhonyCommand::getResultForOutput deliberately does not propagate failure through virtual outputs)",
      "C10 keep-going: commands NOT related to a failed command are expected to execute in a failing build (that is what keep-going means) but the statement does not demand it: counted "
      "(failing_builds_with_independent_commands_executed), never a violation; likewise a successful command being re-run by the second failing build is not judged here",
      "C10 keep-going: prior=1 with allow-modified-outputs: the file outputs of the flagged commands are deleted before the failing build, because such a command with a recorded success and "
      "existing outputs is by design never executed again (known C08 finding) and could not fail",
      "C10 keep-going: reference contents = TAG(contents of the non-virtual inputs, comma separated), a directory output reads {f=payload}; cross-checked against a real clean build "
      "(no database) once per distinct description text per process; a disagreement is a harness error (exit 3)",
      "C10 keep-going: not covered here: cancellation (SIGINT) - worldx C10i; failures by missing undeclared input / unwritable output - worldx; mixed failure kinds inside one subset; "
      "failing builds at a later index than the second build of the history"};

  // ------------------------------------------------------------ C12: sessions of one frontend over filtered directory inputs
  if (args.prop == "C12") {
    res.assumptions = {
        "C12 sessions: a long-lived client - ONE BuildSystemFrontend (engine, rules, file system object) serves every build of a session on one SQLite database; one lane",
        "C12 sessions: both directory inputs carry content-exclusion-patterns [\"*.tmp\"]; edits are made with the logical clock of harness/worldx (distinct mtimes), rewrites change the size; "
        "'re-executed' = the consumer's process started (vcmd exec.log)",
        "C12 sessions: expectation per build - the tree consumer runs iff a name the patterns do not hide was rewritten or added since the previous build, the structure consumer iff a visible name "
        "was added; hidden names (rewritten, added at the top, removed) and no edit at all re-run nothing"};
    if (!args.replaySpec.empty()) {
      std::string s = args.replaySpec;
      size_t hash = s.find(" #");
      if (hash != std::string::npos) s = s.substr(0, hash);
      if (s.compare(0, 3, "ks|") != 0) { fprintf(stderr, "kgx: bad replay spec '%s'\n", args.replaySpec.c_str()); wipe(gScratch, true); return 3; }
      J.verbose = true;
      J.runSession(s.substr(3));
      for (auto& v : res.violations) printf("VIOLATION %s: %s\n", v.cls.c_str(), v.what.c_str());
      if (res.violations.empty()) printf("no violation\n");
      wipe(gScratch, true);
      res.write(args.out);
      return res.violations.empty() ? 0 : 1;
    }
    auto words = Judge::sessionAlphabetWords(thorough ? 5 : 4);
    if (args.shard == 0) res.counters["work_items_total"] = (long long)words.size();
    for (size_t i = 0; i < words.size(); ++i) {
      if ((int)(i % (size_t)args.nshards) != args.shard) continue;
      if (args.overBudget()) { res.exhaustive = false; res.count("work_items_skipped_budget"); continue; }
      J.runSession(words[i]);
    }
    res.count("builds", gBuilds);
    res.strings["rule"] = std::string("session = a word of <= ") + (thorough ? "5" : "4") + " edits over {n nothing, h rewrite a hidden file two levels down, H add a hidden file at the top, r remove it again, "
        "v rewrite a visible file two levels down, V rewrite a visible top-level file, a add a visible file}: first build, then one build after every edit, all by ONE BuildSystemFrontend; every word is "
        "enumerated (7 + 49 + 343 + 2401" + (thorough ? " + 16807" : "") + "); evaluations = sessions, distinct_nontrivial = sessions in which at least one build had to re-run a consumer";
    if (chdir("/") != 0) {}
    wipe(gScratch, true);
    if (!res.write(args.out)) { fprintf(stderr, "kgx: cannot write %s\n", args.out.c_str()); return 2; }
    return res.violations.empty() ? 0 : 1;
  }

  // ------------------------------------------------------------ C05: reuse scenarios
  if (args.prop == "C05" || args.extra == "reuse") {
    gProp = args.prop;
    auto cmdIndex = [&](const Desc& d, const std::string& n) { return n == "-" ? -1 : d.byName(n); };
    if (!args.replaySpec.empty()) {
      Strs f = split(args.replaySpec, '|');
      Judge::Reuse r{-1, -1, 0, -1, 1, 0, 0};
      bool ok = f.size() == 8 && f[0] == "ru";
      if (ok) {
        for (size_t i = 0; i < descs.size(); ++i) if (descs[i].id == f[1]) r.desc = (int)i;
        ok = r.desc >= 0;
      }
      if (ok) {
        r.fail = cmdIndex(descs[r.desc], f[2]);
        r.kind = -1;
        for (int i = 0; i < kNumKinds; ++i) if (f[3] == kKinds[i]) r.kind = i;
        r.slow = cmdIndex(descs[r.desc], f[4]);
        r.lanes = atoi(f[5].c_str());
        r.edit = atoi(f[6].c_str());
        r.cancelAt = atol(f[7].c_str());
        ok = r.kind >= 0 && r.lanes >= 1 && r.lanes <= 16;
      }
      if (!ok) { fprintf(stderr, "kgx: bad replay spec '%s'\n", args.replaySpec.c_str()); wipe(gScratch, true); return 3; }
      J.verbose = true;
      J.runReuse(r);
      res.count("builds", gBuilds);
      for (auto& v : res.violations) printf("VIOLATION %s: %s\n", v.cls.c_str(), v.what.c_str());
      if (res.violations.empty()) printf("no violation\n");
      wipe(gScratch, true);
      res.write(args.out);
      return res.violations.empty() ? 0 : 1;
    }
    struct Base { int desc, fail, kind, slow, lanes, edit; };
    std::vector<Base> bases;
    for (int lanes : {1, 4})
      for (size_t di = 0; di < descs.size(); ++di) {
        const Desc& d = descs[di];
        if (!thorough && !d.quick) continue;
        bool slowDesc = lanes > 1 && (thorough || d.id == "share" || d.id == "diamond");
        std::vector<std::pair<int, int>> fails{{-1, 0}};
        for (int c : d.shell) { fails.push_back({c, 0}); fails.push_back({c, 1}); }
        for (auto& fk : fails) {
          std::vector<int> slows{-1};
          if (slowDesc) for (int c : d.shell) if (c != fk.first) slows.push_back(c);
          for (int slow : slows)
            for (int edit = 0; edit < 2; ++edit) bases.push_back({(int)di, fk.first, fk.second, slow, lanes, edit});
        }
      }
    if (args.shard == 0) res.counters["work_items_total"] = (long long)bases.size();
    for (size_t i = 0; i < bases.size(); ++i) {
      if ((int)(i % (size_t)args.nshards) != args.shard) continue;
      if (args.overBudget()) { res.exhaustive = false; res.count("work_items_skipped_budget"); continue; }
      const Base& b = bases[i];
      // cancelAt 0 = the first build is not cancelled (it fails or succeeds by itself); its callback count bounds the loop
      long n = J.runReuse({b.desc, b.fail, b.kind, b.slow, b.lanes, b.edit, 0});
      res.maxOf("max_status_callbacks_per_build", n);
      for (long c = 1; c <= n; ++c) J.runReuse({b.desc, b.fail, b.kind, b.slow, b.lanes, b.edit, c});
      // cancellation from inside commandProcessStarted (once per description and lane count): in a forked child with
      // a watchdog, because a deadlock there leaves the lane thread stuck inside the queue for good
      if (b.fail < 0 && b.slow < 0 && b.edit == 0) {
        Judge::Reuse r{b.desc, -1, 0, -1, b.lanes, 0, -1};
        res.count("reuse_scenarios_cancel_inside_process_started");
        fflush(nullptr);
        pid_t pid = fork();
        if (pid == 0) {
          alarm(10);  // SIGALRM's default action ends the child
          vj::Result sub;
          Judge JJ{sub, descs};
          gScratch += "/ps" + std::to_string((long)getpid());
          mkdir(gScratch.c_str(), 0755);
          JJ.runReuse(r);
          wipe(gScratch, true);
          _exit(sub.violations.empty() ? 0 : 3);
        }
        int st = 0;
        waitpid(pid, &st, 0);
        if (WIFSIGNALED(st) && WTERMSIG(st) == SIGALRM)
          res.violate(gProp + ".ru-cancel-inside-process-started-callback-deadlocks",
                      descs[b.desc].id + " [" + std::to_string(b.lanes) + " lane(s)]: the delegate cancelled the build from inside commandProcessStarted(); 10 s later the build call had not returned "
                      "(the lane thread calls the callback while it holds the process group mutex that cancelAllJobs() takes)", J.specOf(r));
        else if (!WIFEXITED(st) || WEXITSTATUS(st) != 0)
          res.violate(gProp + ".ru-cancel-inside-process-started-callback-other", descs[b.desc].id + ": scenario child ended with status " + std::to_string(st), J.specOf(r));
      }
      res.count("work_items_done");
    }
    res.count("builds", gBuilds);
    res.counters["distinct_nontrivial"] = res.counters["reuse_first_builds_cancelled"];
    res.strings["rule"] =
        "reuse scenario = (description, directed failure {none, each shell command x fail-before/fail-after}, slowed-down command {none; each other command, 4 lanes, "
        "descriptions share and diamond" + std::string(thorough ? " and all others" : "") + "}, lanes {1, 4}, edit of every source {no, yes}, cancelAt): ONE BuildSystemFrontend runs a first build that is "
        "cancelled from inside its cancelAt-th status callback (commandPreparing, shouldCommandStart, commandStarted, commandFinished, hadCommandFailure; EVERY index up to the "
        "number of callbacks of the uncancelled build, and 0 = not cancelled), then - control file removed - a second build and a null build on the same frontend; "
        "evaluations = scenarios, distinct_nontrivial = scenarios whose first build really was cancelled";
    res.assumptions = {
        "reuse scenarios: the later builds are judged only by their results (exit status, contents of every output against the reference evaluator, null build runs nothing); where exactly "
        "the asynchronous cancellation lands in the first build is not asserted, so thread timing cannot cause an alarm",
        "reuse scenarios: with 4 lanes the order of status callbacks of independent commands is the kernel's; the callback INDEX at which the build is cancelled is enumerated exhaustively, "
        "the interleaving behind it is not (the slowed-down command keeps one command running for 150 ms so that the others settle first)",
        "reuse scenarios: keep-going delegate (a failure does not cancel by itself); the reference evaluator is cross-checked against a real clean build per description"};
    if (chdir("/") != 0) {}
    wipe(gScratch, true);
    if (!res.write(args.out)) { fprintf(stderr, "kgx: cannot write %s\n", args.out.c_str()); return 2; }
    return res.violations.empty() ? 0 : 1;
  }

  // ------------------------------------------------------------ replay
  if (!args.replaySpec.empty()) {
    std::string s = args.replaySpec;
    size_t hash = s.find(" #");
    if (hash != std::string::npos) s = s.substr(0, hash);
    Strs f = split(s, '|');
    if (f.size() == 5 && f[0] == "kt") {
      bool found = false;
      for (auto& t : Judge::toolScenarios())
        if (J.specOf(t) == s) { J.verbose = true; J.runTool(t); found = true; }
      if (!found) { fprintf(stderr, "kgx: bad replay spec '%s'\n", args.replaySpec.c_str()); wipe(gScratch, true); return 3; }
      res.count("builds", gBuilds);
      for (auto& v : res.violations) printf("VIOLATION %s: %s\n", v.cls.c_str(), v.what.c_str());
      if (res.violations.empty()) printf("no violation\n");
      wipe(gScratch, true);
      res.write(args.out);
      return res.violations.empty() ? 0 : 1;
    }
    Item it{-1, -1, 0, -1, 0, 0};
    bool ok = f.size() == 7 && f[0] == "kg";
    if (ok) {
      for (size_t i = 0; i < descs.size(); ++i) if (descs[i].id == f[1]) it.desc = (int)i;
      for (int i = 0; i < kNumFlags; ++i) if (f[2] == kFlagShort[i]) it.flag = i;
      for (int i = 0; i < kNumKinds; ++i) if (f[4] == kKinds[i]) it.kind = i;
      it.lanes = atoi(f[5].c_str());
      it.prior = atoi(f[6].c_str());
      ok = it.desc >= 0 && it.flag >= 0 && it.kind >= 0 && it.lanes >= 1 && it.lanes <= 16 && (it.prior == 0 || it.prior == 1);
      if (ok)
        for (auto& n : split(f[3], '+')) {
          bool found = false;
          for (size_t j = 0; j < descs[it.desc].shell.size(); ++j)
            if (descs[it.desc].cmds[descs[it.desc].shell[j]].name == n) { it.mask |= 1u << j; found = true; }
          ok = ok && found;
        }
      ok = ok && it.mask != 0;
    }
    if (!ok) { fprintf(stderr, "kgx: bad replay spec '%s'\n", args.replaySpec.c_str()); wipe(gScratch, true); return 3; }
    J.verbose = true;
    J.run(it);
    res.count("builds", gBuilds);
    for (auto& v : res.violations) printf("VIOLATION %s: %s\n", v.cls.c_str(), v.what.c_str());
    if (res.violations.empty()) printf("no violation\n");
    wipe(gScratch, true);
    res.write(args.out);
    return res.violations.empty() ? 0 : 1;
  }

  // ------------------------------------------------------------ work list, simplest first
  std::vector<int> laneSet = thorough ? std::vector<int>{1, 2, 3, 4} : std::vector<int>{1, 4};
  std::vector<int> priorSet{0, 1};
  const int nkinds = thorough ? 5 : 4;
  unsigned maxSize = thorough ? 4 : 2;
  std::vector<Item> items;
  size_t ndesc = 0;
  for (auto& d : descs) ndesc += (thorough || d.quick);
  for (unsigned size = 1; size <= maxSize; ++size)
    for (int prior : priorSet)
      for (int lanes : laneSet)
        for (size_t di = 0; di < descs.size(); ++di) {
          const Desc& d = descs[di];
          if (!thorough && !d.quick) continue;
          for (unsigned mask = 1; mask < (1u << d.shell.size()); ++mask) {
            if (popcount(mask) != size) continue;
            for (int flag = 0; flag < kNumFlags; ++flag) {
              // with every shell command failing, "-on-all" is the same description as the plain flag: enumerate it once
              if (flagAll(flag) && mask == (1u << d.shell.size()) - 1) continue;
              for (int kind = 0; kind < nkinds; ++kind) items.push_back({(int)di, flag, mask, kind, lanes, prior});
            }
          }
        }
  if (args.shard == 0) res.counters["work_items_total"] = (long long)items.size();
  std::vector<size_t> mine;
  for (size_t i = 0; i < items.size(); ++i)
    if ((int)(i % (size_t)args.nshards) == args.shard) mine.push_back(i);
  // --seed only rotates the order in which this shard walks its items
  if (!mine.empty() && args.seed) {
    size_t r = (size_t)(((args.seed % (long long)mine.size()) + (long long)mine.size()) % (long long)mine.size());
    std::rotate(mine.begin(), mine.begin() + r, mine.end());
  }
  {
    auto ts = Judge::toolScenarios();
    for (size_t i = 0; i < ts.size(); ++i)
      if ((int)(i % (size_t)args.nshards) == args.shard) J.runTool(ts[i]);
  }
  for (size_t idx : mine) {
    if (args.overBudget()) { res.exhaustive = false; res.count("work_items_skipped_budget"); continue; }
    J.run(items[idx]);
    res.count("work_items_done");
  }
  res.count("builds", gBuilds);

  res.strings["rule"] =
      std::string("scenario = (description, flag, failing subset F, kind, lanes, prior) -> history [prior build + edit of every source], failing build, failing build again, repair, "
                  "build, null build on one SQLite database, every build a new BuildSystemFrontend with a keep-going delegate. Space (") +
      args.tier + "): " + std::to_string(ndesc) + " descriptions with <= 4 shell commands {chain, diamond, two independent sub-graphs sharing a source, two-output command, virtual-node edge, "
      "phony virtual gate" + (thorough ? ", produced directory, three producers joined, virtual-only outputs, trailing phony aggregate" : "") +
      "} x flag {none, allow-modified-outputs, allow-missing-inputs on the failing commands, the same two on EVERY shell command} x EVERY non-empty subset of shell commands" +
      (thorough ? "" : " of size 1 and 2") + " directed to fail x kind {fail-before, fail-after, kill-after, term-after" + (thorough ? ", kill-before" : "") + "} x lanes " +
      (thorough ? "{1, 2, 3, 4}" : "{1, 4}") + " x prior successful build {no, yes}" +
      ". Tool scenarios: a mkdir / symlink command T feeding a shell command, T failing because its path is occupied by a file (mkdir), the parent of the link is a file (symlink) or a "
      "declared input of the mkdir is missing x repair {cause removed, cause removed AND the tool's output made by hand so that it exists beside a recorded failure} x prior successful build {no, yes}: "
      "two failing builds must report failure and not run the consumer, the build after the repair must reach the clean-build output, the null build must run nothing"
      ". evaluations = scenarios run; every tuple is enumerated once so each is distinct; distinct_nontrivial = scenarios in whose first failing build at least one directed command "
      "was really executed and failed (measured from exec.log)";

  if (chdir("/") != 0) {}
  wipe(gScratch, true);
  if (!res.write(args.out)) { fprintf(stderr, "kgx: cannot write %s\n", args.out.c_str()); return 2; }
  return res.violations.empty() ? 0 : 1;
}

// Free-running stand-in for the schedx scheduler: no interposition, no serialisation.
#include "../schedx/sched.h"
#include <sched.h>
namespace sx {
void (*onFatal)(Status, const std::string&) = nullptr;
static std::vector<Point> g_empty;
void begin(const std::vector<int>&, int) {}
Status end() { return OK; }
const std::vector<Point>& trace() { return g_empty; }
bool active() { return false; }
void yieldPoint() { sched_yield(); }
std::string describeThreads() { return ""; }
}

// tsanx: the schedx thread bodies, free-running under ThreadSanitizer.
//
// A serialising scheduler cannot see an unsynchronised access (its hand-offs
// are happens-before edges), so the same bodies are also run N times each
// without the scheduler in a ThreadSanitizer build.  This pass is SAMPLING and
// is labelled so in the evidence; it only supplements the exhaustive schedx
// exploration for the "no data races" clause of C06 / C16.
#include "../schedx/bodies.h"
#include "../common/json.h"

#include <cstring>
#include <fcntl.h>
#include <sstream>
#include <sys/stat.h>
#include <sys/wait.h>
#include <unistd.h>

static vj::Args args;

static std::string firstFrames(const std::string& report) {
  // "WARNING: ThreadSanitizer: data race" ... "#0 func file:line" -> take the first two llbuild frames
  std::stringstream ss(report);
  std::string line, kind, frames;
  int n = 0;
  while (std::getline(ss, line)) {
    auto w = line.find("WARNING: ThreadSanitizer: ");
    if (w != std::string::npos && kind.empty()) { kind = line.substr(w + 26); kind = kind.substr(0, kind.find(" (")); }
    auto h = line.find("#");
    if (h != std::string::npos && n < 2 && (line.find("llbuild") != std::string::npos || line.find("/repo/") != std::string::npos)) {
      std::string f = line.substr(h);
      auto sp = f.find(' ');
      f = sp == std::string::npos ? f : f.substr(sp + 1);
      auto cut = f.find(" /");
      if (cut != std::string::npos) {
        std::string loc = f.substr(cut + 1);
        auto slash = loc.rfind('/');
        loc = slash == std::string::npos ? loc : loc.substr(slash + 1);
        loc = loc.substr(0, loc.find(' '));
        f = f.substr(0, f.find('(')) + "@" + loc;
      }
      for (char& c : f) if (c == ' ') c = '_';
      frames += (n ? "+" : "") + f;
      ++n;
    }
  }
  for (char& c : kind) if (c == ' ') c = '-';
  return kind + ":" + frames;
}

int main(int argc, char** argv) {
  args.parse(argc, argv);
  vj::Result res;
  res.strings["rule"] =
      "SAMPLING (supplementary): each schedx thread body is executed N times free-running (sched_yield noise from the kernel only) in a "
      "ThreadSanitizer build of /repo; a case is one execution; distinct = bodies x distinct TSan report signatures (+1 for 'clean')";
  res.assumptions = {"sampling, not exhaustive: this pass only supplements the schedx exploration for the data-race clause",
                     "ThreadSanitizer's happens-before model; races hidden by timing in all N runs are missed"};
  res.exhaustive = false;
  int runs = args.thorough() ? 400 : 60;
  setenv("LLBUILD_TEST", "1", 1);
  std::string logDir = "/dev/shm/verif-tsanx-" + std::to_string(getpid());
  mkdir(logDir.c_str(), 0700);
  std::set<std::string> sigs;
  int item = 0;
  for (int b = 0; b < kNumBodies; ++b) {
    if (!strstr(kBodies[b].props, args.prop.c_str())) continue;
    for (int r = 0; r < runs; ++r, ++item) {
      if (item % args.nshards != args.shard) continue;
      if (args.overBudget()) break;
      std::string logPath = logDir + "/tsan";
      pid_t pid = fork();
      if (pid == 0) {
        setenv("TSAN_OPTIONS", ("exitcode=66 halt_on_error=1 log_path=" + logPath).c_str(), 1);
        // TSAN_OPTIONS is read at startup; re-exec self for one body run
        execl("/proc/self/exe", "tsanx", "--one", kBodies[b].name, (char*)nullptr);
        _exit(99);
      }
      int st = 0;
      waitpid(pid, &st, 0);
      res.count("evaluations");
      res.count("executions");
      int ec = WIFEXITED(st) ? WEXITSTATUS(st) : 128 + WTERMSIG(st);
      std::string report;
      {
        std::string cmd = "cat " + logPath + ".* 2>/dev/null; rm -f " + logPath + ".*";
        FILE* p = popen(cmd.c_str(), "r");
        char buf[4096];
        size_t n;
        while ((n = fread(buf, 1, sizeof buf, p)) > 0) report.append(buf, n);
        pclose(p);
      }
      if (ec == 66 || report.find("ThreadSanitizer") != std::string::npos) {
        std::string sig = firstFrames(report);
        sigs.insert(std::string(kBodies[b].name) + "|" + sig);
        res.violate(args.prop + ".data-race." + sig, "ThreadSanitizer report in body " + std::string(kBodies[b].name) + ": " + report.substr(0, 1200), std::string(kBodies[b].name));
      } else if (ec != 0) {
        res.violate(args.prop + ".tsan-run-failed", "free-running body " + std::string(kBodies[b].name) + " exited " + std::to_string(ec) + ": " + report.substr(0, 300), kBodies[b].name);
      } else sigs.insert(std::string(kBodies[b].name) + "|clean");
    }
    if (args.shard == 0) res.sample("{\"body\": " + vj::q(kBodies[b].name) + ", \"runs\": " + std::to_string(runs) + "}", 12);
  }
  res.counters["distinct_nontrivial"] = (long long)sigs.size();
  res.write(args.out);
  std::string cmd = "rm -rf " + logDir;
  (void)system(cmd.c_str());
  return res.violations.empty() ? 0 : 1;
}

// --one <body>: run one body once (child of the loop above)
__attribute__((constructor)) static void maybeOne(int argc, char** argv) {
  if (argc >= 3 && strcmp(argv[1], "--one") == 0) {
    for (int b = 0; b < kNumBodies; ++b)
      if (strcmp(kBodies[b].name, argv[2]) == 0) {
        BodyCtx c;
        kBodies[b].run(c);
        _exit(0);
      }
    _exit(98);
  }
}

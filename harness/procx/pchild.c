/* pchild: scripted child for harness/procx (C16, subprocess half).  Static, no libc start-up surprises.
 *
 *   pchild exit N [out K]            write K position-coded stdout bytes, then exit(N)
 *   pchild signal SIG [out K]        write K stdout bytes, then kill itself with SIG (INT KILL TERM SEGV ABRT PIPE HUP QUIT)
 *   pchild out N [err M] [exit C]    N stdout bytes and M stderr bytes, interleaved in chunks (1000 / 700), then exit(C)
 *   pchild close-then-linger [MS]    write 10 stdout bytes, close stdout+stderr, sleep ~50 (MS) ms, exit 3
 *   pchild env KEY                   print "KEY=<value>\n" or "KEY unset\n"
 *   pchild cwd                       print the working directory
 *   pchild touch PATH                create PATH, exit 0
 *   pchild gate FIFO [ignore-int]    (ignore SIGINT,) print "ready\n", block opening FIFO for reading, read to EOF, exit 0
 *   pchild release-then-more N       lane-release handshake on LLBUILD_CONTROL_FD (if set), then N stdout bytes, exit 0
 *   pchild release-then-gate FIFO [ignore-int]   (ignore SIGINT,) handshake, print "ready\n", then as gate
 *   pchild release-bad KIND N        KIND = wrong-id | bad-version | overlong : a broken handshake, then N stdout bytes, exit 0
 *
 * byte i of stdout = code(i) & 0x7f, byte i of stderr = 0x80 | (code(i) & 0x7f)  (see code()).
 * Every mode arms alarm(30) so that no child outlives a broken run, and disables core dumps.
 */
#include <errno.h>
#include <fcntl.h>
#include <signal.h>
#include <stdio.h>
#include <stdlib.h>
#include <string.h>
#include <sys/resource.h>
#include <time.h>
#include <unistd.h>

static unsigned char code(unsigned long i) {
  unsigned long x = i * 2654435761UL;
  return (unsigned char)(((x >> 13) ^ (x >> 29) ^ i) & 0x7f);
}

static void writeAll(int fd, const unsigned char* p, size_t n) {
  while (n) {
    ssize_t w = write(fd, p, n);
    if (w < 0) { if (errno == EINTR) continue; _exit(97); }
    p += w; n -= (size_t)w;
  }
}

static void emit(int fd, unsigned long from, unsigned long to, unsigned char hi) {
  unsigned char buf[4096];
  while (from < to) {
    size_t n = 0;
    while (n < sizeof buf && from < to) buf[n++] = (unsigned char)(hi | code(from++));
    writeAll(fd, buf, n);
  }
}

static void msleep(long ms) {
  struct timespec ts = {ms / 1000, (ms % 1000) * 1000000L};
  while (nanosleep(&ts, &ts) != 0 && errno == EINTR) {}
}

static int sigByName(const char* s) {
  if (!strcmp(s, "INT")) return SIGINT;
  if (!strcmp(s, "KILL")) return SIGKILL;
  if (!strcmp(s, "TERM")) return SIGTERM;
  if (!strcmp(s, "SEGV")) return SIGSEGV;
  if (!strcmp(s, "ABRT")) return SIGABRT;
  if (!strcmp(s, "PIPE")) return SIGPIPE;
  if (!strcmp(s, "HUP")) return SIGHUP;
  if (!strcmp(s, "QUIT")) return SIGQUIT;
  return -1;
}

static void handshake(const char* kind) {
  const char* fdS = getenv("LLBUILD_CONTROL_FD");
  const char* id = getenv("LLBUILD_TASK_ID");
  if (!fdS || !id) return;
  int fd = atoi(fdS);
  char msg[256];
  if (!kind) snprintf(msg, sizeof msg, "llbuild.1\n%s\n", id);
  else if (!strcmp(kind, "wrong-id")) snprintf(msg, sizeof msg, "llbuild.1\nnot-the-id\n");
  else if (!strcmp(kind, "bad-version")) snprintf(msg, sizeof msg, "llbuild.9\n%s\n", id);
  else snprintf(msg, sizeof msg, "0123456789012345678901234567890123456789");  /* overlong, no newline */
  size_t n = strlen(msg);
  const char* p = msg;
  while (n) {
    ssize_t w = write(fd, p, n);
    if (w < 0) { if (errno == EINTR) continue; return; }
    p += w; n -= (size_t)w;
  }
}

static void gate(const char* fifo) {
  int fd = open(fifo, O_RDONLY);
  if (fd < 0) _exit(96);
  char b[16];
  while (read(fd, b, sizeof b) > 0) {}
  close(fd);
}

int main(int argc, char** argv) {
  struct rlimit rl = {0, 0};
  setrlimit(RLIMIT_CORE, &rl);
  alarm(30);
  if (argc < 2) return 99;
  const char* m = argv[1];
  if (!strcmp(m, "exit") && argc >= 3) {
    if (argc >= 5 && !strcmp(argv[3], "out")) emit(1, 0, strtoul(argv[4], 0, 10), 0);
    _exit(atoi(argv[2]));
  }
  if (!strcmp(m, "signal") && argc >= 3) {
    int s = sigByName(argv[2]);
    if (s < 0) return 99;
    if (argc >= 5 && !strcmp(argv[3], "out")) emit(1, 0, strtoul(argv[4], 0, 10), 0);
    signal(s, SIG_DFL);
    sigset_t set; sigemptyset(&set); sigaddset(&set, s); sigprocmask(SIG_UNBLOCK, &set, 0);
    kill(getpid(), s);
    msleep(2000);
    _exit(98);  /* the signal did not kill us */
  }
  if (!strcmp(m, "out") && argc >= 3) {
    unsigned long n = strtoul(argv[2], 0, 10), e = 0;
    int ec = 0;
    for (int i = 3; i + 1 < argc; i += 2) {
      if (!strcmp(argv[i], "err")) e = strtoul(argv[i + 1], 0, 10);
      else if (!strcmp(argv[i], "exit")) ec = atoi(argv[i + 1]);
    }
    unsigned long a = 0, b = 0;
    while (a < n || b < e) {
      unsigned long a2 = a + 1000 < n ? a + 1000 : n, b2 = b + 700 < e ? b + 700 : e;
      if (e == 0) a2 = n;
      emit(1, a, a2, 0); a = a2;
      emit(2, b, b2, 0x80); b = b2;
    }
    _exit(ec);
  }
  if (!strcmp(m, "close-then-linger")) {
    emit(1, 0, 10, 0);
    close(1); close(2);
    msleep(argc >= 3 ? atoi(argv[2]) : 50);
    _exit(3);
  }
  if (!strcmp(m, "env") && argc >= 3) {
    const char* v = getenv(argv[2]);
    char line[512];
    if (v) snprintf(line, sizeof line, "%s=%s\n", argv[2], v); else snprintf(line, sizeof line, "%s unset\n", argv[2]);
    writeAll(1, (const unsigned char*)line, strlen(line));
    _exit(0);
  }
  if (!strcmp(m, "cwd")) {
    char b[4096];
    if (!getcwd(b, sizeof b - 2)) _exit(95);
    strcat(b, "\n");
    writeAll(1, (const unsigned char*)b, strlen(b));
    _exit(0);
  }
  if (!strcmp(m, "touch") && argc >= 3) {
    int fd = open(argv[2], O_WRONLY | O_CREAT, 0644);
    if (fd < 0) _exit(94);
    close(fd);
    _exit(0);
  }
  if (!strcmp(m, "gate") && argc >= 3) {
    if (argc >= 4 && !strcmp(argv[3], "ignore-int")) signal(SIGINT, SIG_IGN);
    writeAll(1, (const unsigned char*)"ready\n", 6);
    gate(argv[2]);
    _exit(0);
  }
  if (!strcmp(m, "release-then-more") && argc >= 3) {
    handshake(0);
    emit(1, 0, strtoul(argv[2], 0, 10), 0);
    _exit(0);
  }
  if (!strcmp(m, "release-then-gate") && argc >= 3) {
    if (argc >= 4 && !strcmp(argv[3], "ignore-int")) signal(SIGINT, SIG_IGN);
    handshake(0);
    writeAll(1, (const unsigned char*)"ready\n", 6);
    gate(argv[2]);
    _exit(0);
  }
  if (!strcmp(m, "release-bad") && argc >= 4) {
    handshake(argv[2]);
    emit(1, 0, strtoul(argv[3], 0, 10), 0);
    _exit(0);
  }
  return 99;
}

// procx: C16, subprocess half.  An ENUMERATION OF CHILD BEHAVIOURS run through the REAL execution
// queues (createLaneBasedExecutionQueue with 2 lanes, createSerialQueue) and the real spawnProcess():
// every exit code 0..255, every self-signal, every output size class, stdout/stderr interleaving,
// early close of the descriptors, the lane-release handshake (good and broken), every spawn error,
// every environment combination, every cancellation placement.
//
// One *scenario* = one fresh queue in one forked scenario process (so a hang or a crash of the real
// code is an observed outcome, `C16.proc-hang-*` / `C16.proc-crash-*`, and `waitpid(-1)` in that
// process sees exactly the queue's children).  A scenario makes one or more *launches*
// (executeProcess calls); every launch is judged.
//
// Oracles per launch (from the statement of C16): completion callback exactly once; its status reflects
// the child's real fate (exit 0 -> Succeeded; non-zero exit, fatal signal, spawn error -> Failed; SIGINT /
// SIGKILL -> Cancelled); all output delivered, in order, before the completion (and before
// processFinished); processStarted/processFinished paired; documented environment precedence; after
// cancellation nothing new is started and running children are signalled and reaped (no zombie, no
// child left running once the queue is destroyed).
#include "../common/json.h"

#include "llbuild/Basic/ExecutionQueue.h"
#include "llbuild/Basic/Subprocess.h"

#include "llvm/ADT/ArrayRef.h"
#include "llvm/ADT/Optional.h"
#include "llvm/ADT/SmallString.h"
#include "llvm/ADT/StringRef.h"
#include "llvm/ADT/Twine.h"

#include <algorithm>
#include <atomic>
#include <cerrno>
#include <chrono>
#include <condition_variable>
#include <csignal>
#include <cstdio>
#include <cstdlib>
#include <cstring>
#include <fcntl.h>
#include <functional>
#include <map>
#include <memory>
#include <mutex>
#include <poll.h>
#include <set>
#include <string>
#include <sys/resource.h>
#include <sys/stat.h>
#include <sys/wait.h>
#include <thread>
#include <unistd.h>
#include <vector>

using namespace llvm;
using namespace llbuild;
using namespace llbuild::basic;

namespace {

std::string gPchild;  // path of the scripted child, next to this executable

// ------------------------------------------------------------------ position code (same as pchild.c)
unsigned char code(unsigned long i) {
  unsigned long x = i * 2654435761UL;
  return (unsigned char)(((x >> 13) ^ (x >> 29) ^ i) & 0x7f);
}

static double nowSec() { struct timespec ts; clock_gettime(CLOCK_MONOTONIC, &ts); return ts.tv_sec + ts.tv_nsec / 1e9; }
const char* statusName(ProcessStatus s) {
  switch (s) {
  case ProcessStatus::Succeeded: return "succeeded";
  case ProcessStatus::Failed: return "failed";
  case ProcessStatus::Cancelled: return "cancelled";
  case ProcessStatus::Skipped: return "skipped";
  default: return "unknown";
  }
}

// ------------------------------------------------------------------ one launch = one executeProcess call
struct Launch {
  // what to run
  std::string label;
  std::vector<std::string> argv;
  std::vector<std::pair<std::string, std::string>> env;
  bool inherit = true, control = true, canInterrupt = true;
  std::string workingDir;
  bool cancelInsideJob = false;  // the job calls cancelAllJobs() itself right before executeProcess

  // what the statement demands
  ProcessStatus expStatus = ProcessStatus::Succeeded;
  int expExit = -1;            // exit code of the child, when it exits
  int expSignal = 0;           // signal that kills the child, when one does
  bool expSpawned = true;      // a real child is created (processStarted with a pid)
  bool expSpawnError = false;  // spawn error: Failed + processHadError
  bool expNotStarted = false;  // cancelled before the spawn: no processStarted, no child
  long expStdout = -1, expStderr = -1;  // position-coded byte counts (when >= 0)
  bool expExact = false;       // expText is the exact expected output
  std::string expText;
  std::vector<std::string> expOneOf;  // output must be one of these (when non-empty)
  std::string sizeClass;       // for the class name of an output mismatch
  std::string envCase;         // for the class name of an environment mismatch
  std::string marker;          // a file the child would create; must not exist when expNotStarted

  // what was observed (guarded by Recorder::m)
  int started = 0, finished = 0, completions = 0, errors = 0, outputCalls = 0;
  long pid = -1;
  std::string output;
  std::vector<std::string> errorMsgs;
  long seqStarted = -1, seqLastOutput = -1, seqFinished = -1, seqCompletion = -1, seqFirstEvent = -1;
  ProcessResult finishedResult, completionResult;
  long seqSubmitted = -1;
};

class Desc : public JobDescriptor {
public:
  Launch* L;
  explicit Desc(Launch* L) : L(L) {}
  StringRef getOrdinalName() const override { return L->label; }
  void getShortDescription(SmallVectorImpl<char>& r) const override { r.append(L->label.begin(), L->label.end()); }
  void getVerboseDescription(SmallVectorImpl<char>& r) const override { r.append(L->label.begin(), L->label.end()); }
};

// ------------------------------------------------------------------ recording delegate (thread-safe)
class Recorder : public ExecutionQueueDelegate {
public:
  std::mutex m;
  std::condition_variable cv;
  long seq = 0;
  long seqCancel = -1;  // sequence number at which cancelAllJobs() returned
  int jobsStarted = 0, jobsFinished = 0;
  std::vector<std::string> stray;  // callbacks for an unknown context

  Launch* of(ProcessContext* ctx) { return ctx ? reinterpret_cast<Desc*>(ctx)->L : nullptr; }

  void queueJobStarted(JobDescriptor*) override { std::lock_guard<std::mutex> g(m); ++jobsStarted; }
  void queueJobFinished(JobDescriptor*) override { std::lock_guard<std::mutex> g(m); ++jobsFinished; cv.notify_all(); }
  void processStarted(ProcessContext* ctx, ProcessHandle, llbuild_pid_t pid) override {
    std::lock_guard<std::mutex> g(m);
    Launch* L = of(ctx);
    if (!L) { stray.push_back("processStarted"); return; }
    ++L->started; L->pid = (long)pid; L->seqStarted = seq++;
    if (L->seqFirstEvent < 0) L->seqFirstEvent = L->seqStarted;
    cv.notify_all();
  }
  void processHadError(ProcessContext* ctx, ProcessHandle, const Twine& msg) override {
    std::lock_guard<std::mutex> g(m);
    Launch* L = of(ctx);
    if (!L) { stray.push_back("processHadError"); return; }
    ++L->errors; L->errorMsgs.push_back(msg.str());
    long s = seq++;
    if (L->seqFirstEvent < 0) L->seqFirstEvent = s;
    cv.notify_all();
  }
  void processHadOutput(ProcessContext* ctx, ProcessHandle, StringRef data) override {
    std::lock_guard<std::mutex> g(m);
    Launch* L = of(ctx);
    if (!L) { stray.push_back("processHadOutput"); return; }
    ++L->outputCalls; L->output.append(data.data(), data.size()); L->seqLastOutput = seq++;
    if (L->seqFirstEvent < 0) L->seqFirstEvent = L->seqLastOutput;
    cv.notify_all();
  }
  void processFinished(ProcessContext* ctx, ProcessHandle, const ProcessResult& r) override {
    std::lock_guard<std::mutex> g(m);
    Launch* L = of(ctx);
    if (!L) { stray.push_back("processFinished"); return; }
    ++L->finished; L->finishedResult = r; L->seqFinished = seq++;
    cv.notify_all();
  }
  void completed(Launch* L, ProcessResult r) {
    std::lock_guard<std::mutex> g(m);
    ++L->completions; L->completionResult = r; L->seqCompletion = seq++;
    cv.notify_all();
  }
};

// ------------------------------------------------------------------ scenario description
struct Scenario {
  std::string spec;    // also the replay spec
  std::string family;  // for class names
  bool serial = false;
  std::string kind;    // simple | concurrent | cancel-before-submit | cancel-in-job | cancel-gated | cancel-after-exit | gate-release
  std::string variant;
  std::vector<std::string> args;  // kind-specific
  bool thoroughOnly = false;
  bool control = true;
  int rep = 0;
};

// ------------------------------------------------------------------ report channel scenario process -> driver
struct Report {
  int fd = -1;
  bool verbose = false;
  static std::string clean(std::string s) {
    for (auto& c : s) if (c == '\t' || c == '\n' || c == '\r') c = ' ';
    return s;
  }
  void line(const std::string& l) {
    std::string s = l + "\n";
    size_t off = 0;
    while (off < s.size()) {
      ssize_t n = write(fd, s.data() + off, s.size() - off);
      if (n < 0) { if (errno == EINTR) continue; return; }
      off += (size_t)n;
    }
  }
  void violate(const std::string& cls, const std::string& what) { line("V\t" + cls + "\t" + clean(what)); }
  void count(const std::string& k, long long n = 1) { line("C\t" + k + "\t" + std::to_string(n)); }
  void sample(const std::string& json) { line("S\t" + clean(json)); }
  void print(const std::string& text) { if (verbose) line("P\t" + clean(text)); }
};

std::string showBytes(const std::string& s, size_t max = 48) {
  std::string o;
  for (size_t i = 0; i < s.size() && i < max; ++i) {
    unsigned char c = (unsigned char)s[i];
    if (c >= 0x20 && c < 0x7f && c != '\\') o += (char)c;
    else { char b[8]; snprintf(b, sizeof b, "\\x%02x", c); o += b; }
  }
  if (s.size() > max) o += "...";
  return o;
}
std::string join(const std::vector<std::string>& v) {
  std::string o;
  for (size_t i = 0; i < v.size(); ++i) o += (i ? " " : "") + v[i];
  return o;
}

// ------------------------------------------------------------------ the scenario runner (inside the forked process)
struct Run {
  const Scenario& sc;
  Report& rep;
  std::string dir;  // scratch directory of this scenario
  Recorder rec;
  std::unique_ptr<ExecutionQueue> q;
  std::vector<std::string> baseStorage;
  std::vector<const char*> baseEnv;
  std::vector<std::unique_ptr<Launch>> launches;
  std::vector<int> fillers;  // descriptors opened to exhaust the table
  std::vector<std::unique_ptr<Desc>> descs;
  double launchWatchdog = 8.0;

  Run(const Scenario& sc, Report& rep, const std::string& dir) : sc(sc), rep(rep), dir(dir) {}

  void makeQueue(bool baseHasKey) {
    baseStorage = {"PATH=/usr/bin:/bin", "PROCX_ALWAYS=from-base"};
    if (baseHasKey) baseStorage.push_back("PROCX_K=from-base");
    for (auto& s : baseStorage) baseEnv.push_back(s.c_str());
    baseEnv.push_back(nullptr);
    if (sc.serial) q = createSerialQueue(rec, baseEnv.data());
    else q.reset(createLaneBasedExecutionQueue(rec, 2, SchedulerAlgorithm::FIFO, getDefaultQualityOfService(), baseEnv.data()));
  }

  Launch& add(const std::string& label, std::vector<std::string> argv) {
    launches.emplace_back(new Launch());
    Launch& L = *launches.back();
    L.label = label; L.argv = std::move(argv); L.control = sc.control;
    return L;
  }
  Launch& addChild(const std::string& label, std::vector<std::string> args) {
    args.insert(args.begin(), gPchild);
    return add(label, std::move(args));
  }

  void submit(Launch& L) {
    descs.emplace_back(new Desc(&L));
    Desc* d = descs.back().get();
    { std::lock_guard<std::mutex> g(rec.m); L.seqSubmitted = rec.seq++; }
    Launch* Lp = &L;
    q->addJob(QueueJob(d, [this, Lp](QueueJobContext* ctx) {
      std::vector<StringRef> argv(Lp->argv.begin(), Lp->argv.end());
      std::vector<std::pair<StringRef, StringRef>> env;
      for (auto& kv : Lp->env) env.push_back({StringRef(kv.first), StringRef(kv.second)});
      ProcessAttributes attr = {Lp->canInterrupt};
      attr.connectToConsole = false;
      attr.workingDir = Lp->workingDir;
      attr.inheritEnvironment = Lp->inherit;
      attr.controlEnabled = Lp->control;
      if (Lp->cancelInsideJob) { q->cancelAllJobs(); std::lock_guard<std::mutex> g(rec.m); rec.seqCancel = rec.seq++; }
      q->executeProcess(ctx, argv, env, attr, {ProcessCompletionFn([this, Lp](ProcessResult r) { rec.completed(Lp, r); })}, &rec);
    }));
  }

  template <class Pred> bool waitFor(Pred p, double secs) {
    std::unique_lock<std::mutex> g(rec.m);
    return rec.cv.wait_for(g, std::chrono::duration<double>(secs), p);
  }
  bool waitCompletion(Launch& L) { return waitFor([&] { return L.completions > 0; }, launchWatchdog); }
  bool waitReady(Launch& L) { return waitFor([&] { return L.output.find("ready\n") != std::string::npos || L.completions > 0; }, launchWatchdog); }

  void cancel() {
    q->cancelAllJobs();
    std::lock_guard<std::mutex> g(rec.m);
    rec.seqCancel = rec.seq++;
  }

  // a launch did not complete within the watchdog: report, kill what we know about, leave without destroying the queue
  [[noreturn]] void hang(Launch& L, const std::string& where) {
    rep.violate("C16.proc-hang-" + sc.family, sc.spec + ": launch '" + L.label + "' (" + join(L.argv) + ") had no completion callback within " +
                                                   std::to_string((int)launchWatchdog) + " s (" + where + ")");
    for (auto& l : launches) if (l->pid > 0) kill((pid_t)l->pid, SIGKILL);
    _exit(0);
  }

  void releaseGate(const std::string& fifo) {
    for (int i = 0; i < 5000; ++i) {
      int fd = open(fifo.c_str(), O_WRONLY | O_NONBLOCK);
      if (fd >= 0) { close(fd); return; }
      usleep(1000);
    }
  }

  void destroyQueue() { q.reset(); }

  void childAccounting() {
    // after the queue is gone no child of this process may exist in any state
    for (int i = 0; i < 8; ++i) {
      int st = 0;
      pid_t r = waitpid(-1, &st, WNOHANG);
      if (r < 0) { if (errno == ECHILD) return; continue; }
      if (r == 0) {
        rep.violate("C16.proc-child-left-running-" + sc.family, sc.spec + ": a child process is still running and un-reaped after the queue was destroyed");
        for (auto& l : launches) if (l->pid > 0) kill((pid_t)l->pid, SIGKILL);
        return;
      }
      rep.violate("C16.proc-zombie-" + sc.family, sc.spec + ": child " + std::to_string((long)r) + " had not been reaped when the queue was destroyed (wait status " + std::to_string(st) + ")");
    }
  }

  // the env child printed one well-formed line, so a wrong value is a precedence matter and not lost output
  static bool envLine(const Launch& L) {
    if (L.envCase.empty() || L.output.empty() || L.output.back() != '\n' || std::count(L.output.begin(), L.output.end(), '\n') != 1) return false;
    return L.output.find('=') != std::string::npos || L.output.find(" unset") != std::string::npos;
  }

  // ---------------------------------------------------------------- judging one launch
  void judge(Launch& L) {
    std::lock_guard<std::mutex> g(rec.m);
    rep.count("evaluations");
    std::string id = sc.spec + " launch '" + L.label + "' (" + join(L.argv) + ")";
    if (rep.verbose) {
      rep.print(id + ": started=" + std::to_string(L.started) + " pid=" + std::to_string(L.pid) + " errors=" + std::to_string(L.errors) +
                (L.errorMsgs.empty() ? "" : " [" + L.errorMsgs[0] + "]") + " output_calls=" + std::to_string(L.outputCalls) + " output_bytes=" +
                std::to_string(L.output.size()) + " '" + showBytes(L.output) + "' finished=" + std::to_string(L.finished) + " completions=" +
                std::to_string(L.completions) + " status=" + statusName(L.completionResult.status) + " exitCode=" + std::to_string(L.completionResult.exitCode) +
                " (expected status " + statusName(L.expStatus) + ")");
    }
    // completion exactly once
    if (L.completions != 1) {
      rep.violate("C16.proc-completion-count-" + sc.family, id + ": completion callback fired " + std::to_string(L.completions) + " times");
      if (L.completions == 0) return;
    }
    rep.count("distinct_nontrivial");
    rep.count(std::string("observed_status_") + statusName(L.completionResult.status));
    // status
    if (L.completionResult.status != L.expStatus)
      rep.violate(std::string("C16.proc-status-") + statusName(L.expStatus) + "-reported-" + statusName(L.completionResult.status) + "-" + sc.family,
                  id + ": the child's fate demands status " + statusName(L.expStatus) + ", the completion callback reported " +
                      statusName(L.completionResult.status) + " (exitCode field " + std::to_string(L.completionResult.exitCode) + ")");
    // exit code: either the plain code or the raw wait status that encodes it
    if (L.expSpawned && L.expExit >= 0) {
      int ec = L.completionResult.exitCode;
      if (ec == L.expExit && L.expExit != 0) rep.count("exit_code_reported_plain");
      else if (ec == (L.expExit << 8)) { if (L.expExit != 0) rep.count("exit_code_reported_as_raw_wait_status"); }
      else rep.violate("C16.proc-exit-code-" + sc.family, id + ": child exited with " + std::to_string(L.expExit) + ", exitCode field is " + std::to_string(ec) +
                                                             " (neither the code nor the wait status encoding it)");
    }
    if (L.expSpawned && L.expSignal > 0) {
      int ec = L.completionResult.exitCode;
      if (!(ec == L.expSignal || (WIFSIGNALED(ec) && WTERMSIG(ec) == L.expSignal)))
        rep.violate("C16.proc-exit-code-" + sc.family, id + ": child was killed by signal " + std::to_string(L.expSignal) + ", exitCode field is " + std::to_string(ec));
    }
    // started / finished pairing
    if (L.expNotStarted) {
      if (L.started || L.finished || L.outputCalls)
        rep.violate("C16.proc-started-after-cancel", id + ": cancelAllJobs() had returned before executeProcess was called, yet processStarted was called " +
                                                         std::to_string(L.started) + "x (pid " + std::to_string(L.pid) + "), processFinished " + std::to_string(L.finished) + "x");
      if (!L.marker.empty() && access(L.marker.c_str(), F_OK) == 0)
        rep.violate("C16.proc-started-after-cancel", id + ": the child ran although the queue had been cancelled (its marker file exists)");
    } else {
      // a real child: exactly one processStarted and one processFinished; a spawn error: paired, at most once (Subprocess.h: "any
      // processStarted() call will be paired with exactly one processFinished() call")
      if (L.expSpawned ? L.started != 1 : L.started > 1) rep.violate("C16.proc-started-count-" + sc.family, id + ": processStarted called " + std::to_string(L.started) + " times");
      if (L.finished != L.started || L.finished > 1) rep.violate("C16.proc-finished-count-" + sc.family, id + ": processFinished called " + std::to_string(L.finished) + " times, processStarted " + std::to_string(L.started) + " times");
      if (L.finished == 1 && L.finishedResult.status != L.completionResult.status)
        rep.violate("C16.proc-finished-completion-status-differ-" + sc.family, id + ": processFinished said " + statusName(L.finishedResult.status) +
                                                                                    ", the completion callback said " + statusName(L.completionResult.status));
      if (L.expSpawned && L.started == 1 && L.pid <= 0)
        rep.violate("C16.proc-no-pid-" + sc.family, id + ": a child ran but processStarted reported pid " + std::to_string(L.pid));
    }
    if (L.expSpawnError) {
      if (L.errors == 0) rep.violate("C16.proc-spawn-error-not-reported-" + sc.variant, id + ": spawn error, but processHadError was never called");
      if (L.started == 1 && L.pid > 0) rep.violate("C16.proc-spawn-error-with-pid-" + sc.variant, id + ": spawn error, but processStarted reported pid " + std::to_string(L.pid));
    }
    // ordering: all output before processFinished and before the completion
    if (L.seqLastOutput >= 0 && L.seqFinished >= 0 && L.seqLastOutput > L.seqFinished)
      rep.violate("C16.proc-finished-before-output", id + ": processHadOutput was called after processFinished");
    if (L.seqLastOutput >= 0 && L.seqCompletion >= 0 && L.seqLastOutput > L.seqCompletion)
      rep.violate("C16.proc-completion-before-output", id + ": processHadOutput was called after the completion callback");
    if (L.seqFinished >= 0 && L.seqCompletion >= 0 && L.seqFinished > L.seqCompletion)
      rep.count("finished_after_completion");  // not demanded by the statement; counter only
    if (L.seqStarted >= 0 && L.seqFirstEvent >= 0 && L.seqFirstEvent < L.seqStarted)
      rep.violate("C16.proc-event-before-started-" + sc.family, id + ": a delegate callback preceded processStarted");
    // output
    rep.count("output_bytes_checked", (long long)L.output.size());
    if (L.expStdout >= 0 || L.expStderr >= 0) {
      long nOut = 0, nErr = 0;
      std::string bad;
      bool exactInterleave = true;
      long a = 0, b = 0;  // what a sequential child writes: 1000 stdout, 700 stderr, ...
      for (size_t i = 0; i < L.output.size(); ++i) {
        unsigned char c = (unsigned char)L.output[i];
        if (c & 0x80) {
          if (nErr >= std::max(0L, L.expStderr) || (c & 0x7f) != code((unsigned long)nErr)) { if (bad.empty()) bad = "stderr byte #" + std::to_string(nErr) + " at merged offset " + std::to_string(i); }
          ++nErr;
        } else {
          if (nOut >= std::max(0L, L.expStdout) || c != code((unsigned long)nOut)) { if (bad.empty()) bad = "stdout byte #" + std::to_string(nOut) + " at merged offset " + std::to_string(i); }
          ++nOut;
        }
      }
      (void)a; (void)b; (void)exactInterleave;
      if (bad.empty() && (nOut != std::max(0L, L.expStdout) || nErr != std::max(0L, L.expStderr)))
        bad = "byte counts stdout " + std::to_string(nOut) + "/" + std::to_string(std::max(0L, L.expStdout)) + " stderr " + std::to_string(nErr) + "/" + std::to_string(std::max(0L, L.expStderr));
      if (!bad.empty())
        rep.violate("C16.proc-output-mismatch-" + L.sizeClass, id + ": delivered output differs from what the child wrote (" + bad + "; delivered " +
                                                                  std::to_string(L.output.size()) + " bytes in " + std::to_string(L.outputCalls) + " calls)");
    } else if (L.expExact) {
      if (L.output != L.expText) {
        std::string cls = envLine(L) ? "C16.proc-env-precedence-" + L.envCase : "C16.proc-output-mismatch-" + (L.envCase.empty() ? L.sizeClass : std::string("env-child"));
        rep.violate(cls, id + ": expected output '" + showBytes(L.expText) + "', delivered '" + showBytes(L.output) + "'");
      }
    } else if (!L.expOneOf.empty()) {
      if (std::find(L.expOneOf.begin(), L.expOneOf.end(), L.output) == L.expOneOf.end()) {
        std::string cls = envLine(L) ? "C16.proc-env-precedence-" + L.envCase : "C16.proc-output-mismatch-" + (L.envCase.empty() ? L.sizeClass : std::string("env-child"));
        rep.violate(cls, id + ": delivered '" + showBytes(L.output) + "' is none of the allowed outputs (first: '" + showBytes(L.expOneOf[0]) + "')");
      }
    }
    // a literal sample now and then
    rep.sample("{\"scenario\": " + vj::q(sc.spec) + ", \"argv\": " + vj::q(join(std::vector<std::string>(L.argv.begin() + (L.argv.empty() ? 0 : 1), L.argv.end()))) +
               ", \"status\": " + vj::q(statusName(L.completionResult.status)) + ", \"exitCode_field\": " + std::to_string(L.completionResult.exitCode) +
               ", \"output_bytes\": " + std::to_string(L.output.size()) + ", \"processHadError_calls\": " + std::to_string(L.errors) + "}");
  }

  void judgeAll() {
    for (auto& l : launches) judge(*l);
    std::lock_guard<std::mutex> g(rec.m);
    for (auto& s : rec.stray) rep.violate("C16.other-stray-callback", sc.spec + ": " + s + " for an unknown context");
    if (rec.jobsStarted != rec.jobsFinished) rep.count("queue_job_started_finished_unpaired");
  }

  // ---------------------------------------------------------------- expectations for the scripted child
  static void expectExit(Launch& L, int n) { L.expExit = n; L.expStatus = n == 0 ? ProcessStatus::Succeeded : ProcessStatus::Failed; }
  static int sigNo(const std::string& s) {
    if (s == "INT") return SIGINT; if (s == "KILL") return SIGKILL; if (s == "TERM") return SIGTERM; if (s == "SEGV") return SIGSEGV;
    if (s == "ABRT") return SIGABRT; if (s == "PIPE") return SIGPIPE; if (s == "HUP") return SIGHUP; if (s == "QUIT") return SIGQUIT;
    return 0;
  }
  static void expectSignal(Launch& L, const std::string& s) {
    L.expSignal = sigNo(s);
    L.expStatus = (s == "INT" || s == "KILL") ? ProcessStatus::Cancelled : ProcessStatus::Failed;
  }
  Launch& touchLaunch(const std::string& label) {
    Launch& L = addChild(label, {"touch", dir + "/marker-" + label});
    L.marker = dir + "/marker-" + label;
    L.expNotStarted = true; L.expSpawned = false; L.expStatus = ProcessStatus::Cancelled;
    return L;
  }

  // ---------------------------------------------------------------- the scenarios
  void run() {
    const auto& a = sc.args;
    if (sc.kind == "simple") {
      bool baseHasKey = sc.family == "env" && (a[1] == "base" || a[1] == "both");
      // interrupted-wait: SIGUSR1 (handler installed without SA_RESTART, blocked in every harness thread) is unblocked
      // only while the queue creates its threads, so that process-directed signals land on a lane thread
      const bool intr = sc.family == "interrupted-wait";
      sigset_t usr1;
      sigemptyset(&usr1);
      sigaddset(&usr1, SIGUSR1);
      if (intr) pthread_sigmask(SIG_UNBLOCK, &usr1, nullptr);
      makeQueue(baseHasKey);
      if (intr) pthread_sigmask(SIG_BLOCK, &usr1, nullptr);
      Launch* L = nullptr;
      if (sc.family == "exit") {
        long out = atol(a[1].c_str());
        L = &addChild("p", out ? std::vector<std::string>{"exit", a[0], "out", a[1]} : std::vector<std::string>{"exit", a[0]});
        expectExit(*L, atoi(a[0].c_str())); L->expStdout = out; L->expStderr = 0; L->sizeClass = "before-exit-" + a[1];
      } else if (sc.family == "signal") {
        long out = atol(a[1].c_str());
        L = &addChild("p", out ? std::vector<std::string>{"signal", a[0], "out", a[1]} : std::vector<std::string>{"signal", a[0]});
        expectSignal(*L, a[0]); L->expStdout = out; L->expStderr = 0; L->sizeClass = "before-signal-" + a[1];
      } else if (sc.family == "out") {
        L = &addChild("p", {"out", a[0], "exit", a[1]});
        expectExit(*L, atoi(a[1].c_str())); L->expStdout = atol(a[0].c_str()); L->expStderr = 0; L->sizeClass = a[0];
      } else if (sc.family == "outerr") {
        L = &addChild("p", {"out", a[0], "err", a[1]});
        expectExit(*L, 0); L->expStdout = atol(a[0].c_str()); L->expStderr = atol(a[1].c_str()); L->sizeClass = "stdout-" + a[0] + "-stderr-" + a[1];
      } else if (sc.family == "interrupted-wait") {
        // the child closes its output and lingers: the lane thread sits in wait4() (control channel off) when the signals arrive
        L = &addChild("p", {"close-then-linger", "700"});
        expectExit(*L, 3); L->expStdout = 10; L->expStderr = 0; L->sizeClass = "interrupted-wait";
      } else if (sc.family == "close-linger") {
        L = &addChild("p", {"close-then-linger"});
        expectExit(*L, 3); L->expStdout = 10; L->expStderr = 0; L->sizeClass = "close-then-linger";
      } else if (sc.family == "env") {
        // a[0] = inherit|noinherit, a[1] = request|base|both|neither|ids
        L = &addChild("p", {"env", a[1] == "ids" ? "LLBUILD_LANE_ID" : "PROCX_K"});
        L->inherit = a[0] == "inherit";
        expectExit(*L, 0);
        L->envCase = a[1] + "-" + a[0];
        if (a[1] == "ids") {
          L->env.push_back({"LLBUILD_LANE_ID", "from-request"});
          L->expOneOf = {"LLBUILD_LANE_ID=0\n", "LLBUILD_LANE_ID=1\n"};
        } else {
          if (a[1] == "request" || a[1] == "both") L->env.push_back({"PROCX_K", "from-request"});
          L->expExact = true;
          if (a[1] == "request" || a[1] == "both") L->expText = "PROCX_K=from-request\n";
          else if (a[1] == "base" && L->inherit) L->expText = "PROCX_K=from-base\n";
          else L->expText = "PROCX_K unset\n";
        }
      } else if (sc.family == "release") {
        L = &addChild("p", {"release-then-more", a[0]});
        expectExit(*L, 0); L->expStdout = atol(a[0].c_str()); L->expStderr = 0; L->sizeClass = "after-lane-release-" + a[0];
      } else if (sc.family == "release-bad") {
        L = &addChild("p", {"release-bad", a[0], a[1]});
        expectExit(*L, 0); L->expStdout = atol(a[1].c_str()); L->expStderr = 0; L->sizeClass = "after-broken-handshake-" + a[0];
      } else if (sc.family == "cwd") {
        L = &addChild("p", {"cwd"});
        L->workingDir = dir; expectExit(*L, 0); L->expExact = true; L->expText = dir + "\n"; L->sizeClass = "working-directory";
      } else if (sc.family == "spawn-error") {
        if (sc.variant == "missing-binary-absolute") L = &add("p", {"/nonexistent-procx/no-such-binary", "x"});
        else if (sc.variant == "missing-binary-relative") L = &add("p", {"procx-no-such-binary-anywhere", "x"});
        else if (sc.variant == "empty-argv") L = &add("p", {});
        else if (sc.variant == "missing-working-directory") { L = &addChild("p", {"touch", dir + "/marker-wd"}); L->workingDir = dir + "/no/such/dir"; L->marker = dir + "/marker-wd"; }
        else if (sc.variant == "not-executable") { std::string f = dir + "/plainfile"; int fd = open(f.c_str(), O_WRONLY | O_CREAT, 0644); if (fd >= 0) close(fd); L = &add("p", {f}); }
        else if (sc.variant == "no-fds-for-output-pipe" || sc.variant == "no-fds-for-control-pipe") {
          // the process has run out of file descriptors when the child's pipes are created: 0 free -> the output pipe
          // fails, 2 free -> the output pipe succeeds and the control pipe fails
          L = &addChild("p", {"touch", dir + "/marker-fd"});
          L->marker = dir + "/marker-fd";
          struct rlimit rl;
          getrlimit(RLIMIT_NOFILE, &rl);
          rl.rlim_cur = 256;
          setrlimit(RLIMIT_NOFILE, &rl);
          for (;;) { int fd = open("/dev/null", O_RDONLY); if (fd < 0) break; fillers.push_back(fd); }
          int keepFree = sc.variant == "no-fds-for-output-pipe" ? 0 : 2;
          for (int i = 0; i < keepFree && !fillers.empty(); ++i) { close(fillers.back()); fillers.pop_back(); }
        }
        else { L = &add("p", {dir}); }  // a directory as the binary
        L->expStatus = ProcessStatus::Failed; L->expSpawned = false; L->expSpawnError = true;
        L->expExact = true; L->expText = ""; L->sizeClass = "spawn-error";
      }
      submit(*L);
      std::thread signaller;
      if (intr) signaller = std::thread([] { usleep(200000); for (int i = 0; i < 3; ++i) { kill(getpid(), SIGUSR1); usleep(120000); } });
      if (!waitCompletion(*L)) hang(*L, "waiting for the only launch");
      if (signaller.joinable()) signaller.join();
      if (!fillers.empty()) { usleep(50000); for (int fd : fillers) close(fd); fillers.clear(); }  // (a second completion would arrive at once)
      if (sc.family == "release" || sc.family == "release-bad") usleep(20000);  // see assumptions: the detached waiter thread touches the queue after the callback
      destroyQueue();
      childAccounting();
      if (!L->marker.empty() && access(L->marker.c_str(), F_OK) == 0)
        rep.violate("C16.proc-spawn-error-child-ran-" + sc.variant, sc.spec + ": the child ran (marker exists) although the working directory does not exist");
      judgeAll();
      return;
    }
    if (sc.kind == "concurrent") {
      makeQueue(false);
      const char* sizes[] = {"65537", "4097", "300000", "1"};
      std::vector<Launch*> ls;
      for (int i = 0; i < 4; ++i) {
        Launch& L = addChild("p" + std::to_string(i), {"out", sizes[i], "err", sizes[3 - i], "exit", std::to_string(i)});
        expectExit(L, i); L.expStdout = atol(sizes[i]); L.expStderr = atol(sizes[3 - i]); L.sizeClass = "concurrent-children";
        ls.push_back(&L);
      }
      for (auto* l : ls) submit(*l);
      for (auto* l : ls) if (!waitCompletion(*l)) hang(*l, "four concurrent launches");
      destroyQueue(); childAccounting(); judgeAll();
      return;
    }
    if (sc.kind == "cancel-before-submit") {
      makeQueue(false);
      cancel();
      Launch& L = touchLaunch("after-cancel");
      submit(L);
      if (!waitCompletion(L)) hang(L, "launch submitted after cancelAllJobs");
      destroyQueue(); childAccounting(); judgeAll();
      return;
    }
    if (sc.kind == "cancel-in-job") {
      makeQueue(false);
      Launch& L = touchLaunch("cancel-then-execute");
      L.cancelInsideJob = true;
      submit(L);
      if (!waitCompletion(L)) hang(L, "job that cancels then executes");
      destroyQueue(); childAccounting(); judgeAll();
      return;
    }
    if (sc.kind == "cancel-after-exit") {
      makeQueue(false);
      Launch& L = addChild("first", {"out", "4097", "exit", a[0]});
      expectExit(L, atoi(a[0].c_str())); L.expStdout = 4097; L.expStderr = 0; L.sizeClass = "4097";
      submit(L);
      if (!waitCompletion(L)) hang(L, "first launch");
      cancel();
      Launch& T = touchLaunch("after-cancel");
      submit(T);
      if (!waitCompletion(T)) hang(T, "launch submitted after cancelAllJobs");
      destroyQueue(); childAccounting(); judgeAll();
      return;
    }
    if (sc.kind == "gate-release") {
      makeQueue(false);
      std::string fifo = dir + "/fifo";
      mkfifo(fifo.c_str(), 0600);
      Launch& L = addChild("gated", {"gate", fifo});
      expectExit(L, 0); L.expExact = true; L.expText = "ready\n"; L.sizeClass = "gated-child";
      submit(L);
      if (!waitReady(L)) hang(L, "waiting for the gated child to report ready");
      releaseGate(fifo);
      if (!waitCompletion(L)) hang(L, "after opening the gate");
      destroyQueue(); childAccounting(); judgeAll();
      return;
    }
    if (sc.kind == "cancel-gated") {
      // variants: plain | two | released | ignore-int (escalation) | no-interrupt (escalation)
      makeQueue(false);
      int n = sc.variant == "two" ? 2 : 1;
      std::vector<Launch*> ls;
      for (int i = 0; i < n; ++i) {
        std::string fifo = dir + "/fifo" + std::to_string(i);
        mkfifo(fifo.c_str(), 0600);
        std::vector<std::string> args = sc.variant == "released" ? std::vector<std::string>{"release-then-gate", fifo}
                                        : sc.variant == "ignore-int" ? std::vector<std::string>{"gate", fifo, "ignore-int"}
                                                                     : std::vector<std::string>{"gate", fifo};
        Launch& L = addChild("gated" + std::to_string(i), args);
        L.canInterrupt = sc.variant != "no-interrupt";
        // SIGINT from cancelAllJobs, or SIGKILL from the escalation: both are "cancelled" per the statement
        L.expStatus = ProcessStatus::Cancelled;
        L.expSignal = (sc.variant == "ignore-int" || sc.variant == "no-interrupt") ? SIGKILL : SIGINT;
        L.expExact = true; L.expText = "ready\n"; L.sizeClass = "gated-child";
        ls.push_back(&L);
      }
      for (auto* l : ls) submit(*l);
      for (auto* l : ls) if (!waitReady(*l)) hang(*l, "waiting for the gated child to report ready");
      cancel();
      for (auto* l : ls) if (!waitCompletion(*l)) hang(*l, "gated child after cancelAllJobs");
      Launch& T = touchLaunch("after-cancel");
      submit(T);
      if (!waitCompletion(T)) hang(T, "launch submitted after cancelAllJobs");
      if (sc.variant == "released") usleep(20000);
      destroyQueue(); childAccounting(); judgeAll();
      return;
    }
    if (sc.kind == "cancel-released-destroy") {
      // A child that has handed its lane back and ignores SIGINT is still running when the queue is cancelled and -
      // 300 ms later, while the SIGKILL escalation is still waiting for its 1 s - destroyed: tearing the queue down has
      // to kill it. Real time decides whether the escalation thread is already waiting when the destructor runs, so
      // the scenario is repeated (up to 3 times) and only a failure of EVERY attempt is a verdict.
      std::string seen;
      bool good = false;
      for (int attempt = 0; attempt < 3 && !good; ++attempt) {
        makeQueue(false);
        std::string fifo = dir + "/fifoR" + std::to_string(attempt);
        mkfifo(fifo.c_str(), 0600);
        Launch& L = addChild("released" + std::to_string(attempt), {"release-then-gate", fifo, "ignore-int"});
        submit(L);
        if (!waitReady(L)) hang(L, "waiting for the released child to report ready");
        cancel();
        usleep(300000);
        double t0 = nowSec();
        // the destructor blocks until the child is gone: give it 3 s, then put the child down ourselves
        std::atomic<bool> destroyed{false};
        std::thread watchdog([&] {
          for (int i = 0; i < 300 && !destroyed.load(); ++i) usleep(10000);
          if (!destroyed.load() && L.pid > 0) kill((pid_t)L.pid, SIGKILL);
        });
        destroyQueue();
        double took = nowSec() - t0;
        destroyed.store(true);
        watchdog.join();
        int raw = L.completionResult.exitCode;
        bool killed = L.completions == 1 && L.completionResult.status == ProcessStatus::Cancelled && (raw == SIGKILL || (WIFSIGNALED(raw) && WTERMSIG(raw) == SIGKILL));
        seen = "completions=" + std::to_string(L.completions) + " status=" + statusName(L.completionResult.status) + " exitCode field " + std::to_string(raw) +
               ", destroying the queue took " + std::to_string(took).substr(0, 5) + " s";
        good = killed && took < 2.5;
        if (L.pid > 0) kill((pid_t)L.pid, SIGKILL);
        int st = 0;
        while (waitpid(-1, &st, WNOHANG) > 0) {}
        rep.count("released_destroy_attempts");
      }
      if (!good)
        rep.violate("C16.proc-released-child-not-killed-at-queue-destruction",
                    sc.spec + ": a child that released its lane and ignores SIGINT was running when cancelAllJobs() was called; the queue was destroyed 300 ms later "
                    "(before the SIGKILL escalation timeout) and the child was not killed - in 3 of 3 attempts; last attempt: " + seen);
      return;
    }
    rep.violate("C16.other-harness-unknown-scenario", sc.spec);
  }
};

// ------------------------------------------------------------------ scenario table
std::vector<Scenario> buildTable() {
  std::vector<Scenario> t;
  auto add = [&](Scenario s) { t.push_back(s); };
  for (int serial = 0; serial < 2; ++serial) {
    std::string Q = serial ? "serial" : "lane2";
    auto mk = [&](const std::string& family, const std::string& kind, const std::string& variant, std::vector<std::string> args, bool control, const std::string& spec) {
      Scenario s;
      s.spec = Q + ":" + spec + (control ? "" : ":noctl");
      s.family = family; s.serial = serial; s.kind = kind; s.variant = variant; s.args = std::move(args); s.control = control;
      return s;
    };
    for (int ctl = 1; ctl >= 0; --ctl) {
      // every exit code, without and with output before it
      for (const char* out : {"0", "4097", "65537"})
        for (int n = 0; n < 256; ++n) {
          Scenario s = mk("exit", "simple", "", {std::to_string(n), out}, ctl, "exit:" + std::to_string(n) + ":out" + out);
          s.thoroughOnly = std::string(out) == "65537";
          add(s);
        }
      // every signal, without and with output before it
      for (const char* out : {"0", "4097", "65537"})
        for (const char* s : {"INT", "KILL", "TERM", "SEGV", "ABRT", "PIPE", "HUP", "QUIT"})
          add(mk("signal", "simple", "", {s, out}, ctl, std::string("signal:") + s + ":out" + out));
      // every output size class, exit 0 and exit 7
      for (const char* ec : {"0", "7"})
        for (const char* n : {"0", "1", "4095", "4096", "4097", "65536", "65537", "300000"})
          add(mk("out", "simple", "", {n, ec}, ctl, std::string("out:") + n + ":exit" + ec));
      for (const char* n : {"0", "1", "4095", "4096", "4097", "65536", "65537", "300000"})
        for (const char* m : {"1", "4095", "4096", "4097", "65536", "65537", "300000"}) {
          Scenario s = mk("outerr", "simple", "", {n, m}, ctl, std::string("out:") + n + ":err:" + m);
          auto quickSize = [](const std::string& x) { return x == "1" || x == "4097" || x == "65537"; };
          s.thoroughOnly = !(quickSize(n) && quickSize(m));
          add(s);
        }
      add(mk("close-linger", "simple", "", {}, ctl, "close-then-linger"));
      add(mk("interrupted-wait", "simple", "", {}, ctl, "interrupted-wait:3-signals-without-restart"));
      for (const char* n : {"0", "1", "4097", "70000", "300000"})
        add(mk("release", "simple", "", {n}, ctl, std::string("release-then-more:") + n));
      for (const char* k : {"wrong-id", "bad-version", "overlong"})
        add(mk("release-bad", "simple", k, {k, "70000"}, ctl, std::string("release-bad:") + k));
      add(mk("cwd", "simple", "", {}, ctl, "working-directory"));
      for (const char* v : {"missing-binary-absolute", "missing-binary-relative", "empty-argv", "missing-working-directory", "not-executable", "directory-as-binary"})
        add(mk("spawn-error", "simple", v, {}, ctl, std::string("spawn-error:") + v));
      add(mk("spawn-error", "simple", "no-fds-for-output-pipe", {}, ctl, "spawn-error:no-fds-for-output-pipe"));
      if (ctl) add(mk("spawn-error", "simple", "no-fds-for-control-pipe", {}, ctl, "spawn-error:no-fds-for-control-pipe"));
      add(mk("concurrent", "concurrent", "", {}, ctl, "concurrent-4"));
    }
    for (const char* inh : {"inherit", "noinherit"})
      for (const char* p : {"request", "base", "both", "neither", "ids"})
        add(mk("env", "simple", "", {inh, p}, true, std::string("env:") + p + ":" + inh));
    add(mk("cancel-before", "cancel-before-submit", "", {}, true, "cancel:before-submit"));
    add(mk("cancel-before", "cancel-in-job", "", {}, true, "cancel:inside-job-before-execute"));
    for (const char* ec : {"0", "5"}) add(mk("cancel-after-exit", "cancel-after-exit", "", {ec}, true, std::string("cancel:after-exit:") + ec));
    add(mk("gate-release", "gate-release", "", {}, true, "gate:release"));
    for (int ctl = 1; ctl >= 0; --ctl) {
      add(mk("cancel-gated", "cancel-gated", "plain", {}, ctl, "cancel:gated"));
      add(mk("cancel-gated-released", "cancel-gated", "released", {}, ctl, "cancel:gated-after-lane-release"));
    }
    if (!serial) add(mk("cancel-gated-two", "cancel-gated", "two", {}, true, "cancel:gated-two-children"));
    if (!serial) add(mk("cancel-released-destroy", "cancel-released-destroy", "", {}, true, "cancel:released-ignoring-sigint-then-destroy"));
    for (const char* v : {"ignore-int", "no-interrupt"}) {
      Scenario s = mk("cancel-escalate", "cancel-gated", v, {}, true, std::string("cancel:escalate:") + v);
      s.thoroughOnly = true;
      add(s);
    }
  }
  return t;
}

bool timingSensitive(const Scenario& s) {
  return s.family.compare(0, 6, "cancel") == 0 || s.family == "release" || s.family == "release-bad" || s.family == "close-linger" || s.family == "interrupted-wait" ||
         s.family == "concurrent" || s.family == "gate-release";
}

// ------------------------------------------------------------------ driver side: run one scenario in a forked process
void rmTree(const std::string& dir) {
  std::string cmd = "rm -rf '" + dir + "'";
  if (system(cmd.c_str())) {}
}

struct Driver {
  vj::Args& args;
  vj::Result& res;
  std::string scratch;
  bool verbose = false;
  std::map<std::string, int> sampleFamilies;

  void runScenario(const Scenario& sc, size_t idx) {
    std::string dir = scratch + "/s" + std::to_string(idx);
    mkdir(dir.c_str(), 0755);
    int p[2];
    if (pipe(p) != 0) { perror("procx: pipe"); exit(2); }
    fflush(stdout);
    pid_t child = fork();
    if (child < 0) { perror("procx: fork"); exit(2); }
    if (child == 0) {
      close(p[0]);
      {
        // SIGUSR1: a do-nothing handler WITHOUT SA_RESTART (as the llbuild tool installs for SIGINT), blocked in every
        // thread the harness creates; the interrupted-wait scenarios unblock it for the queue's own threads only
        struct sigaction sa;
        memset(&sa, 0, sizeof sa);
        sa.sa_handler = [](int) {};
        sigemptyset(&sa.sa_mask);
        sa.sa_flags = 0;
        sigaction(SIGUSR1, &sa, nullptr);
        sigset_t m;
        sigemptyset(&m);
        sigaddset(&m, SIGUSR1);
        sigprocmask(SIG_BLOCK, &m, nullptr);
      }
      Report rep;
      rep.fd = p[1];
      rep.verbose = verbose;
      {
        Run r(sc, rep, dir);
        r.run();
      }
      rep.line("E\tdone");
      _exit(0);
    }
    close(p[1]);
    // read the report with a scenario-level watchdog (a launch-level watchdog of 8 s sits inside)
    std::string buf;
    double limit = 40.0;
    auto t0 = std::chrono::steady_clock::now();
    bool timedOut = false;
    while (true) {
      double left = limit - std::chrono::duration<double>(std::chrono::steady_clock::now() - t0).count();
      if (left <= 0) { timedOut = true; break; }
      pollfd pf = {p[0], POLLIN, 0};
      int pr = poll(&pf, 1, (int)(left * 1000));
      if (pr < 0) { if (errno == EINTR) continue; break; }
      if (pr == 0) { timedOut = true; break; }
      char b[65536];
      ssize_t n = read(p[0], b, sizeof b);
      if (n < 0) { if (errno == EINTR) continue; break; }
      if (n == 0) break;
      buf.append(b, (size_t)n);
    }
    close(p[0]);
    int st = 0;
    if (timedOut) kill(child, SIGKILL);
    while (waitpid(child, &st, 0) < 0 && errno == EINTR) {}
    res.count("scenarios_run");
    bool done = false;
    size_t pos = 0;
    while (pos < buf.size()) {
      size_t e = buf.find('\n', pos);
      if (e == std::string::npos) break;
      std::string line = buf.substr(pos, e - pos);
      pos = e + 1;
      std::vector<std::string> f;
      size_t q = 0;
      for (int k = 0; k < 2; ++k) { size_t t = line.find('\t', q); if (t == std::string::npos) break; f.push_back(line.substr(q, t - q)); q = t + 1; }
      f.push_back(line.substr(q));
      if (f[0] == "V" && f.size() == 3) res.violate(f[1], f[2], sc.spec);
      else if (f[0] == "C" && f.size() == 3) res.count(f[1], atoll(f[2].c_str()));
      else if (f[0] == "S" && f.size() >= 2) { if (sampleFamilies[sc.family]++ == 0 && sc.family != "exit") res.sample(f.size() == 3 ? f[1] + "\t" + f[2] : f[1], 6); }
      else if (f[0] == "P") printf("%s\n", f.size() == 3 ? (f[1] + " " + f[2]).c_str() : f.back().c_str());
      else if (f[0] == "E") done = true;
    }
    if (timedOut) res.violate("C16.proc-hang-" + sc.family, sc.spec + ": the scenario process did not finish within 40 s (queue destruction or a callback is stuck)", sc.spec);
    else if (WIFSIGNALED(st)) res.violate("C16.proc-crash-" + sc.family, sc.spec + ": the scenario process (queue + spawnProcess in-process) died of signal " + std::to_string(WTERMSIG(st)), sc.spec);
    else if (!done) res.violate("C16.other-scenario-incomplete-" + sc.family, sc.spec + ": the scenario process exited with status " + std::to_string(st) + " before finishing", sc.spec);
    rmTree(dir);
  }
};

}  // namespace

int main(int argc, char** argv) {
  vj::Args args;
  args.parse(argc, argv);
  if (args.prop != "C16") { fprintf(stderr, "procx: only --prop C16\n"); return 2; }
  {
    char self[4096];
    ssize_t n = readlink("/proc/self/exe", self, sizeof self - 1);
    if (n <= 0) { perror("procx: readlink"); return 2; }
    self[n] = 0;
    std::string s = self;
    gPchild = s.substr(0, s.rfind('/')) + "/pchild";
    if (access(gPchild.c_str(), X_OK) != 0) { fprintf(stderr, "procx: %s missing\n", gPchild.c_str()); return 2; }
  }
  setenv("LLBUILD_TEST", "1", 1);  // SIGKILL escalation after 1 s instead of 10 s
  signal(SIGPIPE, SIG_IGN);

  vj::Result res;
  Driver D{args, res};
  D.scratch = "/dev/shm/verif-procx-" + std::to_string((long)getpid());
  rmTree(D.scratch);
  if (mkdir(D.scratch.c_str(), 0755) != 0) { perror("procx: mkdir"); return 2; }

  res.strings["rule"] =
      "a case is one launch = one executeProcess() call on a fresh queue inside a scenario; evaluations = launches judged; distinct_nontrivial = launches for which the "
      "completion callback was observed (every launch of every scenario is a different (queue kind, child behaviour, attributes, cancellation placement), repetitions '#rK' in the "
      "thorough tier excepted: those repeat timing-sensitive scenarios 4 more times and are counted in evaluations_repeated instead). Space, for each queue in {2-lane, serial} x control channel {on, off}: "
      "exit N for ALL N in 0..255 x {no output, 4097 bytes first (thorough: also 65537)}; self-signal {INT KILL TERM SEGV ABRT PIPE HUP QUIT} x {0, 4097, 65537 bytes first}; stdout size {0 1 4095 4096 4097 65536 65537 300000} x exit {0,7}; "
      "stdout x stderr sizes {1 4097 65537}^2 interleaved (thorough: all 8 x 7 size classes); close-then-linger; lane release then {0 1 4097 70000 300000} bytes; 3 broken handshakes; working directory; 6 spawn errors; 4 concurrent children; "
      "environment {request, base, both, neither, ids-vs-request} x inherit {on, off}; cancellation {before submit, inside the job before executeProcess, child gated on a FIFO, gated after lane release, "
      "two gated children (lanes only), after the child exited (exit 0 / 5)}; a gated child released normally; thorough adds the SIGKILL escalation (child ignores SIGINT; canSafelyInterrupt=false)";
  res.assumptions = {
      "C16 subprocess half: this is an enumeration of CHILD BEHAVIOURS; kernel scheduling of the children, signal delivery instants and pipe wake-ups are not under the harness's control (children are gated on FIFOs / a 'ready' line so that each logical cancellation placement is forced)",
      "C16: stdout and stderr of a child are the same pipe in llbuild; the oracle demands per-stream order and completeness only (stdout bytes have the high bit clear, stderr bytes set)",
      "C16: the exitCode field is accepted if it is either the child's exit code / signal number or the raw wait status encoding it (the statement only speaks about the status); which of the two is seen is counted",
      "C16: environment precedence as documented in LaneBasedExecutionQueue::executeProcess: LLBUILD_BUILD_ID / LLBUILD_LANE_ID first, then the request's environment, then the base environment when inheritEnvironment is set",
      "C16: for a spawn error the statement's 'failure' is judged on the completion callback; processHadError must have been called and no child may have run",
      "C16: the client waits for the completion callback before it destroys the queue (as the build system does); after a lane release the harness additionally sleeps 20 ms before destroying the queue because the detached waiter thread still decrements a queue member after the callback (not judged here)",
      "C16: LLBUILD_TEST is set so that the SIGKILL escalation takes 1 s; watchdogs (8 s per launch, 40 s per scenario) only ever produce the verdict classes C16.proc-hang-*",
      "C16: the queue half of the statement (exactly-once job execution, lane limit, schedules) is the schedx part, not this one",
  };

  auto table = buildTable();
  // replay: the spec names one scenario of the table
  if (!args.replaySpec.empty()) {
    std::string want = args.replaySpec;
    size_t h = want.find('#');
    if (h != std::string::npos) want = want.substr(0, h);
    D.verbose = true;
    bool found = false;
    for (size_t i = 0; i < table.size(); ++i)
      if (table[i].spec == want) { D.runScenario(table[i], i); found = true; break; }
    if (!found) { fprintf(stderr, "procx: unknown scenario '%s'\n", want.c_str()); rmTree(D.scratch); return 3; }
    rmTree(D.scratch);
    res.write(args.out);
    return res.violations.empty() ? 0 : 1;
  }

  // work list: quick = everything but the 1-second escalation scenarios; thorough = everything, plus 4 repetitions of the timing-sensitive ones
  std::vector<Scenario> work;
  for (auto& s : table) if (args.thorough() || !s.thoroughOnly) work.push_back(s);
  size_t base = work.size();
  if (args.thorough())
    for (int r = 1; r <= 4; ++r)
      for (size_t i = 0; i < base; ++i)
        if (timingSensitive(work[i])) { Scenario s = work[i]; s.rep = r; work.push_back(s); }
  res.counters["scenarios_total"] = 0;
  if (args.shard == 0) res.counters["scenarios_total"] = (long long)work.size();
  std::vector<size_t> mine;
  for (size_t i = 0; i < work.size(); ++i)
    if ((int)(i % (size_t)args.nshards) == args.shard) mine.push_back(i);
  if (!mine.empty() && args.seed) std::rotate(mine.begin(), mine.begin() + (size_t)((args.seed % (long long)mine.size() + (long long)mine.size()) % (long long)mine.size()), mine.end());
  for (size_t idx : mine) {
    if (args.overBudget()) { res.exhaustive = false; res.count("scenarios_skipped_budget"); continue; }
    Scenario s = work[idx];
    if (s.rep) {
      // repetitions do not count as new cases
      long long e0 = res.counters["evaluations"], d0 = res.counters["distinct_nontrivial"];
      std::string spec = s.spec;
      s.spec = spec + "#r" + std::to_string(s.rep);
      D.runScenario(s, idx);
      res.counters["evaluations_repeated"] += res.counters["evaluations"] - e0;
      res.counters["evaluations"] = e0;
      res.counters["distinct_nontrivial"] = d0;
    } else D.runScenario(s, idx);
  }
  rmTree(D.scratch);
  if (!res.write(args.out)) { fprintf(stderr, "procx: cannot write %s\n", args.out.c_str()); return 2; }
  return res.violations.empty() ? 0 : 1;
}

// stalex: C14, tool part.  The real `stale-file-removal` command, driven in-process through
// llbuild::buildsystem::BuildSystem with a real SQLite database and a RECORDING FileSystem, over
// ALL (previous list, current list, roots) triples (quick) / ALL histories of three lists (thorough)
// drawn from a fixed path alphabet.
//
//  mode "mem":  the FileSystem is a recording fake (nothing on disk is touched; the literal alphabet
//               paths /r/a, /o/x ... are handed to the tool).  Oracle on the set of remove() arguments
//               and on "no other mutating call".
//  mode "fs" :  the FileSystem is a recording wrapper around the real local file system; the alphabet
//               is re-rooted under /dev/shm/verif-stalex-<pid>/w (absolute path p -> <w>p, relative
//               paths are relative to the process cwd <w>/cwd) and a fixed tree is populated before
//               every judged run.  Oracle: remove() arguments as above AND a snapshot of the tree
//               before/after (every qualifying path is gone, a directory with its subtree, and every
//               other object is bit-identical).
//
// Each run is a NEW BuildSystem instance on the same database file (= restart).  The database produced
// by the run(s) of a history prefix is snapshotted (file bytes) and restored for every continuation,
// so a prefix is executed once.
//
// Reference (identical to harness/enumx/c14.cpp): split on '/', drop empty components, '.' and '..'
// are ordinary components; a root covers a path iff both are absolute and the root's components are a
// prefix of the path's components.
#include "../common/json.h"

#include "llbuild/Basic/ExecutionQueue.h"
#include "llbuild/Basic/FileSystem.h"
#include "llbuild/BuildSystem/BuildDescription.h"
#include "llbuild/BuildSystem/BuildKey.h"
#include "llbuild/BuildSystem/BuildSystem.h"
#include "llbuild/BuildSystem/BuildValue.h"
#include "llbuild/BuildSystem/Command.h"
#include "llbuild/BuildSystem/Tool.h"

#include "llvm/ADT/Twine.h"
#include "llvm/Support/MemoryBuffer.h"

#include <algorithm>
#include <cerrno>
#include <cstdio>
#include <cstdlib>
#include <dirent.h>
#include <fcntl.h>
#include <map>
#include <set>
#include <string>
#include <sys/stat.h>
#include <unistd.h>
#include <vector>

using namespace llvm;
using namespace llbuild;
using namespace llbuild::basic;
using namespace llbuild::buildsystem;

namespace {

typedef std::vector<std::string> List;

// ---------------------------------------------------------------- alphabets
const char* const kPaths[] = {"/r/a", "/r/ab", "/r/a/b", "/r/a/", "/r//a", "a", "r/a", "", "/r/../x", "/o/x", "/r", "/x"};
const char* const kRoots[] = {"/r", "/r/", "/", "/r/a", "r"};  // the sixth choice is "none" = a shorter list

std::vector<List> orderedLists(const char* const* a, size_t n) {  // <= 2 elements, order and repetition significant
  std::vector<List> out;
  out.push_back({});
  for (size_t i = 0; i < n; ++i) out.push_back({a[i]});
  for (size_t i = 0; i < n; ++i)
    for (size_t j = 0; j < n; ++j) out.push_back({a[i], a[j]});
  return out;
}
std::vector<List> unorderedLists(const char* const* a, size_t n) {  // <= 2 distinct elements, one order
  std::vector<List> out;
  out.push_back({});
  for (size_t i = 0; i < n; ++i) out.push_back({a[i]});
  for (size_t i = 0; i < n; ++i)
    for (size_t j = i + 1; j < n; ++j) out.push_back({a[i], a[j]});
  return out;
}

// ---------------------------------------------------------------- reference
std::vector<std::string> comps(const std::string& s) {
  std::vector<std::string> out;
  std::string cur;
  for (char c : s) {
    if (c == '/') { if (!cur.empty()) out.push_back(cur); cur.clear(); }
    else cur += c;
  }
  if (!cur.empty()) out.push_back(cur);
  return out;
}
bool refBeneath(const std::string& path, const std::string& root) {
  auto p = comps(path), r = comps(root);
  if (r.size() > p.size()) return false;
  for (size_t i = 0; i < r.size(); ++i)
    if (p[i] != r[i]) return false;
  return true;
}
bool isAbs(const std::string& s) { return !s.empty() && s[0] == '/'; }
bool covers(const std::string& root, const std::string& p) { return isAbs(root) && isAbs(p) && refBeneath(p, root); }
bool qualifies(const std::string& p, const List& roots) {
  if (roots.empty()) return true;
  for (auto& r : roots) if (covers(r, p)) return true;
  return false;
}
std::set<std::string> candidates(const List& prev, const List& cur) {  // listed before, not listed now
  std::set<std::string> c(prev.begin(), prev.end());
  for (auto& s : cur) c.erase(s);
  return c;
}

// ---------------------------------------------------------------- printing / spec
std::string showList(const List& l) {
  std::string o = "[";
  for (size_t i = 0; i < l.size(); ++i) o += (i ? ", " : "") + ("'" + l[i] + "'");
  return o + "]";
}
std::string jsonList(const List& l) {
  std::string o = "[";
  for (size_t i = 0; i < l.size(); ++i) o += (i ? ", " : "") + vj::q(l[i]);
  return o + "]";
}
std::string encList(const List& l) {  // "<n>:" then n strings each followed by ','  (no ',' or ';' in the alphabet)
  std::string o = std::to_string(l.size()) + ":";
  for (auto& s : l) o += s + ",";
  return o;
}
bool decList(const std::string& s, List& out) {
  size_t c = s.find(':');
  if (c == std::string::npos) return false;
  int n = atoi(s.substr(0, c).c_str());
  size_t pos = c + 1;
  for (int i = 0; i < n; ++i) {
    size_t e = s.find(',', pos);
    if (e == std::string::npos) return false;
    out.push_back(s.substr(pos, e - pos));
    pos = e + 1;
  }
  return pos == s.size();
}
// rendering flavour of the description: every '/' of a path written as the YAML escape "\/" (JSON style), so that every
// element of a list has to be unescaped by the description parser
bool gEscapeSlashes = false;
std::string makeSpec(bool fs, const List& roots, const std::vector<List>& h) {
  std::string s = std::string(fs ? "fs" : gEscapeSlashes ? "memesc" : "mem") + ";roots=" + encList(roots) + ";h=";
  for (size_t i = 0; i < h.size(); ++i) s += (i ? ";" : "") + encList(h[i]);
  return s;
}

// ---------------------------------------------------------------- recording file system
struct Log {
  List removes;    // every remove(path) argument, in call order
  List mutations;  // every other mutating call
  long reads = 0;
  void clear() { removes.clear(); mutations.clear(); reads = 0; }
};

class RecFS : public FileSystem {
  Log& log;
  bool real;
  std::unique_ptr<FileSystem> local = createLocalFileSystem();

public:
  RecFS(Log& log, bool real) : log(log), real(real) {}
  bool createDirectory(const std::string& path) override {
    log.mutations.push_back("createDirectory(" + path + ")");
    return real ? local->createDirectory(path) : true;
  }
  bool createDirectories(const std::string& path) override {
    log.mutations.push_back("createDirectories(" + path + ")");
    return real ? local->createDirectories(path) : true;
  }
  std::unique_ptr<llvm::MemoryBuffer> getFileContents(const std::string& path) override {
    ++log.reads;
    return local->getFileContents(path);  // the description file
  }
  bool remove(const std::string& path) override {
    log.removes.push_back(path);
    if (real) return local->remove(path);
    if (path.empty()) { errno = ENOENT; return false; }
    return true;  // the fake pretends every named object existed
  }
  FileChecksum getFileChecksum(const std::string& path) override { ++log.reads; return real ? local->getFileChecksum(path) : FileChecksum{}; }
  FileInfo getFileInfo(const std::string& path) override { ++log.reads; return real ? local->getFileInfo(path) : FileInfo{}; }
  FileInfo getLinkInfo(const std::string& path) override { ++log.reads; return real ? local->getLinkInfo(path) : FileInfo{}; }
  bool createSymlink(const std::string& src, const std::string& target) override {
    log.mutations.push_back("createSymlink(" + src + ", " + target + ")");
    return real ? local->createSymlink(src, target) : true;
  }
};

class QDelegate : public ExecutionQueueDelegate {
  void queueJobStarted(JobDescriptor*) override {}
  void queueJobFinished(JobDescriptor*) override {}
  void processStarted(ProcessContext*, ProcessHandle, llbuild_pid_t) override {}
  void processHadError(ProcessContext*, ProcessHandle, const Twine&) override {}
  void processHadOutput(ProcessContext*, ProcessHandle, StringRef) override {}
  void processFinished(ProcessContext*, ProcessHandle, const ProcessResult&) override {}
};

class Delegate : public BuildSystemDelegate {
  QDelegate q;

public:
  int errors = 0, warnings = 0, notes = 0, failures = 0;
  List messages;
  Delegate() : BuildSystemDelegate("basic", 0) {}
  void setFileContentsBeingParsed(StringRef) override {}
  void error(StringRef filename, const Token&, const Twine& message) override {
    ++errors;
    messages.push_back("error: " + message.str());
  }
  std::unique_ptr<Tool> lookupTool(StringRef) override { return nullptr; }
  std::unique_ptr<ExecutionQueue> createExecutionQueue() override {
    return std::unique_ptr<ExecutionQueue>(createLaneBasedExecutionQueue(
        q, 1, SchedulerAlgorithm::NamePriority, getDefaultQualityOfService(), nullptr));
  }
  void hadCommandFailure() override { ++failures; }
  void commandStatusChanged(Command*, CommandStatusKind) override {}
  void commandPreparing(Command*) override {}
  bool shouldCommandStart(Command*) override { return true; }
  void commandStarted(Command*) override {}
  void commandHadError(Command*, StringRef d) override { ++errors; messages.push_back("command error: " + d.str()); }
  void commandHadNote(Command*, StringRef d) override { ++notes; messages.push_back("note: " + d.str()); }
  void commandHadWarning(Command*, StringRef d) override { ++warnings; messages.push_back("warning: " + d.str()); }
  void commandFinished(Command*, ProcessStatus) override {}
  void commandFoundDiscoveredDependency(Command*, StringRef, DiscoveredDependencyKind) override {}
  void commandCannotBuildOutputDueToMissingInputs(Command*, Node*, ArrayRef<BuildKey>) override {}
  Command* chooseCommandFromMultipleProducers(Node*, std::vector<Command*>) override { return nullptr; }
  void cannotBuildNodeDueToMultipleProducers(Node*, std::vector<Command*>) override {}
  void determinedRuleNeedsToRun(core::Rule*, core::Rule::RunReason, core::Rule*) override {}
};

// ---------------------------------------------------------------- small file helpers
bool writeFile(const std::string& path, const std::string& data) {
  int fd = open(path.c_str(), O_WRONLY | O_CREAT | O_TRUNC, 0644);
  if (fd < 0) return false;
  size_t off = 0;
  while (off < data.size()) {
    ssize_t n = write(fd, data.data() + off, data.size() - off);
    if (n <= 0) { close(fd); return false; }
    off += (size_t)n;
  }
  close(fd);
  return true;
}
bool readFile(const std::string& path, std::string& out) {
  int fd = open(path.c_str(), O_RDONLY);
  if (fd < 0) return false;
  out.clear();
  char buf[65536];
  ssize_t n;
  while ((n = read(fd, buf, sizeof buf)) > 0) out.append(buf, (size_t)n);
  close(fd);
  return n == 0;
}
void wipe(const std::string& dir, bool removeSelf) {
  DIR* d = opendir(dir.c_str());
  if (d) {
    std::vector<std::string> names;
    while (dirent* e = readdir(d)) {
      std::string n = e->d_name;
      if (n != "." && n != "..") names.push_back(n);
    }
    closedir(d);
    for (auto& n : names) {
      std::string p = dir + "/" + n;
      struct stat st;
      if (lstat(p.c_str(), &st) == 0 && S_ISDIR(st.st_mode)) wipe(p, true);
      else unlink(p.c_str());
    }
  }
  if (removeSelf) rmdir(dir.c_str());
}

// ---------------------------------------------------------------- the world of mode "fs"
struct World {
  bool links = false;   // see populate()
  std::string base;  // <scratch>/w
  std::string cwd;   // <scratch>/w/cwd  (the process cwd while mode fs runs)
  void populate() {
    // the cwd directory itself is kept (the process sits in it); everything else is rebuilt
    DIR* d = opendir(base.c_str());
    if (d) {
      std::vector<std::string> names;
      while (dirent* e = readdir(d)) { std::string n = e->d_name; if (n != "." && n != "..") names.push_back(n); }
      closedir(d);
      for (auto& n : names) {
        if (n == "cwd") wipe(base + "/cwd", false);
        else {
          struct stat st;
          std::string p = base + "/" + n;
          if (lstat(p.c_str(), &st) == 0 && S_ISDIR(st.st_mode)) wipe(p, true); else unlink(p.c_str());
        }
      }
    }
    static const char* const dirs[] = {"r", "r/a", "r/a/b", "o", "cwd/a", "cwd/r"};
    static const char* const files[] = {"r/a/b/c", "r/a/f", "r/ab", "r/z", "o/x", "o/y", "x", "cwd/a/k", "cwd/r/a", "cwd/r/q", "cwd/k"};
    for (auto* x : dirs) mkdir((base + "/" + x).c_str(), 0755);
    for (auto* x : files) {
      // link flavour: /r/ab is a symbolic link to the non-empty directory /o (which lies outside the root /r):
      // removing the stale path means removing the LINK
      if (links && std::string(x) == "r/ab") { if (symlink("../o", (base + "/r/ab").c_str()) != 0) {} continue; }
      writeFile(base + "/" + x, std::string("content of ") + x + "\n");
    }
  }
  void snap(const std::string& dir, const std::string& rel, std::map<std::string, std::string>& out) const {
    DIR* d = opendir(dir.c_str());
    if (!d) return;
    std::vector<std::string> names;
    while (dirent* e = readdir(d)) { std::string n = e->d_name; if (n != "." && n != "..") names.push_back(n); }
    closedir(d);
    for (auto& n : names) {
      std::string p = dir + "/" + n, r = rel.empty() ? n : rel + "/" + n;
      struct stat st;
      if (lstat(p.c_str(), &st) != 0) continue;
      char meta[64];
      snprintf(meta, sizeof meta, "%o", (unsigned)st.st_mode);
      if (S_ISDIR(st.st_mode)) { out[r] = std::string("dir ") + meta; snap(p, r, out); }
      else if (S_ISREG(st.st_mode)) { std::string c; readFile(p, c); out[r] = std::string("file ") + meta + " " + c; }
      else out[r] = std::string("other ") + meta;
    }
  }
  std::map<std::string, std::string> snapshot() const { std::map<std::string, std::string> m; snap(base, "", m); return m; }
  // physical location (components relative to `base`) of what a path handed to the tool names; no symlinks in the world,
  // so this is plain normalisation.  Returns false when the path names nothing inside the world.
  bool phys(const std::string& p, std::vector<std::string>& out) const {
    if (p.empty()) return false;
    std::string abs = isAbs(p) ? p : cwd + "/" + p;
    std::vector<std::string> st;
    for (auto& c : comps(abs)) {
      if (c == ".") continue;
      if (c == "..") { if (!st.empty()) st.pop_back(); continue; }
      st.push_back(c);
    }
    auto b = comps(base);
    if (st.size() < b.size() || !std::equal(b.begin(), b.end(), st.begin())) return false;
    out.assign(st.begin() + b.size(), st.end());
    return true;
  }
};

// ---------------------------------------------------------------- one run of the real tool
struct Env {
  std::string scratch, desc, db;
  World world;
};

std::string yq(const std::string& s) {
  std::string o = "\"";
  for (char c : s) { if (c == '"' || c == '\\' || (gEscapeSlashes && c == '/')) o += '\\'; o += c; }
  return o + "\"";
}
std::string description(const List& expected, const List& roots) {
  std::string d = "client:\n  name: basic\n\ncommands:\n  C.1:\n    tool: stale-file-removal\n    description: STALE\n    expectedOutputs: [";
  for (size_t i = 0; i < expected.size(); ++i) d += (i ? ", " : "") + yq(expected[i]);
  d += "]\n";
  if (!roots.empty()) {
    d += "    roots: [";
    for (size_t i = 0; i < roots.size(); ++i) d += (i ? ", " : "") + yq(roots[i]);
    d += "]\n";
  }
  return d;
}

struct RunOut {
  std::string status;  // "ok" | "load-failed" | "attach-failed" | "build-failed" | "wrong-value-kind"
  List stored;         // the list the command stored as its result
  Log log;
  int warnings = 0, notes = 0, errors = 0;
  List messages;
};

void runTool(Env& env, const List& expected, const List& roots, bool real, RunOut& out) {
  out = RunOut();
  if (!writeFile(env.desc, description(expected, roots))) { out.status = "harness-cannot-write-description"; return; }
  Delegate d;
  {
    BuildSystem system(d, std::unique_ptr<FileSystem>(new RecFS(out.log, real)));
    std::string err;
    if (!system.attachDB(env.db, &err)) { out.status = "attach-failed"; out.messages.push_back(err); return; }
    if (!system.loadDescription(env.desc) || d.errors) { out.status = "load-failed"; out.messages = d.messages; return; }
    auto result = system.build(BuildKey::makeCommand("C.1"));
    if (!result.hasValue()) out.status = "build-failed";
    else if (!result.getValue().isStaleFileRemoval()) out.status = "wrong-value-kind";
    else {
      out.status = "ok";
      for (auto s : result.getValue().getStaleFileList()) out.stored.push_back(s.str());
    }
  }
  out.warnings = d.warnings; out.notes = d.notes; out.errors = d.errors; out.messages = d.messages;
}

// ---------------------------------------------------------------- judging
struct Judge {
  vj::Args& args;
  vj::Result& res;
  bool verbose = false;
  // plain counters, flushed at the end
  long long evaluations = 0, nontrivial = 0, builds = 0, removeCalls = 0, dupRemoveCalls = 0, expectedPaths = 0,
            blockedOutside = 0, blockedRelative = 0, casesWithRemoval = 0, casesWithRoots = 0, casesTrailingRootDecides = 0,
            fsCases = 0, fsObjectsGone = 0, fsSubtreeCases = 0, memCases = 0, warnings = 0, notes = 0, step3 = 0;

  // literal samples from this run: the first judged case of each of a few kinds
  std::set<int> sampled;
  void takeSample(bool fs, const std::vector<List>& h, const List& roots, const RunOut& out, const std::set<std::string>& expected,
                  const std::set<std::string>& cand, bool trailingDecides) {
    int kind = -1;
    if (h.size() >= 3 && !expected.empty()) kind = 0;
    else if (fs && !expected.empty() && cand.size() > expected.size()) kind = 1;
    else if (!fs && trailingDecides) kind = 2;
    else if (!fs && roots.empty() && expected.count("")) kind = 3;
    else if (!fs && !roots.empty() && expected.size() == 1 && cand.size() == 2) kind = 4;
    if (kind < 0 || sampled.count(kind)) return;
    sampled.insert(kind);
    std::string s = "{\"mode\": " + vj::q(fs ? "fs" : "mem") + ", \"roots\": " + jsonList(roots) + ", \"history\": [";
    for (size_t i = 0; i < h.size(); ++i) s += (i ? ", " : "") + jsonList(h[i]);
    s += "], \"remove_calls_in_last_run\": " + jsonList(out.log.removes) + ", \"expected\": " + jsonList(List(expected.begin(), expected.end())) + "}";
    res.sample(s, 6);
  }

  static std::string whyNotRemoved(const std::string& p, const List& roots) {
    if (roots.empty()) return p.empty() ? "no-roots-empty-path" : isAbs(p) ? "no-roots" : "no-roots-relative-path";
    bool plain = false, trailing = false, slash = false;
    for (auto& r : roots) {
      if (!covers(r, p)) continue;
      if (r == "/" ) slash = true;
      else if (r.back() == '/') trailing = true;
      else plain = true;
    }
    if (p.find("//") != std::string::npos) return "doubled-separator-in-path";
    if (!plain && !slash && trailing) return "root-trailing-separator";
    if (!plain && slash && !trailing) return "root-is-slash";
    if (p.size() > 1 && p.back() == '/') return "path-trailing-separator";
    if (p.find("/../") != std::string::npos) return "dotdot-component";
    for (auto& r : roots) if (comps(r) == comps(p)) return "path-equals-root";
    return "beneath-root";
  }
  static std::string whyNotStale(const std::string& p, const List& prev, const List& cur, const List& roots) {
    bool inPrev = std::find(prev.begin(), prev.end(), p) != prev.end();
    bool inCur = std::find(cur.begin(), cur.end(), p) != cur.end();
    if (!inPrev && inCur) return "listed-now-not-before";
    if (!inPrev) return "not-listed-by-previous-run";
    if (inCur) return "still-listed";
    // a genuine candidate, so the roots forbid it
    if (p.empty()) return "empty-path-with-roots";
    if (!isAbs(p)) return "relative-path-with-roots";
    for (auto& r : roots) {
      std::string rr = r;
      while (rr.size() > 1 && rr.back() == '/') rr.pop_back();
      if (isAbs(rr) && p.compare(0, rr.size(), rr) == 0) return "string-prefix-of-root-only";
    }
    for (auto& r : roots)
      if (!isAbs(r) && refBeneath(p, r)) return "relative-root";
    return "outside-roots";
  }

  // `h` = the history so far (h.back() is the list of the run being judged, h[h.size()-2] the previous one),
  // toolRoots/toolPrev/toolCur are the strings actually handed to the tool (re-rooted in mode fs).
  void judge(bool fs, const std::vector<List>& h, const List& roots, const List& toolPrev, const List& toolCur,
             const List& toolRoots, const RunOut& out, const World* world,
             const std::map<std::string, std::string>* before, const std::map<std::string, std::string>* after) {
    ++evaluations;
    if (h.size() >= 3) ++step3;
    (fs ? fsCases : memCases)++;
    std::string spec = makeSpec(fs, roots, h);
    std::string ctx = std::string(fs ? "[fs] " : "[mem] ") + "previous=" + showList(toolPrev) + " current=" + showList(toolCur) +
                      " roots=" + showList(toolRoots) + (h.size() >= 3 ? " (third run of history " + spec + ")" : "");
    warnings += out.warnings; notes += out.notes;
    if (out.status != "ok") {
      res.violate("C14.tool-run-" + out.status, ctx + ": the run did not produce a stale-file-removal value: " + out.status +
                      (out.messages.empty() ? "" : " (" + out.messages[0] + ")"), spec);
      return;
    }
    auto cand = candidates(toolPrev, toolCur);
    std::set<std::string> expected;
    bool trailingDecides = false;
    for (auto& p : cand) {
      if (qualifies(p, toolRoots)) {
        expected.insert(p);
        if (!toolRoots.empty() && whyNotRemoved(p, toolRoots) == "root-trailing-separator") trailingDecides = true;
      } else if (!isAbs(p)) ++blockedRelative;
      else ++blockedOutside;
    }
    if (!cand.empty()) ++nontrivial;
    if (!expected.empty()) ++casesWithRemoval;
    if (!toolRoots.empty()) ++casesWithRoots;
    if (trailingDecides) ++casesTrailingRootDecides;
    expectedPaths += (long long)expected.size();
    removeCalls += (long long)out.log.removes.size();

    std::set<std::string> got(out.log.removes.begin(), out.log.removes.end());
    dupRemoveCalls += (long long)(out.log.removes.size() - got.size());
    if (verbose) {
      printf("%s\n  remove() calls: %s\n  expected set  : %s\n  other mutating calls: %s\n", ctx.c_str(), showList(out.log.removes).c_str(),
             showList(List(expected.begin(), expected.end())).c_str(), showList(out.log.mutations).c_str());
      for (auto& m : out.messages) printf("  delegate: %s", (m + (m.empty() || m.back() != '\n' ? "\n" : "")).c_str());
    }
    for (auto& p : got)
      if (!expected.count(p)) {
        std::string why = whyNotStale(p, toolPrev, toolCur, toolRoots);
        res.violate("C14.tool-removed-not-stale-" + why, ctx + ": remove('" + p + "') was called, but the path must not be removed (" + why + ")", spec);
      }
    for (auto& p : expected)
      if (!got.count(p)) {
        // "a directory together with everything beneath it": a path that lies, by whole components and in the same
        // absolute/relative class, strictly beneath a path remove() WAS called for is removed with it (an
        // implementation may skip the separate call); counted, not a violation.
        bool withAncestor = false;
        for (auto& q : got)
          if (q != p && isAbs(q) == isAbs(p) && !comps(q).empty() && comps(q).size() < comps(p).size() && refBeneath(p, q)) withAncestor = true;
        if (withAncestor) { res.count("expected_paths_removed_with_an_ancestor"); continue; }
        std::string why = whyNotRemoved(p, toolRoots);
        std::string cls = why == "root-trailing-separator" ? "C14.tool-root-trailing-separator-differs" : "C14.tool-stale-not-removed-" + why;
        res.violate(cls, ctx + ": '" + p + "' was listed by the previous run, is not listed now and is allowed by the roots, but remove() was never called for it (" + why + ")", spec);
      }
    for (auto& m : out.log.mutations)
      res.violate("C14.tool-touched-outside-mutating-call", ctx + ": the tool made the mutating file-system call " + m, spec);
    if (out.stored != toolCur) {
      // not demanded by the statement as such (the next run is what is judged) but it explains later failures; counter only
      res.count("stored_list_differs_from_current_list");
    }

    if (res.violations.empty()) takeSample(fs, h, roots, out, expected, cand, trailingDecides);

    if (!fs) return;
    // ---- tree oracle
    std::vector<std::vector<std::string>> allowed;  // physical locations of the qualifying paths
    for (auto& p : expected) {
      std::vector<std::string> ph;
      if (world->phys(p, ph)) allowed.push_back(ph);
      struct stat st;
      if (!p.empty() && lstat(p.c_str(), &st) == 0)
        res.violate("C14.tool-stale-not-removed-still-on-disk-" + std::string(S_ISDIR(st.st_mode) ? "directory" : "file"),
                    ctx + ": '" + p + "' qualifies for removal but still exists after the run", spec);
    }
    auto under = [&](const std::string& rel) {
      auto c = comps(rel);
      for (auto& a : allowed)
        if (a.size() <= c.size() && std::equal(a.begin(), a.end(), c.begin())) return true;
      return false;
    };
    bool subtree = false;
    for (auto& kv : *before) {
      auto it = after->find(kv.first);
      if (it == after->end()) {
        ++fsObjectsGone;
        if (!under(kv.first))
          res.violate("C14.tool-touched-outside-removed-unlisted-object", ctx + ": '" + kv.first + "' (relative to the world root) disappeared although it is not at or beneath any path that qualifies for removal", spec);
        else if (kv.second.compare(0, 3, "dir") == 0) subtree = true;
      } else if (it->second != kv.second)
        res.violate("C14.tool-touched-outside-modified-object", ctx + ": '" + kv.first + "' changed from {" + kv.second + "} to {" + it->second + "}", spec);
    }
    if (subtree) ++fsSubtreeCases;
    for (auto& kv : *after)
      if (!before->count(kv.first))
        res.violate("C14.tool-touched-outside-created-object", ctx + ": '" + kv.first + "' appeared during the run", spec);
    if (verbose) {
      printf("  tree before: %zu objects, after: %zu objects; gone:", before->size(), after->size());
      for (auto& kv : *before) if (!after->count(kv.first)) printf(" %s", kv.first.c_str());
      printf("\n");
    }
  }

  void flush() {
    res.count("evaluations", evaluations);
    res.count("distinct_nontrivial", nontrivial);
    res.count("builds_total", builds);
    res.count("judged_runs_mem", memCases);
    res.count("judged_runs_fs", fsCases);
    res.count("judged_third_runs", step3);
    res.count("remove_calls_observed", removeCalls);
    res.count("remove_calls_repeating_a_path", dupRemoveCalls);
    res.count("paths_expected_removed", expectedPaths);
    res.count("candidates_blocked_outside_roots", blockedOutside);
    res.count("candidates_blocked_relative_or_empty", blockedRelative);
    res.count("runs_with_expected_removal", casesWithRemoval);
    res.count("runs_with_roots_configured", casesWithRoots);
    res.count("runs_where_only_a_trailing_separator_root_allows_a_removal", casesTrailingRootDecides);
    res.count("fs_objects_removed_from_tree", fsObjectsGone);
    res.count("fs_runs_removing_a_directory_subtree", fsSubtreeCases);
    res.count("delegate_warnings", warnings);
    res.count("delegate_notes", notes);
  }
};

// ---------------------------------------------------------------- history walker
struct Walker {
  Env& env;
  Judge& J;
  bool fs;
  bool judgeSecond = true;  // false: the second runs of these histories are judged by another work kind already
  bool links = false;       // populate the world in its link flavour
  List mapList(const List& l) const {
    if (!fs) return l;
    List o;
    for (auto& s : l) o.push_back(isAbs(s) ? env.world.base + s : s);
    return o;
  }
  // run h.back() (with the database holding the result of the runs of h[0..n-2]) and judge it when it has a predecessor
  bool step(const std::vector<List>& h, const List& roots, RunOut& out) {
    List cur = mapList(h.back()), tr = mapList(roots);
    bool judged = h.size() >= 3 || (h.size() == 2 && judgeSecond);
    std::map<std::string, std::string> before, after;
    if (fs && judged) { env.world.links = links; env.world.populate(); before = env.world.snapshot(); }
    runTool(env, cur, tr, fs, out);
    ++J.builds;
    if (!judged && h.size() >= 2) return out.status == "ok";  // judged elsewhere
    if (!judged) {
      if (out.status != "ok")
        J.res.violate("C14.tool-run-" + out.status, "first run with expectedOutputs=" + showList(cur) + " roots=" + showList(tr) + ": " + out.status +
                          (out.messages.empty() ? "" : " (" + out.messages[0] + ")"), makeSpec(fs, roots, h));
      else {
        if (!out.log.removes.empty())
          J.res.violate("C14.tool-removed-not-stale-no-previous-run", "first run (empty database) with expectedOutputs=" + showList(cur) + " roots=" + showList(tr) +
                            " called remove('" + out.log.removes[0] + "')", makeSpec(fs, roots, h));
        for (auto& m : out.log.mutations)
          J.res.violate("C14.tool-touched-outside-mutating-call", "first run with expectedOutputs=" + showList(cur) + ": mutating call " + m, makeSpec(fs, roots, h));
      }
      if (J.verbose) printf("first run: expectedOutputs=%s roots=%s -> %s, remove() calls: %s\n", showList(cur).c_str(), showList(tr).c_str(),
                            out.status.c_str(), showList(out.log.removes).c_str());
      return out.status == "ok";
    }
    if (fs) after = env.world.snapshot();
    J.judge(fs, h, roots, mapList(h[h.size() - 2]), cur, tr, out, &env.world, &before, &after);
    return out.status == "ok";
  }
  bool saveDB(std::string& bytes) { return readFile(env.db, bytes); }
  void restoreDB(const std::string& bytes) {
    unlink(env.db.c_str());
    unlink((env.db + "-journal").c_str());
    unlink((env.db + "-wal").c_str());
    unlink((env.db + "-shm").c_str());
    writeFile(env.db, bytes);
  }
  void freshDB() {
    unlink(env.db.c_str());
    unlink((env.db + "-journal").c_str());
    unlink((env.db + "-wal").c_str());
    unlink((env.db + "-shm").c_str());
  }
  // all histories l1, x2 in S2, (x3 in S3 when depth 3)
  void walk(const List& l1, const List& roots, const std::vector<List>& S2, const std::vector<List>* S3) {
    RunOut out;
    std::vector<List> h{l1};
    freshDB();
    if (!step(h, roots, out)) return;
    std::string db1, db2;
    if (!saveDB(db1)) { J.res.count("harness_db_snapshot_failed"); return; }
    for (auto& l2 : S2) {
      restoreDB(db1);
      h.resize(1);
      h.push_back(l2);
      if (!step(h, roots, out)) continue;
      if (!S3) continue;
      if (!saveDB(db2)) { J.res.count("harness_db_snapshot_failed"); continue; }
      for (auto& l3 : *S3) {
        restoreDB(db2);
        h.resize(2);
        h.push_back(l3);
        step(h, roots, out);
      }
    }
  }
  void replay(const std::vector<List>& hist, const List& roots) {
    RunOut out;
    std::vector<List> h;
    freshDB();
    for (auto& l : hist) {
      h.push_back(l);
      if (!step(h, roots, out)) { printf("run %zu: %s\n", h.size(), out.status.c_str()); break; }
    }
  }
};

}  // namespace

int main(int argc, char** argv) {
  vj::Args args;
  args.parse(argc, argv);
  if (args.prop != "C14") { fprintf(stderr, "stalex: only --prop C14\n"); return 2; }
  vj::Result res;

  Env env;
  env.scratch = "/dev/shm/verif-stalex-" + std::to_string((long)getpid());
  wipe(env.scratch, true);
  if (mkdir(env.scratch.c_str(), 0755) != 0) { perror("stalex: mkdir scratch"); return 2; }
  env.desc = env.scratch + "/build.llbuild";
  env.db = env.scratch + "/build.db";
  env.world.base = env.scratch + "/w";
  env.world.cwd = env.world.base + "/cwd";
  mkdir(env.world.base.c_str(), 0755);
  mkdir(env.world.cwd.c_str(), 0755);
  if (chdir(env.world.cwd.c_str()) != 0) { perror("stalex: chdir"); return 2; }  // relative paths of the alphabet resolve inside the scratch world

  const size_t NP = sizeof kPaths / sizeof *kPaths, NR = sizeof kRoots / sizeof *kRoots;
  auto PO = orderedLists(kPaths, NP);     // 157 ordered lists with repetition
  auto PU = unorderedLists(kPaths, NP);   // 79 duplicate-free lists
  auto RO = orderedLists(kRoots, NR);     // 31
  std::vector<List> P1(PO.begin(), PO.begin() + 1 + NP);  // lists of <= 1 path
  std::vector<List> R1(RO.begin(), RO.begin() + 1 + NR);  // <= 1 root

  Judge J{args, res};

  res.strings["rule"] =
      "a case is one judged run of the real stale-file-removal command = (history of expectedOutputs lists so far, roots); evaluations = judged runs "
      "(second runs; third runs of the three-list histories); every (history, roots) is enumerated once, so every evaluation is a distinct case; "
      "distinct_nontrivial = judged runs in which at least one path was listed by the previous run and is not listed now (a deletion candidate exists). "
      "Space: path alphabet {/r/a, /r/ab, /r/a/b, /r/a/, /r//a, a, r/a, '', /r/../x, /o/x, /r, /x}, root alphabet {/r, /r/, /, /r/a, r} (+ none); "
      "'ordered list' = sequence of <=2 alphabet paths, order and repetition significant (157 lists); 'set' = duplicate-free list in one fixed order (79). "
      "quick: mem = ALL (previous, current) ordered lists (157 x 157) x <=1 root (6), plus ALL (previous set, current set) (79 x 79) x ALL sets of two distinct roots (10) - together every (previous, current, roots) triple of SETS with <=2 paths and <=2 roots; "
      "fs (real tmpfs tree, snapshot before/after) = ALL (previous ordered list, current of <=1 path, <=1 root) = 157 x 13 x 6; "
      "fs link flavour (/r/ab is a symbolic link to the non-empty directory /o outside the root /r): ALL (previous ordered list containing /r/ab, current of <=1 path, <=1 root); "
      "plus mem ALL histories of THREE lists (first of <=1 path (13), second a set (79), third of <=1 path (13)) x <=1 root (6), judged at the third run. "
      "thorough: mem = ALL (previous, current, roots) ordered lists 157 x 157 x 31, plus ALL histories of THREE lists (first of <=1 path (13), second and third sets (79 x 79)) x <=1 root (6), "
      "judged at the third run (their second runs are part of the 157 x 157 x 31 block); "
      "fs = ALL (previous, current) ordered lists 157 x 157 x <=1 root (6), plus ALL (previous set, current set) 79 x 79 x ALL ordered root lists of exactly 2 (25)";
  res.assumptions = {
      "C14 tool: lexical component-wise reference identical to harness/enumx/c14.cpp (split on '/', drop empty components, '.' and '..' are ordinary components); a root covers a path only if both are absolute",
      "C14 tool: a relative root ('r') covers no absolute path (an absolute path cannot lie lexically beneath a relative one); the statement does not speak about relative roots, so nothing is demanded FOR them, only that nothing is removed on their account",
      "C14 tool: when no roots are configured every path listed by the previous run and not listed now must be removed, including relative paths and the empty string (the 'absolute' condition of the statement is attached to 'when roots are configured')",
      "C14 tool: lists are compared as sets of exact strings ('/r/a' and '/r/a/' and '/r//a' are different entries); a duplicate entry in a list means the same as a single one; remove() being called more than once for a path that qualifies is counted (remove_calls_repeating_a_path) but is not a violation",
      "C14 tool: 'removed' is judged at the FileSystem::remove() interface (mem) and additionally on a real tmpfs tree (fs); in fs mode the alphabet is re-rooted under the scratch directory (the root '/' becomes '<world>/'), relative paths resolve against the process cwd inside the world",
      "C14 tool: fs mode, a qualifying path that cannot be resolved any more because an earlier removal of the same run deleted one of its components ('/r' then '/r/../x') only has to name nothing afterwards; the object it would have named physically is allowed but not required to be gone",
      "C14 tool: 'previous successful run' - the stale-file-removal command cannot fail, so every run is successful; histories with failed/cancelled builds in between are not generated here",
      "C14 tool: restart = a new BuildSystem instance on the same SQLite file; the database bytes after a history prefix are snapshotted and restored for every continuation instead of re-running the prefix",
  };

  // ------------------------------------------------------------ replay
  if (!args.replaySpec.empty()) {
    // "<mem|fs>;roots=<list>;h=<list>;<list>[;<list>]"
    std::vector<std::string> f;
    {
      std::string s = args.replaySpec;
      size_t pos = 0;
      while (true) {
        size_t e = s.find(';', pos);
        f.push_back(s.substr(pos, e == std::string::npos ? std::string::npos : e - pos));
        if (e == std::string::npos) break;
        pos = e + 1;
      }
    }
    if (f[0] == "memesc") { gEscapeSlashes = true; f[0] = "mem"; }
    bool ok = f.size() >= 4 && (f[0] == "mem" || f[0] == "fs") && f[1].compare(0, 6, "roots=") == 0 && f[2].compare(0, 2, "h=") == 0;
    List roots;
    std::vector<List> hist;
    if (ok) ok = decList(f[1].substr(6), roots);
    for (size_t i = 2; ok && i < f.size(); ++i) {
      List l;
      ok = decList(i == 2 ? f[i].substr(2) : f[i], l);
      hist.push_back(l);
    }
    if (!ok) { fprintf(stderr, "stalex: bad replay spec\n"); wipe(env.scratch, true); return 3; }
    J.verbose = true;
    Walker w{env, J, f[0] == "fs"};
    w.replay(hist, roots);
    J.flush();
    chdir("/");
    wipe(env.scratch, true);
    res.write(args.out);
    return res.violations.empty() ? 0 : 1;
  }

  // ------------------------------------------------------------ work list
  // kinds (the thorough tier is a superset of the quick tier):
  //  0 mem  previous in PU, current in PU, a set of two distinct roots       (quick only; thorough runs 1 instead)
  //  1 mem  previous in PO, current in PO, exactly two roots                 (thorough)
  //  2 mem  previous in PO, current in PO, <= 1 root                         (both)
  //  3 fs   previous in PO, current of <= 1 path, <= 1 root                  (both)
  //  4 mem  histories of three lists: first of <= 1 path, second and third from PU, <= 1 root   (thorough)
  //  5 fs   previous in PU, current in PU, exactly two roots                 (thorough)
  //  6 fs   previous in PO, current of exactly 2 paths, <= 1 root            (thorough)
  //  7 mem  histories of three lists: first of <= 1 path, second from PU, third of <= 1 path, <= 1 root
  //         (quick only; a subset of 4)
  struct Item { int kind; size_t l1, roots; };
  std::vector<Item> items;
  std::vector<List> R2only(RO.begin() + 1 + NR, RO.end());
  std::vector<List> P2only(PO.begin() + 1 + NP, PO.end());
  auto RU = unorderedLists(kRoots, NR);
  std::vector<List> R2set(RU.begin() + 1 + NR, RU.end());  // the 10 sets of two distinct roots
  if (!args.thorough()) {
    for (size_t i = 0; i < PU.size(); ++i)
      for (size_t r = 0; r < R2set.size(); ++r) items.push_back({0, i, r});
  } else {
    for (size_t i = 0; i < PO.size(); ++i)
      for (size_t r = 0; r < R2only.size(); ++r) items.push_back({1, i, r});
  }
  for (size_t i = 0; i < PO.size(); ++i)
    for (size_t r = 0; r < R1.size(); ++r) items.push_back({2, i, r});
  for (size_t i = 0; i < PO.size(); ++i)
    for (size_t r = 0; r < R1.size(); ++r) items.push_back({3, i, r});
  if (!args.thorough()) {
    for (size_t i = 0; i < P1.size(); ++i)
      for (size_t r = 0; r < R1.size(); ++r) items.push_back({7, i, r});
  }
  //  9 mem  as 2, the description written with every '/' as the YAML escape "\/" (all list elements need unescaping)   (both)
  for (size_t i = 0; i < PO.size(); ++i)
    for (size_t r = 0; r < R1.size(); ++r) items.push_back({9, i, r});
  //  8 fs   link flavour (/r/ab -> ../o): previous in PO containing /r/ab, current of <= 1 path, <= 1 root   (both)
  for (size_t i = 0; i < PO.size(); ++i) {
    bool has = false;
    for (auto& x : PO[i]) if (x == "/r/ab") has = true;
    if (!has) continue;
    for (size_t r = 0; r < R1.size(); ++r) items.push_back({8, i, r});
  }
  if (args.thorough()) {
    for (size_t i = 0; i < PU.size(); ++i)
      for (size_t r = 0; r < R2only.size(); ++r) items.push_back({5, i, r});
    for (size_t i = 0; i < PO.size(); ++i)
      for (size_t r = 0; r < R1.size(); ++r) items.push_back({6, i, r});
    for (size_t i = 0; i < P1.size(); ++i)
      for (size_t r = 0; r < R1.size(); ++r) items.push_back({4, i, r});
  }
  // diagnostics only: --extra kinds=4,5 restricts the run to some work kinds (the result is then marked non-exhaustive)
  if (args.extra.compare(0, 6, "kinds=") == 0) {
    std::set<int> keep;
    for (char c : args.extra.substr(6)) if (c >= '0' && c <= '9') keep.insert(c - '0');
    std::vector<Item> f;
    for (auto& it : items) if (keep.count(it.kind)) f.push_back(it);
    items.swap(f);
    res.exhaustive = false;
  }
  res.counters["work_items_total"] = 0;
  if (args.shard == 0) res.counters["work_items_total"] = (long long)items.size();
  // --seed only rotates the order in which this shard walks its items
  std::vector<size_t> mine;
  for (size_t i = 0; i < items.size(); ++i)
    if ((int)(i % (size_t)args.nshards) == args.shard) mine.push_back(i);
  if (!mine.empty() && args.seed) std::rotate(mine.begin(), mine.begin() + (size_t)(args.seed % (long long)mine.size() + (long long)mine.size()) % mine.size(), mine.end());

  for (size_t idx : mine) {
    if (args.overBudget()) { res.exhaustive = false; res.count("work_items_skipped_budget"); continue; }
    const Item& it = items[idx];
    res.count("work_items_done");
    switch (it.kind) {
    case 0: { Walker w{env, J, false}; w.walk(PU[it.l1], R2set[it.roots], PU, nullptr); break; }
    case 1: { Walker w{env, J, false}; w.walk(PO[it.l1], R2only[it.roots], PO, nullptr); break; }
    case 2: { Walker w{env, J, false}; w.walk(PO[it.l1], R1[it.roots], PO, nullptr); break; }
    case 3: { Walker w{env, J, true}; w.walk(PO[it.l1], R1[it.roots], P1, nullptr); break; }
    case 4: { Walker w{env, J, false, false}; w.walk(P1[it.l1], R1[it.roots], PU, &PU); break; }
    case 5: { Walker w{env, J, true}; w.walk(PU[it.l1], R2only[it.roots], PU, nullptr); break; }
    case 6: { Walker w{env, J, true}; w.walk(PO[it.l1], R1[it.roots], P2only, nullptr); break; }
    case 7: { Walker w{env, J, false, false}; w.walk(P1[it.l1], R1[it.roots], PU, &P1); break; }
    case 8: { Walker w{env, J, true, true, true}; w.walk(PO[it.l1], R1[it.roots], P1, nullptr); break; }
    case 9: { gEscapeSlashes = true; Walker w{env, J, false}; w.walk(PO[it.l1], R1[it.roots], PO, nullptr); gEscapeSlashes = false; break; }
    }
  }
  J.flush();

  chdir("/");
  wipe(env.scratch, true);
  if (!res.write(args.out)) { fprintf(stderr, "stalex: cannot write %s\n", args.out.c_str()); return 2; }
  return res.violations.empty() ? 0 : 1;
}

// ninjax_load: llbuild side of the C17 differential check.
//
//   ninjax_load            co-process mode: read one directory path per line on
//                          stdin, load <dir>/build.ninja through
//                          llbuild::ninja::ManifestLoader (working directory =
//                          <dir>, files read relative to it) and print one JSON
//                          line describing every loaded build statement.
//   ninjax_load --quote    read hex-encoded byte strings (one per line; an
//                          empty line is the empty string) and print the hex of
//                          llbuild::basic::shellEscaped(string) per line.
//
// Every string is hex-encoded so arbitrary bytes survive.  The tool is
// stateless between lines; the driver restarts it when it dies (a crash of the
// loader is itself a finding).
#include "llbuild/Basic/ShellUtility.h"
#include "llbuild/Ninja/Lexer.h"
#include "llbuild/Ninja/Manifest.h"
#include "llbuild/Ninja/ManifestLoader.h"
#include "llbuild/Ninja/Parser.h"

#include "llvm/ADT/SmallString.h"
#include "llvm/Support/MemoryBuffer.h"
#include "llvm/Support/raw_ostream.h"

#include <cstdio>
#include <iostream>
#include <string>
#include <vector>

using namespace llbuild;

static std::string hex(llvm::StringRef s) {
  static const char* d = "0123456789abcdef";
  std::string o;
  o.reserve(s.size() * 2);
  for (unsigned char c : s) {
    o += d[c >> 4];
    o += d[c & 15];
  }
  return o;
}

static std::string unhex(const std::string& s) {
  std::string o;
  auto v = [](char c) { return c <= '9' ? c - '0' : (c | 32) - 'a' + 10; };
  for (size_t i = 0; i + 1 < s.size(); i += 2) o += char(v(s[i]) * 16 + v(s[i + 1]));
  return o;
}

namespace {

class Actions : public ninja::ManifestLoaderActions {
public:
  unsigned numErrors = 0;
  std::string firstError;  // "<file>:<line>:<col>: <message>"

  void initialize(ninja::ManifestLoader*) override {}

  void note(llvm::StringRef filename, llvm::StringRef message, const ninja::Token* at) {
    if (numErrors++ == 0) {
      size_t p = filename.rfind('/');
      std::string base = (p == llvm::StringRef::npos ? filename : filename.substr(p + 1)).str();
      firstError = base;
      if (at) firstError += ":" + std::to_string(at->line) + ":" + std::to_string(at->column);
      firstError += ": " + message.str();
    }
  }

  void error(llvm::StringRef filename, llvm::StringRef message, const ninja::Token& at) override {
    note(filename, message, &at);
  }

  std::unique_ptr<llvm::MemoryBuffer> readFile(llvm::StringRef path, llvm::StringRef forFilename,
                                               const ninja::Token* forToken) override {
    auto res = llvm::MemoryBuffer::getFile(path);
    if (!res) {
      note(forFilename, "unable to read '" + path.str() + "': " + res.getError().message(), forToken);
      return nullptr;
    }
    return std::move(*res);
  }
};

void putList(std::string& o, const char* key, std::vector<ninja::Node*>::const_iterator b,
             std::vector<ninja::Node*>::const_iterator e) {
  o += "\"";
  o += key;
  o += "\":[";
  bool first = true;
  for (; b != e; ++b) {
    if (!first) o += ",";
    first = false;
    o += "\"" + hex((*b)->getScreenPath()) + "\"";
  }
  o += "]";
}

std::string loadOne(const std::string& dir) {
  Actions actions;
  std::string o = "{";
  std::unique_ptr<ninja::Manifest> manifest;
  {
    ninja::ManifestLoader loader(dir, "build.ninja", actions);
    manifest = loader.load();
  }
  o += "\"loaded\":";
  o += manifest ? "true" : "false";
  o += ",\"commands\":[";
  if (manifest) {
    bool first = true;
    for (const ninja::Command* c : manifest->getCommands()) {
      if (!first) o += ",";
      first = false;
      o += "{\"rule\":\"" + hex(c->getRule()->getName()) + "\",";
      putList(o, "outs", c->getOutputs().begin(), c->getOutputs().end());
      o += ",";
      putList(o, "exp", c->explicitInputs_begin(), c->explicitInputs_end());
      o += ",";
      putList(o, "imp", c->implicitInputs_begin(), c->implicitInputs_end());
      o += ",";
      putList(o, "oo", c->orderOnlyInputs_begin(), c->orderOnlyInputs_end());
      o += ",\"command\":\"" + hex(c->getCommandString()) + "\"";
      o += ",\"description\":\"" + hex(c->getDescription()) + "\"";
      o += ",\"depfile\":\"" + hex(c->getDepsFile()) + "\"";
      o += ",\"deps\":" + std::to_string(int(c->getDepsStyle()));
      o += ",\"rspfile\":\"" + hex(c->getRspFile()) + "\"";
      o += ",\"rspfile_content\":\"" + hex(c->getRspFileContent()) + "\"";
      o += ",\"pool\":\"" + (c->getExecutionPool() ? hex(c->getExecutionPool()->getName()) : std::string()) + "\"";
      o += "}";
    }
  }
  o += "],\"defaults\":[";
  if (manifest) {
    bool first = true;
    for (const ninja::Node* n : manifest->getDefaultTargets()) {
      if (!first) o += ",";
      first = false;
      o += "\"" + hex(n->getScreenPath()) + "\"";
    }
  }
  o += "],\"errors\":" + std::to_string(actions.numErrors);
  o += ",\"first_error\":\"" + hex(actions.firstError) + "\"}";
  return o;
}

}  // namespace

int main(int argc, char** argv) {
  bool quote = argc > 1 && std::string(argv[1]) == "--quote";
  std::string line;
  while (std::getline(std::cin, line)) {
    if (quote) {
      std::string s = unhex(line);
      std::string q = basic::shellEscaped(llvm::StringRef(s.data(), s.size()));
      fputs(hex(q).c_str(), stdout);
      fputc('\n', stdout);
    } else {
      std::string r = loadOne(line);
      fputs(r.c_str(), stdout);
      fputc('\n', stdout);
      fflush(stdout);
    }
  }
  fflush(stdout);
  return 0;
}

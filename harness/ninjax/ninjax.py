#!/usr/bin/python3
"""ninjax: C17 "Ninja manifests mean what Ninja says they mean".

Bounded-exhaustive differential check of llbuild's Ninja manifest loader
(lib/Ninja, read in-process by ninjax_load) against the installed reference
/usr/bin/ninja, over ALL manifests of a feature grammar whose total feature
cost is <= K (K=2 quick, K=3 thorough), plus the shell-quoting round trip of
llbuild::basic::shellEscaped over all strings of length <= 4 over a stated
alphabet.  Nothing is sampled: the work list is the full enumeration in
simplest-first order and item i belongs to shard i % nshards.

Command line: see /verif/harness/README.md.  Environment:
  NINJAX_LOADER   path of the ninjax_load binary (default
                  /verif/build/harness/ninjax/ninjax_load)
  NINJAX_NINJA    path of the reference ninja (default /usr/bin/ninja)
  NINJAX_K        override the cost bound (debugging only)
"""
import argparse, itertools, json, os, re, select, shutil, signal, subprocess, sys, time

NINJA = os.environ.get("NINJAX_NINJA", "/usr/bin/ninja")
_ROOT = os.path.dirname(os.path.dirname(os.path.dirname(os.path.abspath(__file__))))
LOADER = os.environ.get("NINJAX_LOADER", os.path.join(_ROOT, "build", "harness", "ninjax", "ninjax_load"))
STATUS = b"@@%f/%t@@ "
MAIN = b"build.ninja"
CHILD = b"child.ninja"


def esc(b):
    """printable rendering of bytes for 'what' lines."""
    out = []
    for c in b:
        if c == 0x5c:
            out.append("\\\\")
        elif c == 0x0a:
            out.append("\\n")
        elif c == 0x0d:
            out.append("\\r")
        elif c == 0x09:
            out.append("\\t")
        elif 0x20 <= c < 0x7f:
            out.append(chr(c))
        else:
            out.append("\\x%02x" % c)
    return "".join(out)


# --------------------------------------------------------------------------
# The manifest grammar: dimensions, each with a default (cost 0) choice.
# --------------------------------------------------------------------------

# Path flavours: how a base name n is written in the manifest.
FLAVOURS = [
    ("plain", lambda n: n),
    ("space", lambda n: n + b"$ b"),            # "n b"
    ("squote", lambda n: n + b"'b"),
    ("dollar", lambda n: n + b"$$b"),           # "n$b"
    ("colon", lambda n: n + b"$:b"),            # "n:b"
    ("utf8", lambda n: n + b"\xc3\xa9"),
    ("xff", lambda n: n + b"\xff"),
    ("x80", lambda n: n + b"\x80"),
    ("var", lambda n: n + b"$p"),               # file-level p = pv
    ("bracevar", lambda n: n + b"${p}z"),
    ("cont", lambda n: n + b"$\n    c"),        # continuation inside a path
]
FLAV = dict(FLAVOURS)
FL_NAMES = [f[0] for f in FLAVOURS]

# @X@ is the name of "the" variable (dimension ident).
XDEF = [
    ("one", b"@X@ = 1\n"),
    ("unbound", b""),
    ("esc-space", b"@X@ = v$ w\n"),
    ("esc-dollar", b"@X@ = $$d\n"),
    ("esc-colon", b"@X@ = a$:b\n"),
    ("ref-y", b"@X@ = $y\n"),
    ("ref-y-brace", b"@X@ = ${y}z\n"),
    ("rebound-self", b"@X@ = 1\n@X@ = $@X@${@X@}2\n"),
    ("continued", b"@X@ = 1$\n     2\n"),
    ("xff", b"@X@ = \xff\n"),
    ("utf8", b"@X@ = \xc3\xa9\n"),
    ("empty", b"@X@ =\n"),
    ("spaced", b"@X@   =   1  \n"),
    ("tight", b"@X@=1\n"),
    ("quote", b"@X@ = it's\n"),
]
IDENT = ["x", "builds", "subninjX", "xrule", "defaultx", "includes", "pool_", "x.y", "x-y", "X_1", "subninja2"]
RNAME = ["r", "xrule", "builds", "subninjX", "defaultr", "includer", "r.s", "r-s", "phonyx", "poolr"]
CMD = [
    ("std", b"true $in $out $@X@"),
    ("braces", b"true ${in} ${out} ${@X@}"),
    ("adjacent", b"true $in$out$@X@"),
    ("dollar", b"true $in $out $$@X@ $@X@$$"),
    ("esc-space", b"true $in $out $@X@$ y$ "),
    ("esc-colon", b"true $in $out $@X@$:y"),
    ("brace-adj", b"true $in $out ${@X@}y $@X@y"),
    ("dot", b"true $in $out $@X@.y ${@X@.y}"),
    ("dash", b"true $in $out $@X@-y $@X@_y"),
    ("continued", b"true $out$\n      $in $@X@"),
    ("ref-desc", b"true $in $out $description"),
    ("twice", b"true $@X@ $in $@X@ $out $in"),
    ("unbound", b"true $in $out $nope."),
    ("hash", b"true $in $out #$@X@"),
    ("colon-lit", b"true $in : $out | $@X@ || true"),
    ("trail-space", b"true $in $out $@X@  "),
    ("kwvars", b"true $in $out $build $rule $default"),
    ("in-newline", b"true $in_newline $out"),
    ("no-in", b"true $@X@"),
    ("quotes", b"true \"$in\" '$out'"),
    ("y", b"true $in $out $y"),
]
DESC = [
    ("none", None),
    ("out-x", b"D $out $@X@"),
    ("in", b"D $in"),
    ("dollar", b"D $$ $@X@"),
    ("x-only", b"$@X@"),
    ("braces", b"D ${out} ${in}"),
    ("empty", b""),
    ("ref-command", b"D $command"),
    ("plain", b"D"),
]
DEPFILE = [
    ("none", None),
    ("out-d", b"$out.d"),
    ("x-d", b"$@X@.d"),
    ("space", b"d$ f"),
    ("in-d", b"$in.d"),
    # the usual `-MF $depfile` idiom: the command refers to the rule's depfile variable, which is built from $out
    # ($in/$out are shell-quoted inside the command but not in the depfile attribute itself)
    ("out-d-cmdref", b"$out.d"),
    ("in-d-cmdref", b"$in.d"),
]
RSP = [
    ("none", None),
    ("out", (b"$out.rsp", b"R $in $out")),
    ("fixed-nl", (b"r.rsp", b"$in_newline")),
    ("x", (b"$out.rsp", b"$@X@ $$ $:")),
    ("x-name", (b"$@X@.rsp", b"$out")),
    ("out-cmdref", (b"$out.rsp", b"R $in $out")),   # `@$rspfile` in the command
]
POOL = ["none", "rule-pool", "decl-only", "console"]
# a file-level variable that has the name of a rule variable the rule does NOT bind (file-level is
# then the fallback in both the manual and ninja); with the rule binding it too, ninja 1.11.1 lets
# the file-level value win for statements without indented bindings, contradicting its manual
FVAR = [("none", b""), ("description", b"description = F $@X@ $out\n"), ("depfile", b"depfile = f$ g.d\n")]
# include/subninja of one generated file.  Child kinds:
#  b   a build using the parent's rule           a   binds x
#  c   binds x then a build using parent's rule  d   own rule + build
#  f   re-defines the parent's rule name, then builds with it
#  ph  a phony build
#  s   binds x to a value that refers to the INHERITED x (x = ${x}s), then a build using the parent's rule
INC = ["none"] + ["%s:%s" % (k, c) for c in ("b", "a", "c", "d", "f", "ph", "s") for k in ("include", "subninja")
                  if (k, c) != ("include", "f")]  # include:f = duplicate rule, always rejected by ninja
INCPOS = ["pre", "post"]
B1_NEXP = ["1", "0", "2"]
B1_OUT2 = ["none", "plain", "space"]
B1_IMP = ["none", "one", "two", "space", "xff"]
B1_OO = ["none", "one", "space", "two"]
B1_BIND = [
    ("none", []),
    ("x", [b"@X@ = 2"]),
    ("x-ref-y", [b"@X@ = $y"]),
    ("x-self", [b"@X@ = $@X@$@X@"]),
    ("x-in", [b"@X@ = [$in$out]"]),
    ("x-esc", [b"@X@ = q$ r$$s$:t"]),
    ("x-empty", [b"@X@ ="]),
    ("x-cont", [b"@X@ = 2$\n        3"]),
    ("x-then-y", [b"@X@ = 2", b"y = $@X@"]),
    ("desc", [b"description = B $@X@ $out"]),
    ("command", [b"command = true B $@X@ $in"]),
    ("depfile", [b"depfile = b.d"]),
    ("kw-build", [b"build = 2", b"rule = 3", b"default = 4"]),
    ("p", [b"p = q"]),
    ("x-xff", [b"@X@ = \xff"]),
    ("x-twice", [b"@X@ = 2", b"@X@ = 3"]),
]
B1_RULE = ["r", "r2", "phony"]
B1_CONT = ["none", "after-rule", "before-colon", "before-pipe", "after-build"]
B1_INDENT = [b"  ", b" ", b"        "]  # ninja rejects tabs
B1_CMT = ["none", "indented-comment", "unindented-comment", "trailing-hash"]
B2 = ["none", "plain", "chain", "shared-in", "bind-x", "r2", "phony", "two-outs", "space-out", "all-classes"]
B3 = ["none", "join", "bind-x"]
DEFAULT = ["none", "b1", "last"]
EOL = ["lf", "crlf", "blank-end", "comment-end", "indented-comment-end"]  # ninja requires a final newline
LEAD = ["none", "comment-top", "blank-top", "comment-in-rule", "unindented-comment-in-rule", "blank-between"]


def names(lst):
    return [c if isinstance(c, str) else c[0] for c in lst]


DIMS = [
    ("b1.out", FL_NAMES),
    ("b1.in", FL_NAMES),
    ("b1.nexp", B1_NEXP),
    ("b1.out2", B1_OUT2),
    ("b1.imp", B1_IMP),
    ("b1.oo", B1_OO),
    ("b1.bind", names(B1_BIND)),
    ("b1.rule", B1_RULE),
    ("b1.cont", B1_CONT),
    ("b1.indent", ["2sp", "1sp", "8sp"]),
    ("b1.cmt", B1_CMT),
    ("xdef", names(XDEF)),
    ("ident", IDENT),
    ("rname", RNAME),
    ("cmd", names(CMD)),
    ("desc", names(DESC)),
    ("depfile", names(DEPFILE)),
    ("rsp", names(RSP)),
    ("pool", POOL),
    ("fvar", names(FVAR)),
    ("inc", INC),
    ("incpos", INCPOS),
    ("b2", B2),
    ("b3", B3),
    ("default", DEFAULT),
    ("eol", EOL),
    ("lead", LEAD),
]
DIM_INDEX = {d[0]: i for i, d in enumerate(DIMS)}
NDIMS = len(DIMS)


def valid(a):
    """Dependent dimensions may be non-default only when their parent is present
    (otherwise the text would duplicate another assignment), and the property's
    exclusion: no file-level binding after a build statement that reads it."""
    g = lambda k: a[DIM_INDEX[k]]
    inc = INC[g("inc")]
    if g("incpos") and inc == "none":
        return False
    if g("incpos"):
        kind, child = inc.split(":")
        # post-position include of a child that binds x would re-bind a file-level
        # variable after build statements that read it: excluded by the statement.
        if kind == "include" and child in ("a", "c", "s"):
            return False
    if g("b3") and not g("b2"):
        return False
    fv = FVAR[g("fvar")][0]
    if fv == "description" and (g("desc") or B1_BIND[g("b1.bind")][0] == "desc"):
        return False
    if fv == "depfile" and (g("depfile") or B1_BIND[g("b1.bind")][0] == "depfile"):
        return False
    if B1_NEXP[g("b1.nexp")] == "0" and g("b1.in"):
        return False
    if DEFAULT[g("default")] == "last" and not g("b2"):
        return False
    if B1_CONT[g("b1.cont")] == "before-pipe" and not (g("b1.imp") or g("b1.oo")):
        return False
    if g("b1.indent") and not (g("b1.bind") or B1_CMT[g("b1.cmt")] in ("indented-comment",)):
        return False
    if B1_CMT[g("b1.cmt")] == "unindented-comment" and not g("b1.bind"):
        return False
    return True


def enumerate_assignments(K):
    """All valid assignments with cost (= number of non-default dimensions) <= K,
    ordered by cost, then by dimension positions, then by choice indices."""
    for k in range(K + 1):
        for dims in itertools.combinations(range(NDIMS), k):
            ranges = [range(1, len(DIMS[d][1])) for d in dims]
            for choice in itertools.product(*ranges):
                a = [0] * NDIMS
                for d, c in zip(dims, choice):
                    a[d] = c
                if valid(a):
                    yield tuple(a)


def features(a):
    return ["%s=%s" % (DIMS[i][0], DIMS[i][1][c]) for i, c in enumerate(a) if c]


def render(a):
    """assignment -> ({filename: bytes}, needs_real_run)"""
    g = lambda k: a[DIM_INDEX[k]]
    ident = IDENT[g("ident")].encode()
    rname = RNAME[g("rname")].encode()
    X = lambda b: b.replace(b"@X@", ident)
    lead = LEAD[g("lead")]
    eol = EOL[g("eol")]

    def rule_block(name, cmd, with_vars):
        s = b"rule " + name + b"\n"
        if with_vars and lead == "comment-in-rule":
            s += b"  # a comment\n"
        if with_vars and lead == "unindented-comment-in-rule":
            s += b"# a comment\n"
        if with_vars and DEPFILE[g("depfile")][0].endswith("-cmdref"):
            cmd = cmd + b" -MF $depfile"
        if with_vars and RSP[g("rsp")][0].endswith("-cmdref"):
            cmd = cmd + b" @$rspfile"
        s += b"  command = " + X(cmd) + b"\n"
        if with_vars:
            d = DESC[g("desc")][1]
            if d is not None:
                s += b"  description =\n" if d == b"" else b"  description = " + X(d) + b"\n"
            d = DEPFILE[g("depfile")][1]
            if d is not None:
                s += b"  depfile = " + X(d) + b"\n"
            d = RSP[g("rsp")][1]
            if d is not None:
                s += b"  rspfile = " + X(d[0]) + b"\n  rspfile_content = " + X(d[1]) + b"\n"
            if POOL[g("pool")] == "rule-pool":
                s += b"  pool = pl\n"
            if POOL[g("pool")] == "console":
                s += b"  pool = console\n"
        return s

    def path(n, fl):
        return FLAV[fl](n)

    # ---- build statement 1
    b1rule = {"r": rname, "r2": b"r2", "phony": b"phony"}[B1_RULE[g("b1.rule")]]
    outs = [path(b"o1", FL_NAMES[g("b1.out")])]
    o2 = B1_OUT2[g("b1.out2")]
    if o2 == "plain":
        outs.append(b"o1b")
    elif o2 == "space":
        outs.append(b"o1$ c")
    nexp = int(B1_NEXP[g("b1.nexp")])
    exps = []
    if nexp >= 1:
        exps.append(path(b"i1", FL_NAMES[g("b1.in")]))
    if nexp == 2:
        exps.append(b"j1")
    imps = {"none": [], "one": [b"m1"], "two": [b"m1", b"m2"], "space": [b"m$ 1"], "xff": [b"m\xff"]}[B1_IMP[g("b1.imp")]]
    oos = {"none": [], "one": [b"k1"], "space": [b"k$ 1"], "two": [b"k1", b"k2"]}[B1_OO[g("b1.oo")]]
    cont = B1_CONT[g("b1.cont")]
    CONT = b" $\n    "
    line = b"build" + (CONT if cont == "after-build" else b" ") + b" ".join(outs)
    line += (b" $\n  : " if cont == "before-colon" else b": ") + b1rule
    if exps:
        line += (CONT if cont == "after-rule" else b" ") + b" ".join(exps)
    pipe_sep = CONT if cont == "before-pipe" else b" "
    if imps:
        line += pipe_sep + b"| " + b" ".join(imps)
        pipe_sep = b" "
    if oos:
        line += pipe_sep + b"|| " + b" ".join(oos)
    cmt = B1_CMT[g("b1.cmt")]
    b1 = line + b"\n"
    indent = B1_INDENT[g("b1.indent")]
    binds = [X(b) for b in B1_BIND[g("b1.bind")][1]]
    if cmt == "indented-comment":
        b1 += indent + b"# a comment\n"
    if cmt == "unindented-comment":
        b1 += b"# a comment\n"
    for i, b in enumerate(binds):
        if cmt == "trailing-hash" and i == 0:
            b += b" # not a comment"
        b1 += indent + b + b"\n"
    if cmt == "trailing-hash" and not binds:
        b1 += indent + X(b"@X@ = 5 # not a comment") + b"\n"

    # ---- build statements 2, 3
    b2k = B2[g("b2")]
    o1plain = b" ".join(outs[:1])
    b2 = {
        "none": b"",
        "plain": b"build o2: " + rname + b" i2\n",
        "chain": b"build o2: " + rname + b" " + outs[0] + b"\n",
        "shared-in": b"build o2: " + rname + b" " + (exps[0] if exps else b"i1") + b"\n",
        "bind-x": b"build o2: " + rname + X(b" i2\n  @X@ = 3\n"),
        "r2": b"build o2: r2 i2\n",
        "phony": b"build o2: phony " + outs[0] + b"\n",
        "two-outs": b"build o2 o2b: " + rname + b" i2 j2\n",
        "space-out": b"build o$ 2: " + rname + b" i$ 2\n",
        "all-classes": b"build o2: " + rname + b" i2 | m2x || k2x\n",
    }[b2k]
    b2out = {"space-out": b"o$ 2"}.get(b2k, b"o2")
    b3k = B3[g("b3")]
    b3 = {
        "none": b"",
        "join": b"build o3: " + rname + b" " + outs[0] + b" " + b2out + b"\n",
        "bind-x": b"build o3: " + rname + X(b" i3\n  @X@ = 4\n"),
    }[b3k]

    # ---- include / subninja
    inc = INC[g("inc")]
    inc_stmt = b""
    files = {}
    if inc != "none":
        kind, child = inc.split(":")
        inc_stmt = kind.encode() + b" " + CHILD + b"\n"
        body = {
            "b": b"build oc: " + rname + b" ic\n",
            "a": X(b"@X@ = c\n"),
            "c": X(b"@X@ = c\n") + b"build oc: " + rname + b" ic\n",
            "d": b"rule rc\n  command = true RC $in $out " + X(b"$@X@") + b"\nbuild oc: rc ic\n",
            "f": b"rule " + rname + b"\n  command = true CHILD $in $out " + X(b"$@X@") + b"\nbuild oc: " + rname + b" ic\n",
            "ph": b"build oc: phony ic\n",
            "s": X(b"@X@ = ${@X@}s\n") + b"build oc: " + rname + b" ic\n",
        }[child]
        files[CHILD] = body

    uses_r2 = b1rule == b"r2" or b2k == "r2"
    # ---- assemble
    s = b""
    if lead == "comment-top":
        s += b"# a comment $x = ${\n"
    if lead == "blank-top":
        s += b"\n\n"
    body_probe = b"".join([X(c[1]) for c in [CMD[g("cmd")]]] + [X(XDEF[g("xdef")][1]), b1, b2, b3]
                          + [X(v) for v in [DESC[g("desc")][1] or b"", DEPFILE[g("depfile")][1] or b""]])
    if b"$y" in body_probe or b"${y}" in body_probe:
        s += b"y = 7\n"
    if b"$p" in body_probe or b"${p}" in body_probe:
        s += b"p = pv\n"
    s += X(XDEF[g("xdef")][1])
    s += X(FVAR[g("fvar")][1])
    if lead == "blank-between":
        s += b"\n"
    if POOL[g("pool")] in ("rule-pool", "decl-only"):
        s += b"pool pl\n  depth = 1\n"
    s += rule_block(rname, CMD[g("cmd")][1], True)
    if lead == "blank-between":
        s += b"\n"
    if uses_r2:
        s += rule_block(b"r2", b"true R2 $out $in $@X@", False)
    post = INCPOS[g("incpos")] == "post"
    if not post:
        s += inc_stmt
    s += b1 + b2 + b3
    if post:
        s += inc_stmt
    d = DEFAULT[g("default")]
    if d == "b1":
        s += b"default " + outs[0] + b"\n"
    elif d == "last":
        s += b"default " + b2out + b"\n"
    if eol == "blank-end":
        s += b"\n\n"
    elif eol == "comment-end":
        s += b"# the end\n"
    elif eol == "indented-comment-end":
        s += b"  # the end\n"
    elif eol == "crlf":
        s = s.replace(b"\n", b"\r\n")
        files = {k: v.replace(b"\n", b"\r\n") for k, v in files.items()}
    files[MAIN] = s
    return files, g("rsp") != 0


# --------------------------------------------------------------------------
# Running the two tools
# --------------------------------------------------------------------------

class HarnessError(Exception):
    pass


class Loader:
    """ninjax_load co-process; restarted after a crash or hang."""

    def __init__(self):
        self.p = None

    def start(self):
        self.p = subprocess.Popen([LOADER], stdin=subprocess.PIPE, stdout=subprocess.PIPE, stderr=subprocess.DEVNULL)

    def stop(self):
        if self.p:
            try:
                self.p.stdin.close()
            except Exception:
                pass
            try:
                self.p.kill()
            except Exception:
                pass
            self.p.wait()
            self.p = None

    def load(self, wdir):
        """returns ('ok', record) | ('crash', signal/rc) | ('hang', None)"""
        if self.p is None or self.p.poll() is not None:
            self.stop()
            self.start()
        try:
            self.p.stdin.write(wdir.encode() + b"\n")
            self.p.stdin.flush()
        except BrokenPipeError:
            self.stop()
            return ("crash", "broken pipe")
        buf = b""
        fd = self.p.stdout.fileno()
        deadline = time.monotonic() + 20
        while not buf.endswith(b"\n"):
            r, _, _ = select.select([fd], [], [], max(0, deadline - time.monotonic()))
            if not r:
                self.stop()
                return ("hang", None)
            chunk = os.read(fd, 1 << 16)
            if not chunk:
                rc = self.p.wait()
                self.p = None
                return ("crash", "exit status %d" % rc)
            buf += chunk
        rec = json.loads(buf.decode())
        H = bytes.fromhex
        out = {"errors": rec["errors"], "first_error": H(rec["first_error"]), "loaded": rec["loaded"],
               "defaults": [H(x) for x in rec["defaults"]], "commands": []}
        for c in rec["commands"]:
            out["commands"].append({
                "rule": H(c["rule"]), "outs": [H(x) for x in c["outs"]], "exp": [H(x) for x in c["exp"]],
                "imp": [H(x) for x in c["imp"]], "oo": [H(x) for x in c["oo"]], "command": H(c["command"]),
                "description": H(c["description"]), "depfile": H(c["depfile"]), "rspfile": H(c["rspfile"]),
                "rspfile_content": H(c["rspfile_content"])})
        return ("ok", out)


def ninja_quote(p):
    """Ninja's GetShellEscapedString (util.cc)."""
    if p and all(c in b"abcdefghijklmnopqrstuvwxyzABCDEFGHIJKLMNOPQRSTUVWXYZ0123456789_+-./" for c in p):
        return p
    if not p:
        return p
    return b"'" + p.replace(b"'", b"'\\''") + b"'"


LL_SAFE = b"abcdefghijklmnopqrstuvwxyzABCDEFGHIJKLMNOPQRSTUVWXYZ1234567890-_/:@#%+=.,"  # ShellUtility.cpp whitelist


class World:
    def __init__(self, root):
        self.root = root
        self.w = os.path.join(root, "w")
        self.wb = self.w.encode()
        self.loader = Loader()
        self.env = dict(os.environ)
        self.env["NINJA_STATUS"] = STATUS.decode()
        self.env.pop("NINJA_FLAGS", None)
        self.env["TERM"] = "dumb"
        self.env["LC_ALL"] = "C"
        self.nspawn = 0

    def reset(self, files):
        if os.path.isdir(self.w):
            shutil.rmtree(self.w)
        os.mkdir(self.w)
        for name, data in files.items():
            with open(os.path.join(self.wb, name), "wb") as f:
                f.write(data)

    def ninja(self, args):
        self.nspawn += 1
        p = subprocess.run([NINJA.encode(), b"-f", MAIN] + args, cwd=self.w, env=self.env, stdin=subprocess.DEVNULL,
                           stdout=subprocess.PIPE, stderr=subprocess.PIPE, timeout=60)
        return p.returncode, p.stdout, p.stderr

    @staticmethod
    def depfile_messages(err):
        PRE = b"ninja explain: depfile '"
        SUF = b"' is missing\n"
        lst = []
        k = err.find(PRE)
        while k >= 0:
            k2 = err.find(SUF, k)
            if k2 < 0:
                raise HarnessError("explain output: %r" % err)
            lst.append(err[k + len(PRE):k2])
            k = err.find(PRE, k2)
        return lst

    # ---- reference side -------------------------------------------------
    def ninja_side(self, real_run):
        """returns None if ninja rejects the manifest, else a list of edges:
        {rule, outs, exp, imp, oo, command, description(effective), depfile, phony}
        plus, with real_run, 'rsp': {name: content}."""
        rc, out, err = self.ninja([b"-t", b"targets", b"all"])
        self.last_err = err + out
        if rc != 0:
            return None
        targets = []
        for ln in out.split(b"\n"):
            if not ln:
                continue
            i = ln.rfind(b": ")
            if i < 0:
                raise HarnessError("targets line %r" % ln)
            targets.append((ln[:i], ln[i + 2:]))
        res = {"edges": [], "rsp": None}
        if not targets:
            return res
        allouts = [t[0] for t in targets]
        # -- inputs per output
        rc, out, err = self.ninja([b"-t", b"query"] + allouts)
        if rc != 0:
            raise HarnessError("query failed: %r" % err)
        q = {}
        cur = None
        state = None
        for ln in out.split(b"\n"):
            if not ln:
                continue
            if not ln.startswith(b" "):
                if not ln.endswith(b":"):
                    raise HarnessError("query line %r" % ln)
                cur = {"rule": None, "exp": [], "imp": [], "oo": []}
                q[ln[:-1]] = cur
                state = None
            elif ln.startswith(b"  input: "):
                cur["rule"] = ln[9:]
                state = "in"
            elif ln == b"  outputs:":
                state = "out"
            elif ln.startswith(b"  validations:") or ln.startswith(b"  validation "):
                state = "val"
            elif ln.startswith(b"    "):
                v = ln[4:]
                if state == "in":
                    if v.startswith(b"|| "):
                        cur["oo"].append(v[3:])
                    elif v.startswith(b"| "):
                        cur["imp"].append(v[2:])
                    else:
                        cur["exp"].append(v)
            else:
                raise HarnessError("query line %r" % ln)
        # -- grouping of outputs into edges
        rc, out, err = self.ninja([b"-t", b"graph"] + allouts)
        if rc != 0:
            raise HarnessError("graph failed: %r" % err)
        label = {}
        ellipse = set()
        arrows = []
        for ln in out.split(b"\n"):
            m = re.match(rb'^"(0x[0-9a-f]+)" \[label="(.*)"(, shape=ellipse)?\]$', ln, re.S)
            if m:
                if m.group(3):
                    ellipse.add(m.group(1))
                else:
                    label[m.group(1)] = m.group(2)
                continue
            m = re.match(rb'^"(0x[0-9a-f]+)" -> "(0x[0-9a-f]+)"( \[.*\])?$', ln)
            if m:
                arrows.append((m.group(1), m.group(2), m.group(3)))
        group_of = {}
        for e in ellipse:
            outs = [label.get(b) for (a, b, attr) in arrows if a == e and attr is None]
            for o in outs:
                group_of[o] = e
        # -- create every source file (an input no edge produces)
        produced = set(allouts)
        for o in allouts:
            if o not in q:
                raise HarnessError("query has no block for %r" % o)
            for p in q[o]["exp"] + q[o]["imp"] + q[o]["oo"]:
                if p not in produced:
                    fp = os.path.join(self.wb, p)
                    if not os.path.exists(fp):
                        open(fp, "wb").close()
        # -- assemble edges in manifest order
        edges = []
        i = 0
        while i < len(targets):
            o, rule = targets[i]
            outs = [o]
            gid = group_of.get(o)
            j = i + 1
            while gid is not None and j < len(targets) and group_of.get(targets[j][0]) == gid:
                outs.append(targets[j][0])
                j += 1
            e = dict(q[o])
            for oo in outs[1:]:
                if q[oo] != q[o]:
                    raise HarnessError("outputs of one edge disagree in query: %r %r" % (o, oo))
            if e["rule"] is None:
                raise HarnessError("no in-edge for %r" % o)
            e["outs"] = outs
            e["phony"] = e["rule"] == b"phony"
            edges.append(e)
            i = j
        for e in edges:
            if e["phony"]:
                e["command"] = b""
                e["description"] = b""
                rc, out, err = self.ninja([b"-d", b"explain", b"-n", b"-j1", e["outs"][0]])
                if rc != 0:
                    self.last_err = err + out
                    return None
                e["_depmsgs"] = self.depfile_messages(err)
                continue
            rc, out, err = self.ninja([b"-t", b"commands", b"-s", e["outs"][0]])
            if rc != 0:
                # e.g. "cycle in rule variables": ninja rejects the manifest at evaluation time
                self.last_err = err + out
                return None
            e["command"] = out[:-1] if out.endswith(b"\n") else out
            rc, out, err = self.ninja([b"-d", b"explain", b"-n", b"-j1", e["outs"][0]])
            if rc != 0:
                self.last_err = err + out
                return None
            # the last status line belongs to the requested edge
            k = out.rfind(b"\n@@")
            start = 0 if k < 0 else k + 1
            if not out.startswith(b"@@", start):
                raise HarnessError("no status line: %r" % out)
            body = out[start:]
            m = re.match(rb"^@@\d+/\d+@@ ", body)
            if not m:
                raise HarnessError("status line: %r" % body)
            body = body[m.end():]
            if body.endswith(b"\n"):
                body = body[:-1]
            e["description"] = body
            # every "depfile 'X' is missing" explanation, in order: the requested edge is visited
            # first (RecomputeNodeDirty loads an edge's deps before it visits the inputs), then the
            # edges it depends on; attribution is done below by counting.
            e["_depmsgs"] = self.depfile_messages(err)
        producer = {}
        for idx, e in enumerate(edges):
            for o in e["outs"]:
                producer[o] = idx
        closure = []
        for idx, e in enumerate(edges):
            seen = set()
            stack = [idx]
            while stack:
                x = stack.pop()
                if x in seen:
                    continue
                seen.add(x)
                for p in edges[x]["exp"] + edges[x]["imp"] + edges[x]["oo"]:
                    if p in producer:
                        stack.append(producer[p])
            seen.discard(idx)
            closure.append(seen)
        for idx in sorted(range(len(edges)), key=lambda i: len(closure[i])):
            e = edges[idx]
            below = sum(1 for x in closure[idx] if edges[x].get("depfile"))
            msgs = e.pop("_depmsgs")
            if len(msgs) == below:
                e["depfile"] = b""
            elif len(msgs) == below + 1:
                e["depfile"] = msgs[0]
            else:
                raise HarnessError("depfile explanations %r do not fit the dependency closure of %r" % (msgs, e["outs"]))
        res["edges"] = edges
        if real_run:
            before = set(os.listdir(self.wb))
            tg = [e["outs"][0] for e in edges if not e["phony"]]
            if tg:
                rc, out, err = self.ninja([b"-d", b"keeprsp", b"-j1", b"-k", b"0"] + tg)
                new = set(os.listdir(self.wb)) - before - {b".ninja_log", b".ninja_deps"}
                d = {}
                for n in new:
                    with open(os.path.join(self.wb, n), "rb") as f:
                        d[n] = f.read()
                # a command that /bin/sh cannot run (the manifest's own text, e.g. an unbalanced
                # quote) leaves its response file behind but may keep dependents from running
                res["rsp"] = ("ok" if rc == 0 else "failed", d, out + err)
        return res


# --------------------------------------------------------------------------
# Comparison
# --------------------------------------------------------------------------

def sh_canon(s):
    """Canonical form of a string modulo POSIX-shell *quoting style*: a list of
    ('s', whitespace-run) and ('w', word-after-quote-removal) tokens.  Only quote
    removal is modelled ('..', "..", backslash); operators, expansions and
    comments are ordinary characters, and both sides go through the same
    function, so two strings with equal canonical forms are read identically by
    /bin/sh.  An unterminated quote extends to the end of the string."""
    toks = []
    i, n = 0, len(s)
    word = None
    while i < n:
        c = s[i:i + 1]
        if c in (b" ", b"\t", b"\n"):
            if word is not None:
                toks.append(("w", word))
                word = None
            j = i
            while j < n and s[j:j + 1] in (b" ", b"\t", b"\n"):
                j += 1
            toks.append(("s", s[i:j]))
            i = j
            continue
        if word is None:
            word = b""
        if c == b"'":
            j = s.find(b"'", i + 1)
            if j < 0:
                j = n
            word += s[i + 1:j]
            i = j + 1
        elif c == b'"':
            i += 1
            while i < n and s[i:i + 1] != b'"':
                if s[i:i + 1] == b"\\" and i + 1 < n and s[i + 1:i + 2] in (b"$", b"`", b'"', b"\\", b"\n"):
                    word += s[i + 1:i + 2]
                    i += 2
                else:
                    word += s[i:i + 1]
                    i += 1
            i += 1
        elif c == b"\\" and i + 1 < n:
            word += s[i + 1:i + 2]
            i += 2
        else:
            word += c
            i += 1
    if word is not None:
        toks.append(("w", word))
    return toks


def same_modulo_quoting(a, b):
    return a == b or sh_canon(a) == sh_canon(b)


def compare(world, nin, ll):
    """-> list of diffs {kind, edge (index or None), what, nin, ll}; updates stats dict"""
    diffs = []
    stats = {"quote_style_only": 0}
    if ll["errors"] or not ll["loaded"]:
        msg = ll["first_error"]
        m = re.match(rb"^([^:]*):(\d+):(\d+): (.*)$", msg, re.S)
        text = m.group(4) if m else msg
        diffs.append({"kind": "error", "edge": None, "msg": text, "file": m.group(1) if m else b"",
                      "line": int(m.group(2)) if m else 0,
                      "what": "llbuild reports %d error(s), first: %s; ninja accepts the manifest" % (ll["errors"], esc(msg))})
        return diffs, stats
    ne, le = nin["edges"], ll["commands"]
    if len(ne) != len(le):
        diffs.append({"kind": "count", "edge": None,
                      "what": "ninja has %d build statements %s, llbuild loaded %d %s" % (
                          len(ne), [esc(b" ".join(e["outs"])) for e in ne], len(le), [esc(b" ".join(c["outs"])) for c in le])})
        return diffs, stats
    for i, (e, c) in enumerate(zip(ne, le)):
        def d(kind, a, b):
            diffs.append({"kind": kind, "edge": i, "nin": a, "ll": b,
                          "what": "build statement %d (%s): %s: ninja %s llbuild %s" % (
                              i + 1, esc(b" ".join(e["outs"])), kind,
                              esc(a) if isinstance(a, bytes) else [esc(x) for x in a],
                              esc(b) if isinstance(b, bytes) else [esc(x) for x in b])})
        if e["outs"] != c["outs"]:
            d("outputs", e["outs"], c["outs"])
        if e["rule"] != c["rule"]:
            d("rule", e["rule"], c["rule"])
        if e["exp"] != c["exp"]:
            d("explicit-inputs", e["exp"], c["exp"])
        if e["imp"] != c["imp"]:
            d("implicit-inputs", e["imp"], c["imp"])
        if e["oo"] != c["oo"]:
            d("order-only-inputs", e["oo"], c["oo"])
        if e["depfile"] != c["depfile"]:
            d("depfile", e["depfile"], c["depfile"])
        if e["phony"]:
            continue
        if e["command"] != c["command"]:
            if same_modulo_quoting(e["command"], c["command"]):
                stats["quote_style_only"] += 1
            else:
                d("command", e["command"], c["command"])
        # ninja's status line shows the description, or the command when the description is empty
        eff = c["description"] if c["description"] else c["command"]
        if not c["description"] and e["description"] == e["command"]:
            pass  # both sides fall back to the command, which was compared above
        elif e["description"] != eff:
            if same_modulo_quoting(e["description"], eff):
                stats["quote_style_only"] += 1
            else:
                d("description", e["description"], eff)
    if nin["rsp"] is not None:
        nd = nin["rsp"][1]
        complete = nin["rsp"][0] == "ok"
        names_ll = [c["rspfile"] for c in le if c["rspfile"]]
        if len(set(names_ll)) == len(names_ll):
            ld = {}
            for i, c in enumerate(le):
                if c["rspfile"]:
                    ld[c["rspfile"]] = (i, c["rspfile_content"])
            nd_abs = {os.path.join(world.wb, k): v for k, v in nd.items()}
            for k in sorted(set(nd_abs) | set(ld)):
                if k not in ld:
                    diffs.append({"kind": "rspfile", "edge": None, "nin": k, "ll": b"",
                                  "what": "rspfile: ninja wrote response file %s, no llbuild build statement names it (llbuild: %s)" % (
                                      esc(k), [esc(x) for x in sorted(ld)])})
                elif k not in nd_abs:
                    if not complete:
                        continue
                    diffs.append({"kind": "rspfile", "edge": ld[k][0], "nin": b"", "ll": k,
                                  "what": "rspfile: llbuild build statement %d names response file %s, ninja wrote %s" % (
                                      ld[k][0] + 1, esc(k), [esc(x) for x in sorted(nd_abs)])})
                elif nd_abs[k] != ld[k][1]:
                    if same_modulo_quoting(nd_abs[k], ld[k][1]):
                        stats["quote_style_only"] += 1
                    else:
                        diffs.append({"kind": "rspfile_content", "edge": ld[k][0], "nin": nd_abs[k], "ll": ld[k][1],
                                      "what": "build statement %d: rspfile_content: ninja %s llbuild %s" % (
                                          ld[k][0] + 1, esc(nd_abs[k]), esc(ld[k][1]))})
        else:
            stats["rsp_name_collision"] = 1
    return diffs, stats


def evaluate(world, files, real_run):
    """-> (status, nin, ll, diffs, stats); status in rejected | ok | diffs | crash | hang"""
    world.reset(files)
    nin = world.ninja_side(real_run)
    if nin is None:
        return ("rejected", None, None, [], {})
    # llbuild sees the directory as ninja left it minus ninja's own by-products
    st, ll = world.loader.load(world.w)
    if st == "crash":
        return ("crash", nin, ll, [{"kind": "crash", "edge": None, "what": "ninjax_load died (%s) on a manifest ninja accepts" % ll}], {})
    if st == "hang":
        return ("hang", nin, None, [{"kind": "hang", "edge": None, "what": "ninjax_load did not answer within 20 s"}], {})
    diffs, stats = compare(world, nin, ll)
    return ("diffs" if diffs else "ok", nin, ll, diffs, stats)


# --------------------------------------------------------------------------
# Classification: named matchers for understood defects, else field + minimal
# feature set.
# --------------------------------------------------------------------------

def strip_keys(ll):
    return json.dumps({"e": ll["errors"], "c": [[c[k] if isinstance(c[k], list) else [c[k]] for k in sorted(c)] for c in ll["commands"]]},
                      default=lambda b: b.hex(), sort_keys=True)


def load_variant(world, variant, original):
    """llbuild's reading of a variant of the files (the directory is restored afterwards)"""
    for name, data in variant.items():
        with open(os.path.join(world.wb, name), "wb") as f:
            f.write(data)
    st, ll2 = world.loader.load(world.w)
    for name, data in original.items():
        with open(os.path.join(world.wb, name), "wb") as f:
            f.write(data)
    return st, ll2


def named_class(world, files, nin, ll, diffs, real_run):
    """Return {diff index: class} for the diffs explained by a known narrow matcher."""
    out = {}
    if not diffs:
        return out
    kind0 = diffs[0]["kind"]
    if kind0 == "crash":
        return {0: "C17.loader-crash"}
    if kind0 == "hang":
        return {0: "C17.loader-hang"}
    # D4: llbuild behaves exactly as if each file ended at its first 0xFF byte
    if any(b"\xff" in v for v in files.values()):
        trunc = {k: (v[:v.index(b"\xff")] if b"\xff" in v else v) for k, v in files.items()}
        saved = {k: v for k, v in files.items()}
        for name, data in trunc.items():
            with open(os.path.join(world.wb, name), "wb") as f:
                f.write(data)
        st, ll2 = world.loader.load(world.w)
        for name, data in saved.items():
            with open(os.path.join(world.wb, name), "wb") as f:
                f.write(data)
        if st == "ok" and strip_keys(ll2) == strip_keys(ll):
            return {i: "C17.byte-0xff-ends-file" for i in range(len(diffs))}
    if kind0 == "error":
        d = diffs[0]
        src = files.get(d["file"], b"")
        lines = re.split(rb"\r\n|\n", src)
        line = lines[d["line"] - 1] if 0 < d["line"] <= len(lines) else b""
        m = re.match(rb"^(subninj[A-Za-z0-9_.-])(?![A-Za-z0-9_.-])", line)
        if m and m.group(1) != b"subninja":
            return {0: "C17.subninj-prefix-keyword"}
        if d["msg"] == b"unknown target name" and line.startswith(b"default ") and b"$" in line:
            return {0: "C17.default-path-not-evaluated"}
        if d["msg"] == b"unknown rule" and d["file"] == CHILD and re.search(rb"(^|\n)subninja ", files[MAIN]):
            return {0: "C17.subninja-parent-rule-not-visible"}
        if d["msg"].startswith(b"invalid '$'-escape") and any(b"$\r\n" in v for v in files.values()):
            # repair: the same manifest with LF line ends loads without difference
            st2, ll2 = load_variant(world, {k: v.replace(b"$\r\n", b"$\n") for k, v in files.items()}, files)
            if st2 == "ok" and not (ll2["errors"] and b"invalid '$'-escape" in ll2["first_error"]):
                return {0: "C17.crlf-continuation-inside-value-or-path"}
        nxt = lines[d["line"]] if d["line"] < len(lines) else b""
        prev = lines[d["line"] - 2] if d["line"] >= 2 else b""
        BIND = rb"^[ \t]+[A-Za-z0-9_.-]+[ \t]*="
        # a comment line in column 0 inside a rule/build block: ninja skips comment lines before it
        # looks at indentation, llbuild ends the block there
        if d["msg"] == b"unexpected token" and prev.startswith(b"#") and re.match(BIND, line):
            return {0: "C17.unindented-comment-ends-binding-block"}
        if d["msg"] == b"missing 'command' variable assignment" and line.startswith(b"rule ") and nxt.startswith(b"#"):
            return {0: "C17.unindented-comment-ends-binding-block"}
        # an indented comment line outside any block
        if d["msg"] == b"unexpected token" and re.match(rb"^[ \t]+#", line):
            return {0: "C17.indented-comment-outside-block"}
        return out
    if kind0 == "count":
        return out
    # per-edge matchers
    ne = nin["edges"]
    # build line of edge i: the i-th 'build' statement in reading order is not
    # reconstructed here; the path-variable matcher looks at the whole manifest.
    text = files[MAIN]
    for i, d in enumerate(diffs):
        e = ne[d["edge"]] if d["edge"] is not None else None
        if i not in out and d["kind"] in ("command", "description", "rspfile_content") and e is not None:
            # llbuild's set of characters that need no quoting is larger than ninja's (: @ # % = ,);
            # visible (beyond quoting style) only where the template puts $in/$out inside double quotes
            v = d["nin"]
            for p in e["exp"] + e["outs"]:
                if ninja_quote(p) != p and all(c in LL_SAFE for c in p):
                    v = v.replace(ninja_quote(p), p)
            if v == d["ll"]:
                out[i] = "C17.shell-safe-character-set-differs"
        if i not in out and d["kind"] in ("description", "rspfile_content") and e is not None:
            qin = b" ".join(ninja_quote(p) for p in e["exp"])
            uin = b" ".join(e["exp"])
            qout = b" ".join(ninja_quote(p) for p in e["outs"])
            uout = b" ".join(e["outs"])
            qinl = b"\n".join(ninja_quote(p) for p in e["exp"])
            uinl = b"\n".join(e["exp"])
            cands = set()
            v = d["nin"]
            for a in (v, v.replace(qin, uin) if qin else v):
                for b in (a, a.replace(qout, uout) if qout else a):
                    for c in (b, b.replace(qinl, uinl) if qinl else b):
                        cands.add(c)
            cands.discard(v)
            if d["ll"] in cands:
                out[i] = "C17.in-out-quoting-outside-command"
    # build-line paths that reference $p while the statement binds p at build level
    for m in re.finditer(rb"(?m)^build[ \t]((?:[^\n$]|\$.|\$\n)*)\n((?:(?:[ \t]+|#)[^\n]*\n?)*)", text):
        if re.search(rb"\$p\b|\$\{p\}", m.group(1)) and re.search(rb"(?m)^[ \t]+p[ \t]*=", m.group(2)):
            # which edge?  the one whose ninja outputs contain the build-level value
            for i, d in enumerate(diffs):
                if i not in out and d["kind"] == "rspfile" and d["edge"] is None and b"q" in d["nin"][len(world.wb):]:
                    out[i] = "C17.build-line-path-sees-build-level-binding"
                if i not in out and d["edge"] is not None and d["kind"] in (
                        "outputs", "explicit-inputs", "implicit-inputs", "order-only-inputs", "command", "description",
                        "depfile", "rspfile", "rspfile_content"):
                    e = ne[d["edge"]]
                    if any(b"q" in p for p in e["outs"] + e["exp"]):
                        out[i] = "C17.build-line-path-sees-build-level-binding"
    return out


def slug(s):
    return re.sub(r"[^a-z0-9]+", "-", s.lower()).strip("-")[:40]


def diff_signature(d):
    if d["kind"] == "error":
        return "llbuild-error-" + slug(d["msg"].decode("latin-1"))
    return d["kind"]


# --------------------------------------------------------------------------
# Quoting round trip
# --------------------------------------------------------------------------

Q_ALPHA_QUICK = [b"a", b" ", b"'", b'"', b"$", b"\\", b"*", b"\n"]
Q_ALPHA_THOROUGH = Q_ALPHA_QUICK + [b";", b"&", b"|", b"~", b"!", b"#", b"("]
Q_MAXLEN = 4
Q_BATCH = 256


def quote_strings(alpha):
    for n in range(0, Q_MAXLEN + 1):
        for t in itertools.product(alpha, repeat=n):
            yield b"".join(t)


def llbuild_quote(strings):
    p = subprocess.run([LOADER, "--quote"], input=b"".join(s.hex().encode() + b"\n" for s in strings),
                       stdout=subprocess.PIPE, stderr=subprocess.PIPE)
    if p.returncode != 0:
        raise HarnessError("ninjax_load --quote failed: rc=%d %r" % (p.returncode, p.stderr))
    lines = p.stdout.split(b"\n")
    if lines and lines[-1] == b"":
        lines.pop()
    if len(lines) != len(strings):
        raise HarnessError("ninjax_load --quote: %d answers for %d strings" % (len(lines), len(strings)))
    return [bytes.fromhex(l.decode()) for l in lines]


def sh_roundtrip(quoted_list):
    """one sh process; returns the list of strings sh printed, or None if the
    script as a whole misbehaved"""
    script = b"".join(b"printf '%s\\0' " + q + b"\n" for q in quoted_list)
    p = subprocess.run([b"/bin/sh", b"-c", script], stdin=subprocess.DEVNULL, stdout=subprocess.PIPE,
                       stderr=subprocess.PIPE, cwd="/", env={"PATH": "/usr/bin:/bin", "HOME": "/nonexistent"})
    parts = p.stdout.split(b"\0")
    if p.returncode != 0 or len(parts) != len(quoted_list) + 1 or parts[-1] != b"":
        return None
    return parts[:-1]


def quote_class(s, q):
    """narrow class for a failing round trip: the shape of the string"""
    if q == s and s[:1] == b"#":
        return "C17.shell-quote.hash-first-unquoted"
    if q == s and s[:1] == b"~":
        return "C17.shell-quote.tilde-first-unquoted"
    if q == s and s == b"":
        return "C17.shell-quote.empty-string-unquoted"
    if q == s:
        chars = sorted(set(esc(bytes([c])) for c in s if bytes([c]) not in b"abcdefghijklmnopqrstuvwxyz"))
        return "C17.shell-quote.unquoted-" + slug("-".join("x%02x" % ord(c[0]) if len(c) == 1 else c for c in chars))
    return "C17.shell-quote.other-" + slug("-".join("x%02x" % c for c in sorted(set(s))))


# --------------------------------------------------------------------------
# Main
# --------------------------------------------------------------------------

ASSUMPTIONS = [
    "reference semantics = the behaviour of /usr/bin/ninja 1.11.1 (-t targets all, -t query, -t graph, -t commands -s, "
    "-d explain -n for description and depfile, a real -d keeprsp run for rspfile name and content)",
    "manifest space = every assignment of the feature grammar in ninjax.py (27 dimensions: path flavours, input classes, "
    "build/file-level bindings, rule variable templates, identifiers with keyword prefixes, include/subninja, continuations, "
    "comments, CRLF, up to 3 build statements and 2 rules) with at most K non-default dimensions (K=2 quick, K=3 thorough); "
    "manifests that ninja rejects are outside the Ninja language and are skipped (counted)",
    "excluded as the statement says: file-level bindings placed after a build statement that reads them (all file-level "
    "bindings precede the build statements; a post-position include never binds); additionally excluded: a file-level "
    "variable with the same name as a variable bound in the rule (ninja 1.11.1 lets it win over the rule for statements "
    "without indented bindings, contradicting its manual's build > rule > file order)",
    "generated paths are already canonical (no ./, //, ..) so path canonicalisation is never exercised; llbuild's rspfile is "
    "compared as working-directory + ninja's relative name",
    "command, description and rspfile_content are compared byte-for-byte first; a difference that disappears after /bin/sh "
    "word splitting of both strings (llbuild leaves ':' unquoted, ninja quotes it) is counted as quote_style_only, not a violation",
    "pool membership, deps style, generator/restat flags and default targets are not compared (not part of the statement); "
    "an error reported by llbuild on any statement of a manifest ninja accepts is a violation",
    "shell-quoting round trip: all strings of length <= 4 over {a,space,',\",$,\\,*,newline} (thorough: plus ; & | ~ ! # ( ) "
    "through /bin/sh (dash) printf %s",
]


def main():
    ap = argparse.ArgumentParser()
    ap.add_argument("--prop", default="C17")
    ap.add_argument("--tier", default="quick")
    ap.add_argument("--shard", type=int, default=0)
    ap.add_argument("--nshards", type=int, default=1)
    ap.add_argument("--out", default="/dev/stdout")
    ap.add_argument("--seed", default="0")
    ap.add_argument("--budget", type=float, default=120)
    ap.add_argument("--replay-spec")
    args = ap.parse_args()
    t0 = time.monotonic()
    thorough = args.tier == "thorough"
    K = int(os.environ.get("NINJAX_K", "3" if thorough else "2"))

    def on_term(signum, frame):
        raise SystemExit(3)  # the finally below removes the scratch directory
    signal.signal(signal.SIGTERM, on_term)
    root = "/dev/shm/verif-ninjax-%d" % os.getpid()
    if os.path.isdir(root):
        shutil.rmtree(root)
    os.makedirs(root)
    world = World(root)
    cov = {"evaluations": 0, "distinct_nontrivial": 0, "manifests_generated": 0, "ninja_rejected": 0,
           "build_statements_compared": 0, "quote_strings_checked": 0, "quote_style_only_diffs": 0,
           "manifests_with_violation": 0, "violations_raw": 0, "real_runs": 0, "real_run_failed": 0,
           "rsp_name_collision": 0, "ninja_spawns": 0, "minimisation_runs": 0, "bound_K": K, "harness_undecided": 0, "harness_undecided_samples": [],
           "samples": [], "exhaustive": True}
    violations = []
    per_class = {}
    seen_results = set()

    def violate(cls, what, spec):
        cov["violations_raw"] += 1
        per_class[cls] = per_class.get(cls, 0) + 1
        cov["class_count." + cls] = per_class[cls]
        if per_class[cls] <= 3:
            violations.append({"class": cls, "what": what[:1500], "replay": {"spec": spec}})

    def spec_of(files, real):
        return "manifest:real=%d;%s" % (1 if real else 0, ";".join("%s=%s" % (k.decode(), files[k].hex()) for k in sorted(files)))

    def text_of(files):
        s = "manifest build.ninja=<<" + esc(files[MAIN]) + ">>"
        for k in sorted(files):
            if k != MAIN:
                s += " %s=<<%s>>" % (k.decode(), esc(files[k]))
        return s

    def check_manifest(files, real, assignment=None, verbose=False):
        st, nin, ll, diffs, stats = evaluate(world, files, real)
        if st == "rejected":
            cov["ninja_rejected"] += 1
            if os.environ.get("NINJAX_DEBUG"):
                print("REJECTED", features(assignment) if assignment else "", esc(world.last_err), file=sys.stderr)
            if verbose:
                print("ninja rejects the manifest")
            return
        cov["evaluations"] += 1
        cov["build_statements_compared"] += len(nin["edges"])
        cov["quote_style_only_diffs"] += stats.get("quote_style_only", 0)
        cov["rsp_name_collision"] += stats.get("rsp_name_collision", 0)
        if real:
            cov["real_runs"] += 1
            if nin["rsp"] is not None and nin["rsp"][0] == "failed":
                cov["real_run_failed"] += 1
                if os.environ.get("NINJAX_DEBUG"):
                    print("REALFAIL", features(assignment) if assignment else "", esc(nin["rsp"][2]), file=sys.stderr)
        key = repr([(e["outs"], e["exp"], e["imp"], e["oo"], e["command"], e["description"], e["depfile"]) for e in nin["edges"]])
        if nin["edges"] and key not in seen_results:
            seen_results.add(key)
            cov["distinct_nontrivial"] += 1
        if verbose:
            for i, e in enumerate(nin["edges"]):
                print("ninja   #%d outs=%s rule=%s exp=%s imp=%s oo=%s command=%s description=%s depfile=%s" % (
                    i + 1, [esc(x) for x in e["outs"]], esc(e["rule"]), [esc(x) for x in e["exp"]], [esc(x) for x in e["imp"]],
                    [esc(x) for x in e["oo"]], esc(e["command"]), esc(e["description"]), esc(e["depfile"])))
            if nin["rsp"]:
                print("ninja   rsp:", nin["rsp"][0], {esc(k): esc(v) for k, v in nin["rsp"][1].items()})
            if isinstance(ll, dict):
                print("llbuild errors=%d first=%s" % (ll["errors"], esc(ll["first_error"])))
                for i, c in enumerate(ll["commands"]):
                    print("llbuild #%d outs=%s rule=%s exp=%s imp=%s oo=%s command=%s description=%s depfile=%s rspfile=%s rspfile_content=%s" % (
                        i + 1, [esc(x) for x in c["outs"]], esc(c["rule"]), [esc(x) for x in c["exp"]], [esc(x) for x in c["imp"]],
                        [esc(x) for x in c["oo"]], esc(c["command"]), esc(c["description"]), esc(c["depfile"]), esc(c["rspfile"]),
                        esc(c["rspfile_content"])))
        if len(cov["samples"]) < 4 and nin["edges"] and cov["evaluations"] % 97 == 1:
            cov["samples"].append({"manifest": esc(files[MAIN]), "ninja_command": esc(nin["edges"][0]["command"]),
                                   "features": features(assignment) if assignment else []})
        if not diffs:
            return
        cov["manifests_with_violation"] += 1
        named = named_class(world, files, nin, ll, diffs, real)
        emitted = set()
        unexplained = []
        for i, d in enumerate(diffs):
            if i in named:
                if named[i] not in emitted:
                    emitted.add(named[i])
                    violate(named[i], d["what"] + "; " + text_of(files), spec_of(files, real))
                    if verbose:
                        print("VIOLATION", named[i], d["what"])
            else:
                unexplained.append(d)
        # unexplained differences: class = field + minimal feature set
        sigs = []
        for d in unexplained:
            s = diff_signature(d)
            if s not in sigs:
                sigs.append(s)
        for s in sigs:
            d0 = [d for d in unexplained if diff_signature(d) == s][0]
            mfiles, mreal, mwhat, tag = files, real, d0["what"], "replayed"
            if assignment is not None:
                cur = list(assignment)
                changed = True
                while changed:
                    changed = False
                    for i in range(NDIMS):
                        if not cur[i]:
                            continue
                        trial = list(cur)
                        trial[i] = 0
                        if not valid(trial):
                            continue
                        tf, tr = render(tuple(trial))
                        cov["minimisation_runs"] += 1
                        st2, nin2, ll2, diffs2, _ = evaluate(world, tf, tr)
                        if st2 in ("rejected", "ok"):
                            continue
                        named2 = named_class(world, tf, nin2, ll2, diffs2, tr)
                        hit = [d for j, d in enumerate(diffs2) if j not in named2 and diff_signature(d) == s]
                        if hit:
                            cur = trial
                            mfiles, mreal, mwhat = tf, tr, hit[0]["what"]
                            changed = True
                            break
                tag = "+".join(features(tuple(cur))) or "base"
            cls = "C17.other-%s.%s" % (s, re.sub(r"[^A-Za-z0-9=+.:_-]", "_", tag))
            violate(cls, mwhat + "; " + text_of(mfiles) + ("" if mfiles is files else " (minimised from features %s)" % "+".join(features(assignment))),
                    spec_of(mfiles, mreal))
            if verbose:
                print("VIOLATION", cls, mwhat)

    def check_quote_batch(strings, verbose=False):
        quoted = llbuild_quote(strings)
        got = sh_roundtrip(quoted)
        if got is None or got != strings:
            got = []
            for q in quoted:
                r = sh_roundtrip([q])
                got.append(r[0] if r is not None else None)
        for s, q, g in zip(strings, quoted, got):
            cov["quote_strings_checked"] += 1
            if verbose:
                print("string %s quoted %s sh-prints %s" % (esc(s), esc(q), "<error>" if g is None else esc(g)))
            if g != s:
                violate(quote_class(s, q), "shellEscaped(%s) = %s; /bin/sh -c \"printf %%s <that>\" prints %s" % (
                    esc(s), esc(q), "an error / nothing" if g is None else esc(g)), "quote:" + s.hex())

    rc_error = None
    try:
        if not os.access(LOADER, os.X_OK):
            raise HarnessError("loader binary %s missing (make -C /verif/harness/ninjax)" % LOADER)
        if args.replay_spec:
            spec = args.replay_spec
            if spec.startswith("quote:"):
                check_quote_batch([bytes.fromhex(spec[6:])], verbose=True)
            elif spec.startswith("manifest:"):
                parts = spec[len("manifest:"):].split(";")
                real = parts[0] == "real=1"
                files = {}
                for p in parts[1:]:
                    k, v = p.split("=", 1)
                    files[k.encode()] = bytes.fromhex(v)
                print(text_of(files))
                check_manifest(files, real, None, verbose=True)
            else:
                raise HarnessError("unknown replay spec")
        else:
            # ---- part 1: quoting round trip
            alpha = Q_ALPHA_THOROUGH if thorough else Q_ALPHA_QUICK
            batch = []
            bi = 0
            for s in quote_strings(alpha):
                batch.append(s)
                if len(batch) == Q_BATCH:
                    if bi % args.nshards == args.shard:
                        check_quote_batch(batch)
                    bi += 1
                    batch = []
            if batch:
                if bi % args.nshards == args.shard:
                    check_quote_batch(batch)
            # ---- part 2: manifests
            idx = -1
            for a in enumerate_assignments(K):
                idx += 1
                if idx % args.nshards != args.shard:
                    continue
                if time.monotonic() - t0 > args.budget:
                    cov["exhaustive"] = False
                    break
                cov["manifests_generated"] += 1
                files, real = render(a)
                try:
                    check_manifest(files, real, a)
                except HarnessError as e:
                    # the reference side could not be read for this manifest: no verdict for it
                    cov["harness_undecided"] += 1
                    cov["exhaustive"] = False
                    if len(cov["harness_undecided_samples"]) < 3:
                        cov["harness_undecided_samples"].append({"why": str(e)[:300], "manifest": esc(files[MAIN])})
                    print("undecided:", e, features(a), file=sys.stderr)
    except HarnessError as e:
        rc_error = str(e)
    finally:
        world.loader.stop()
        shutil.rmtree(root, ignore_errors=True)
    cov["ninja_spawns"] = world.nspawn
    cov["rule"] = ("manifests = all assignments of the 27-dimension feature grammar with <= K non-default dimensions, enumerated by "
                   "cost then dimension then choice; item i runs in shard i % nshards; evaluations = manifests ninja accepted and "
                   "both tools were compared on; distinct_nontrivial = manifests with >= 1 build statement whose ninja-side result "
                   "(outputs, inputs, command, description, depfile of every statement) was not produced by an earlier manifest of "
                   "the same shard; quote_strings_checked = strings sent through shellEscaped and /bin/sh")
    cov["wall_s_max"] = 0
    res = {"coverage": cov, "assumptions": ASSUMPTIONS, "violations": violations}
    cov["max_wall_s"] = round(time.monotonic() - t0, 1)
    del cov["wall_s_max"]
    if rc_error is not None:
        print("harness error:", rc_error, file=sys.stderr)
        sys.exit(3)
    with open(args.out, "w") as f:
        json.dump(res, f, indent=1)
    sys.exit(1 if violations else 0)


if __name__ == "__main__":
    main()

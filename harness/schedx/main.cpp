// schedx explorer: stateless depth-first search over thread schedules with
// iterative context bounding (all schedules with <= K preemptions); one forked
// child per schedule.
#include "bodies.h"
#include "sched.h"
#include "../common/json.h"

#include <algorithm>
#include <cstring>
#include <poll.h>
#include <signal.h>
#include <sstream>
#include <sys/wait.h>
#include <unistd.h>

static vj::Args args;
static int g_fd = -1;
static BodyCtx* g_ctx = nullptr;

static void writeAll(int fd, const std::string& s) {
  size_t off = 0;
  while (off < s.size()) {
    ssize_t n = write(fd, s.data() + off, s.size() - off);
    if (n <= 0) break;
    off += (size_t)n;
  }
}
static std::string oneLine(std::string s) { for (char& c : s) if (c == '\n') c = ' '; return s; }

static void report(sx::Status st, const std::string& msg) {
  std::string out = "S " + std::to_string((int)st) + "\nM " + oneLine(msg) + "\n";
  if (g_ctx) {
    out += "O " + oneLine(g_ctx->outcome) + "\n";
    for (auto& f : g_ctx->failures) out += "F " + f.first + "\t" + oneLine(f.second) + "\n";
  }
  out += "T";
  for (auto& p : sx::trace()) out += " " + std::to_string(p.chosen) + "," + std::to_string(p.options) + "," + (p.curEnabled ? "1" : "0") + "," + std::to_string(p.timedFrom) + "," + p.kind;
  out += "\n";
  writeAll(g_fd, out);
}
static void fatalHook(sx::Status st, const std::string& msg) { report(st, msg); _exit(0); }

struct RunResult {
  int status = -1;  // sx::Status, or -1 crash, -2 hang
  std::string msg, outcome;
  std::vector<std::pair<std::string, std::string>> failures;
  std::vector<sx::Point> trace;
  int sig = 0;
};

static RunResult runOne(const Body& body, const std::vector<int>& prefix) {
  int fds[2];
  if (pipe(fds) != 0) { perror("pipe"); exit(3); }
  pid_t pid = fork();
  if (pid == 0) {
    close(fds[0]);
    g_fd = fds[1];
    BodyCtx ctx;
    g_ctx = &ctx;
    sx::onFatal = fatalHook;
    sx::begin(prefix, 4000);
    body.run(ctx);
    sx::Status st = sx::end();
    report(st, st == sx::LEFTOVER ? "threads left blocked after the body finished: " + sx::describeThreads() : "");
    _exit(0);
  }
  close(fds[1]);
  std::string data;
  char buf[65536];
  RunResult r;
  int waited = 0;
  while (true) {
    struct pollfd pf{fds[0], POLLIN, 0};
    int pr = poll(&pf, 1, 1000);
    if (pr == 0) {
      if (++waited >= 30) { kill(pid, SIGKILL); r.status = -2; break; }
      continue;
    }
    ssize_t n = read(fds[0], buf, sizeof buf);
    if (n <= 0) break;
    data.append(buf, (size_t)n);
  }
  close(fds[0]);
  int wst = 0;
  waitpid(pid, &wst, 0);
  if (r.status == -2) { r.msg = "child did not finish within 30 s (real hang outside the scheduler's control)"; return r; }
  std::stringstream ss(data);
  std::string line;
  bool haveS = false;
  while (std::getline(ss, line)) {
    if (line.size() < 1) continue;
    std::string rest = line.size() > 2 ? line.substr(2) : "";
    switch (line[0]) {
    case 'S': r.status = atoi(rest.c_str()); haveS = true; break;
    case 'M': r.msg = rest; break;
    case 'O': r.outcome = rest; break;
    case 'F': { auto t = rest.find('\t'); r.failures.push_back({rest.substr(0, t), t == std::string::npos ? "" : rest.substr(t + 1)}); break; }
    case 'T': {
      std::stringstream ts(rest);
      std::string tok;
      while (ts >> tok) {
        sx::Point p{};
        char k = 's';
        int c = 0, n = 0, e = 0, tf = 0;
        sscanf(tok.c_str(), "%d,%d,%d,%d,%c", &c, &n, &e, &tf, &k);
        p.chosen = c; p.options = n; p.curEnabled = e != 0; p.kind = k; p.timedFrom = tf;
        r.trace.push_back(p);
      }
      break;
    }
    }
  }
  if (!haveS || WIFSIGNALED(wst) || (WIFEXITED(wst) && WEXITSTATUS(wst) != 0)) {
    r.status = -1;
    r.sig = WIFSIGNALED(wst) ? WTERMSIG(wst) : 0;
    r.msg = "child crashed (signal " + std::to_string(r.sig) + ", exit " + std::to_string(WIFEXITED(wst) ? WEXITSTATUS(wst) : -1) + ")";
  }
  return r;
}

static std::string prefixStr(const std::vector<int>& p) {
  std::string s;
  for (size_t i = 0; i < p.size(); ++i) s += (i ? " " : "") + std::to_string(p[i]);
  return s;
}

struct Explorer {
  const Body& body;
  std::string prop;
  int bound;
  vj::Result& res;
  std::set<std::string> outcomes;
  long schedules = 0;
  long byPreempt[8] = {0};
  size_t maxPoints = 0;

  void judge(const std::vector<int>& prefix, const RunResult& r) {
    ++schedules;
    maxPoints = std::max(maxPoints, r.trace.size());
    int pre = 0;
    for (auto& p : r.trace) pre += p.cost(p.chosen);
    ++byPreempt[std::min(pre, 7)];
    outcomes.insert(r.outcome);
    std::string spec = std::string(body.name) + "|" + prefixStr(prefix);
    auto viol = [&](const std::string& cls, const std::string& what) {
      res.violate(cls, what + " | body " + body.name + " schedule [" + prefixStr(prefix) + "] (" + std::to_string(pre) + " preemption(s))", spec);
    };
    if (r.status == sx::DEADLOCK) viol(prop + ".deadlock", "deadlock or lost wake-up: " + r.msg);
    else if (r.status == sx::HORIZON) viol(prop + ".livelock", r.msg);
    else if (r.status == sx::LEFTOVER) viol(prop + ".threads-left-running", r.msg);
    else if (r.status == sx::DIVERGED) { fprintf(stderr, "schedx: replay diverged for %s\n", spec.c_str()); exit(3); }
    else if (r.status == -1) viol(prop + ".crash", r.msg);
    else if (r.status == -2) viol(prop + ".hang", r.msg);
    for (auto& f : r.failures) {
      // failures carry their own property prefix; report only those of the property being decided
      if (f.first.compare(0, prop.size(), prop) == 0) viol(f.first, f.second);
    }
  }

  void expand(const std::vector<int>& prefix, const RunResult& r, std::vector<std::vector<int>>& out) {
    int pre = 0;
    for (size_t i = 0; i < r.trace.size(); ++i) {
      auto& p = r.trace[i];
      if (i >= prefix.size()) {
        for (int alt = 1; alt < p.options; ++alt) {
          if (pre + p.cost(alt) > bound) continue;
          {
            std::vector<int> np;
            for (size_t j = 0; j < i; ++j) np.push_back(r.trace[j].chosen);
            np.push_back(alt);
            out.push_back(np);
          }
        }
      }
      pre += p.cost(p.chosen);
    }
  }

  void run() {
    RunResult root = runOne(body, {});
    if (args.shard == 0) judge({}, root);
    std::vector<std::vector<int>> top;
    expand({}, root, top);
    std::vector<std::vector<int>> stack;
    for (size_t k = 0; k < top.size(); ++k)
      if ((int)(k % args.nshards) == args.shard) stack.push_back(top[k]);
    while (!stack.empty()) {
      if (args.overBudget()) { res.exhaustive = false; res.count("budget_hit"); break; }
      std::vector<int> p = stack.back();
      stack.pop_back();
      RunResult r = runOne(body, p);
      judge(p, r);
      expand(p, r, stack);
    }
    res.count("schedules", schedules);
    for (int i = 0; i < 8; ++i) if (byPreempt[i]) res.count("schedules_with_" + std::to_string(i) + "_preemptions", byPreempt[i]);
    res.maxOf("max_choice_points", (long long)maxPoints);
    res.maxOf("bound_preemptions", bound);
    res.count("distinct_outcomes", (long long)outcomes.size());
    if (args.shard == 0) res.count("bodies");
    if (args.shard == 0) {
      std::string o;
      for (auto& s : outcomes) o += s + ";";
      res.sample("{\"body\": " + vj::q(body.name) + ", \"bound\": " + std::to_string(bound) + ", \"choice_points_root\": " + std::to_string(root.trace.size()) + ", \"outcomes\": " + vj::q(o) + "}", 12);
    }
  }
};

int main(int argc, char** argv) {
  args.parse(argc, argv);
  signal(SIGPIPE, SIG_IGN);
  vj::Result res;
  res.strings["rule"] =
      "thread bodies x all schedules with at most K preemptions (iterative context bounding) over interposed pthread mutex/cond/create/join "
      "operations; one forked execution of the real code per schedule; distinct = distinct observable outcome per body";
  // Warm up function-local statics un-scheduled so that no static-init guard is
  // ever taken while a managed thread is descheduled inside it.
  setenv("LLBUILD_TEST", "1", 1);
  for (int i = 0; i < kNumBodies; ++i) if (kBodies[i].warm) { BodyCtx c; kBodies[i].run(c); }

  if (!args.replaySpec.empty()) {
    auto bar = args.replaySpec.find('|');
    std::string name = args.replaySpec.substr(0, bar);
    std::vector<int> prefix;
    std::stringstream ss(args.replaySpec.substr(bar + 1));
    int v;
    while (ss >> v) prefix.push_back(v);
    for (int i = 0; i < kNumBodies; ++i)
      if (name == kBodies[i].name) {
        Explorer ex{kBodies[i], args.prop, 99, res};
        RunResult r = runOne(kBodies[i], prefix);
        ex.judge(prefix, r);
        printf("replay %s: status %d %s outcome '%s' points %zu\n", name.c_str(), r.status, r.msg.c_str(), r.outcome.c_str(), r.trace.size());
      }
    res.write(args.out);
    return res.violations.empty() ? 0 : 1;
  }

  for (int i = 0; i < kNumBodies; ++i) {
    if (!strstr(kBodies[i].props, args.prop.c_str())) continue;
    int bound = args.thorough() ? kBodies[i].boundThorough : kBodies[i].boundQuick;
    if (!args.extra.empty()) bound = atoi(args.extra.c_str());
    Explorer ex{kBodies[i], args.prop, bound, res};
    ex.run();
  }
  res.counters["evaluations"] = res.counters["schedules"];
  res.counters["states"] = res.counters["schedules"];
  res.counters["transitions"] = res.counters["schedules"];
  res.counters["traces_validated_against_impl"] = res.counters["schedules"];
  res.counters["distinct_nontrivial"] = res.counters["distinct_outcomes"];
  res.write(args.out);
  return res.violations.empty() ? 0 : 1;
}

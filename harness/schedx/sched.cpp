// Interposes pthread_mutex_*, pthread_cond_*, pthread_create/join/detach in the
// harness executable (link-time + dynamic symbol pre-emption, see Makefile
// -rdynamic) and serialises all managed threads: exactly one runs at a time;
// every interposed call is a scheduling point at which the explorer's choice
// sequence decides who runs next.  While scheduling is inactive every call is
// passed through to libc.
#include "sched.h"

#include <atomic>
#include <cerrno>
#include <climits>
#include <cstdio>
#include <cstdlib>
#include <cstring>
#include <dlfcn.h>
#include <linux/futex.h>
#include <map>
#include <pthread.h>
#include <sys/syscall.h>
#include <unistd.h>

namespace sx {
void (*onFatal)(Status, const std::string&) = nullptr;
}
using namespace sx;

namespace {

enum St { RUN, WANT_LOCK, COND_WAIT, WANT_JOIN, FINISHED, WAIT_IDLE };

struct Thr {
  int id = 0;
  int go = 0;
  St st = RUN;
  void* obj = nullptr;   // mutex wanted / cond waited on / thread joined
  void* mtx = nullptr;   // mutex to re-acquire after a cond wait
  bool timed = false, signalled = false, timedOut = false;
  bool detached = false, joined = false;
  pthread_t real{};
  void* (*fn)(void*) = nullptr;
  void* arg = nullptr;
  void* ret = nullptr;
};
struct Mtx { int owner = -1; int depth = 0; };

bool g_active = false;
Status g_endStatus = OK;
std::vector<Thr*> g_thr;
int g_cur = -1;
std::map<void*, Mtx> g_mtx;
std::map<void*, std::vector<int>> g_waiters;
std::vector<int> g_prefix;
size_t g_pos = 0;
std::vector<Point> g_trace;
int g_horizon = 20000;
thread_local Thr* t_self = nullptr;

typedef int (*mutex_fn)(pthread_mutex_t*);
typedef int (*cond_wait_fn)(pthread_cond_t*, pthread_mutex_t*);
typedef int (*cond_timedwait_fn)(pthread_cond_t*, pthread_mutex_t*, const struct timespec*);
typedef int (*cond_clockwait_fn)(pthread_cond_t*, pthread_mutex_t*, clockid_t, const struct timespec*);
typedef int (*cond_fn)(pthread_cond_t*);
typedef int (*create_fn)(pthread_t*, const pthread_attr_t*, void* (*)(void*), void*);
typedef int (*join_fn)(pthread_t, void**);
typedef int (*detach_fn)(pthread_t);

template <typename T> T real(const char* name) {
  void* p = dlsym(RTLD_NEXT, name);
  if (!p) { fprintf(stderr, "schedx: dlsym(%s) failed\n", name); abort(); }
  return (T)p;
}
#define REAL(type, name) static type r = real<type>(name)

void fwait(int* w) {
  while (__atomic_load_n(w, __ATOMIC_ACQUIRE) == 0) syscall(SYS_futex, w, FUTEX_WAIT, 0, nullptr, nullptr, 0);
  __atomic_store_n(w, 0, __ATOMIC_RELEASE);
}
void fwake(int* w) {
  __atomic_store_n(w, 1, __ATOMIC_RELEASE);
  syscall(SYS_futex, w, FUTEX_WAKE, 1, nullptr, nullptr, 0);
}

bool isRecursive(pthread_mutex_t* m) { return (m->__data.__kind & 3) == PTHREAD_MUTEX_RECURSIVE_NP; }

bool mutexFreeFor(void* m, int id) {
  auto it = g_mtx.find(m);
  if (it == g_mtx.end() || it->second.owner == -1) return true;
  return it->second.owner == id && isRecursive((pthread_mutex_t*)m);
}

bool enabled(Thr* t);
bool othersIdle(Thr* me) {
  for (Thr* t : g_thr) if (t != me && t->st != WAIT_IDLE && enabled(t)) return false;
  return true;
}
bool enabled(Thr* t) {
  switch (t->st) {
  case WAIT_IDLE: return othersIdle(t);
  case RUN: return true;
  case WANT_LOCK: return mutexFreeFor(t->obj, t->id);
  case COND_WAIT: return (t->signalled || t->timed) && mutexFreeFor(t->mtx, t->id);
  case WANT_JOIN: return ((Thr*)t->obj)->st == FINISHED;
  case FINISHED: return false;
  }
  return false;
}

void fatal(Status s, const std::string& msg) {
  if (onFatal) onFatal(s, msg);
  fprintf(stderr, "schedx fatal %d: %s\n", (int)s, msg.c_str());
  _exit(100 + (int)s);
}

int choose(int n, bool curEnabled, char kind, int timedFrom = INT_MAX) {
  if (n <= 1) return 0;
  int c = 0;
  if (g_pos < g_prefix.size()) {
    c = g_prefix[g_pos];
    if (c >= n) fatal(DIVERGED, "replayed choice out of range: the execution diverged from the recorded prefix");
  }
  ++g_pos;
  g_trace.push_back({c, n, curEnabled, kind, timedFrom});
  if ((int)g_trace.size() > g_horizon) fatal(HORIZON, "choice-point horizon exceeded (livelock?)");
  return c;
}

// The running thread has published its state; decide who runs next and block
// until this thread is chosen again (or return immediately if it continues).
void reschedule() {
  Thr* me = g_thr[g_cur];
  std::vector<int> list;
  bool curEn = me->st != FINISHED && enabled(me);
  auto firesTimer = [](Thr* t) { return t->st == COND_WAIT && !t->signalled; };
  if (curEn) list.push_back(me->id);
  for (Thr* t : g_thr)
    if (t != me && enabled(t) && !firesTimer(t)) list.push_back(t->id);
  int timedFrom = (int)list.size();
  for (Thr* t : g_thr)
    if (t != me && enabled(t) && firesTimer(t)) list.push_back(t->id);
  if (list.empty()) {
    bool all = true;
    for (Thr* t : g_thr) if (t->st != FINISHED) all = false;
    if (all) return;  // last thread finishing
    fatal(DEADLOCK, "no enabled thread: " + describeThreads());
  }
  int idx = choose((int)list.size(), curEn, 's', timedFrom);
  int next = list[idx];
  if (next == me->id) return;
  g_cur = next;
  fwake(&g_thr[next]->go);
  if (me->st != FINISHED) fwait(&me->go);
}

void acquire(void* m, int id) {
  Mtx& x = g_mtx[m];
  if (x.owner == id) ++x.depth; else { x.owner = id; x.depth = 1; }
}
void release(void* m, int id) {
  Mtx& x = g_mtx[m];
  if (x.owner != id) return;  // unlocking a mutex we do not hold in the model: ignore
  if (--x.depth == 0) x.owner = -1;
}

void* trampoline(void* p) {
  Thr* t = (Thr*)p;
  t_self = t;
  fwait(&t->go);
  t->ret = t->fn(t->arg);
  t->st = FINISHED;
  reschedule();
  return t->ret;
}

// Logical clock: when the scheduler lets a timed wait time out, time has passed as far as the program can tell -
// clock_gettime() is interposed below and reports the real clock plus this offset, so code that re-reads the clock
// after the wait (std::condition_variable::wait_until does, and its predicate form loops on it) sees the deadline
// reached. Without this a predicate wait would spin through "early" time-outs for ever (a false livelock).
static long long g_clockOffsetNs = 0;
static long long realNowNs(clockid_t clk) {
  struct timespec ts;
  syscall(SYS_clock_gettime, clk, &ts);
  return (long long)ts.tv_sec * 1000000000LL + ts.tv_nsec;
}
static void advanceClockTo(clockid_t clk, const struct timespec* deadline) {
  if (!deadline) return;
  long long d = (long long)deadline->tv_sec * 1000000000LL + deadline->tv_nsec;
  long long need = d - realNowNs(clk) + 1000;
  if (need > g_clockOffsetNs) g_clockOffsetNs = need;
}

int condWaitCommon(pthread_cond_t* c, pthread_mutex_t* m, bool timed, clockid_t clk = CLOCK_REALTIME, const struct timespec* deadline = nullptr) {
  Thr* me = t_self;
  release(m, me->id);
  me->st = COND_WAIT;
  me->obj = c;
  me->mtx = m;
  me->timed = timed;
  me->signalled = false;
  g_waiters[c].push_back(me->id);
  reschedule();
  // chosen: either signalled or (timed) timing out
  bool to = !me->signalled;
  if (to) {
    auto& w = g_waiters[c];
    for (size_t i = 0; i < w.size(); ++i) if (w[i] == me->id) { w.erase(w.begin() + i); break; }
  }
  if (to) advanceClockTo(clk, deadline);
  acquire(m, me->id);
  me->st = RUN;
  return to ? ETIMEDOUT : 0;
}

}  // namespace

namespace sx {

bool active() { return g_active; }
const std::vector<Point>& trace() { return g_trace; }

std::string describeThreads() {
  std::string s;
  const char* names[] = {"run", "want-lock", "cond-wait", "want-join", "finished", "wait-idle"};
  for (Thr* t : g_thr) {
    char b[128];
    snprintf(b, sizeof b, "[T%d %s%s] ", t->id, names[t->st], t->st == COND_WAIT && t->timed ? "(timed)" : "");
    s += b;
  }
  return s;
}

void begin(const std::vector<int>& prefix, int horizon) {
  g_prefix = prefix;
  g_pos = 0;
  g_trace.clear();
  g_horizon = horizon;
  g_thr.clear();
  g_mtx.clear();
  g_waiters.clear();
  Thr* t = new Thr();
  t->id = 0;
  t->real = pthread_self();
  g_thr.push_back(t);
  t_self = t;
  g_cur = 0;
  g_endStatus = OK;
  g_active = true;
}

Status end() {
  if (!g_active) return g_endStatus;
  Thr* me = t_self;
  // Let everything else that can run, run: this thread is enabled only when no
  // other thread is.
  me->st = WAIT_IDLE;
  reschedule();
  me->st = RUN;
  bool left = false;
  for (Thr* t : g_thr) if (t != me && t->st != FINISHED) left = true;
  g_active = false;
  g_endStatus = left ? LEFTOVER : OK;
  return g_endStatus;
}

void yieldPoint() {
  if (!g_active || !t_self) return;
  reschedule();
}

}  // namespace sx

// ---------------------------------------------------------------------------
extern "C" {

int pthread_mutex_lock(pthread_mutex_t* m) {
  if (!g_active || !t_self) { REAL(mutex_fn, "pthread_mutex_lock"); return r(m); }
  Thr* me = t_self;
  me->st = WANT_LOCK;
  me->obj = m;
  reschedule();
  acquire(m, me->id);
  me->st = RUN;
  return 0;
}
int pthread_mutex_trylock(pthread_mutex_t* m) {
  if (!g_active || !t_self) { REAL(mutex_fn, "pthread_mutex_trylock"); return r(m); }
  Thr* me = t_self;
  reschedule();  // scheduling point; the thread stays enabled
  if (!mutexFreeFor(m, me->id)) return EBUSY;
  acquire(m, me->id);
  return 0;
}
int pthread_mutex_unlock(pthread_mutex_t* m) {
  if (!g_active || !t_self) { REAL(mutex_fn, "pthread_mutex_unlock"); return r(m); }
  release(m, t_self->id);
  reschedule();  // after the release: waiters are now enabled
  return 0;
}
int pthread_cond_wait(pthread_cond_t* c, pthread_mutex_t* m) {
  if (!g_active || !t_self) { REAL(cond_wait_fn, "pthread_cond_wait"); return r(c, m); }
  return condWaitCommon(c, m, false);
}
int pthread_cond_timedwait(pthread_cond_t* c, pthread_mutex_t* m, const struct timespec* ts) {
  if (!g_active || !t_self) { REAL(cond_timedwait_fn, "pthread_cond_timedwait"); return r(c, m, ts); }
  return condWaitCommon(c, m, true, CLOCK_REALTIME, ts);
}
int pthread_cond_clockwait(pthread_cond_t* c, pthread_mutex_t* m, clockid_t clk, const struct timespec* ts) {
  if (!g_active || !t_self) { REAL(cond_clockwait_fn, "pthread_cond_clockwait"); return r(c, m, clk, ts); }
  return condWaitCommon(c, m, true, clk, ts);
}
int pthread_cond_signal(pthread_cond_t* c) {
  if (!g_active || !t_self) { REAL(cond_fn, "pthread_cond_signal"); return r(c); }
  auto& w = g_waiters[c];
  if (!w.empty()) {
    int idx = choose((int)w.size(), false, 'w');
    Thr* t = g_thr[w[idx]];
    w.erase(w.begin() + idx);
    t->signalled = true;
  }
  reschedule();
  return 0;
}
int pthread_cond_broadcast(pthread_cond_t* c) {
  if (!g_active || !t_self) { REAL(cond_fn, "pthread_cond_broadcast"); return r(c); }
  auto& w = g_waiters[c];
  for (int id : w) g_thr[id]->signalled = true;
  w.clear();
  reschedule();
  return 0;
}
int pthread_create(pthread_t* out, const pthread_attr_t* attr, void* (*fn)(void*), void* arg) {
  REAL(create_fn, "pthread_create");
  if (!g_active || !t_self) return r(out, attr, fn, arg);
  Thr* t = new Thr();
  t->id = (int)g_thr.size();
  t->fn = fn;
  t->arg = arg;
  g_thr.push_back(t);
  int rc = r(&t->real, attr, trampoline, t);
  if (rc != 0) { t->st = FINISHED; return rc; }
  *out = t->real;
  reschedule();  // the new thread is runnable from here on
  return 0;
}
static Thr* findThread(pthread_t p) {
  // pthread_t values are reused once a thread has been joined: newest first, skip reaped ones
  for (size_t i = g_thr.size(); i-- > 1;) {
    Thr* t = g_thr[i];
    if (!t->joined && !(t->detached && t->st == FINISHED) && pthread_equal(t->real, p)) return t;
  }
  return nullptr;
}
int pthread_join(pthread_t p, void** ret) {
  REAL(join_fn, "pthread_join");
  if (!g_active || !t_self) return r(p, ret);
  Thr* t = findThread(p);
  if (!t) return r(p, ret);
  Thr* me = t_self;
  me->st = WANT_JOIN;
  me->obj = t;
  reschedule();
  me->st = RUN;
  t->joined = true;
  return r(p, ret);  // the target has left its trampoline (or is about to): does not block for long
}
int pthread_detach(pthread_t p) {
  REAL(detach_fn, "pthread_detach");
  if (g_active) { Thr* t = findThread(p); if (t) t->detached = true; }
  return r(p);
}
int clock_gettime(clockid_t clk, struct timespec* ts) {
  int r = (int)syscall(SYS_clock_gettime, clk, ts);
  if (r == 0 && g_active && g_clockOffsetNs && (clk == CLOCK_REALTIME || clk == CLOCK_MONOTONIC)) {
    long long v = (long long)ts->tv_sec * 1000000000LL + ts->tv_nsec + g_clockOffsetNs;
    ts->tv_sec = (time_t)(v / 1000000000LL);
    ts->tv_nsec = (long)(v % 1000000000LL);
  }
  return r;
}
int sched_yield(void) {
  if (g_active && t_self) { reschedule(); return 0; }
  return (int)syscall(SYS_sched_yield);
}

}  // extern "C"

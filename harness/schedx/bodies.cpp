// Thread bodies explored by schedx.  Each body is a small closed system: 2-4
// threads, 1-3 operations each, forced to collide on the engine's / queue's
// shared state.  Oracles are evaluated at the end of each execution.
#include "bodies.h"
#include "sched.h"

#include "llbuild/Basic/ExecutionQueue.h"
#include "llbuild/Basic/FileSystem.h"
#include "llbuild/Core/BuildEngine.h"

#include <atomic>
#include <dlfcn.h>
#include <spawn.h>
#include <condition_variable>
#include <memory>
#include <mutex>
#include <thread>

using namespace llbuild;
using namespace llbuild::core;

namespace {

static ValueType V(const std::string& s) { return ValueType(s.begin(), s.end()); }
static std::string S(const ValueType& v) { return std::string(v.begin(), v.end()); }

struct QDelegate : public basic::ExecutionQueueDelegate {
  std::atomic<int> started{0}, finished{0};
  void processStarted(basic::ProcessContext*, basic::ProcessHandle, llbuild_pid_t) override {}
  void processHadError(basic::ProcessContext*, basic::ProcessHandle, const Twine&) override {}
  void processHadOutput(basic::ProcessContext*, basic::ProcessHandle, StringRef) override {}
  void processFinished(basic::ProcessContext*, basic::ProcessHandle, const basic::ProcessResult&) override {}
  void queueJobStarted(basic::JobDescriptor*) override { ++started; }
  void queueJobFinished(basic::JobDescriptor*) override { ++finished; }
};

struct Desc : public basic::JobDescriptor {
  std::string name;
  explicit Desc(const std::string& n) : name(n) {}
  StringRef getOrdinalName() const override { return name; }
  void getShortDescription(SmallVectorImpl<char>& r) const override { r.append(name.begin(), name.end()); }
  void getVerboseDescription(SmallVectorImpl<char>& r) const override { r.append(name.begin(), name.end()); }
};

// ---------------------------------------------------------------------------
// Engine world: root r requests a and b; a and b complete from foreign threads.
struct World;
struct EngineDelegate : public BuildEngineDelegate, public basic::ExecutionQueueDelegate {
  World& w;
  explicit EngineDelegate(World& w) : w(w) {}
  std::unique_ptr<Rule> lookupRule(const KeyType& key) override;
  void cycleDetected(const std::vector<Rule*>&) override;
  void error(const Twine& m) override;
  std::unique_ptr<basic::ExecutionQueue> createExecutionQueue() override;
  void processStarted(basic::ProcessContext*, basic::ProcessHandle, llbuild_pid_t) override {}
  void processHadError(basic::ProcessContext*, basic::ProcessHandle, const Twine&) override {}
  void processHadOutput(basic::ProcessContext*, basic::ProcessHandle, StringRef) override {}
  void processFinished(basic::ProcessContext*, basic::ProcessHandle, const basic::ProcessResult&) override {}
  void queueJobStarted(basic::JobDescriptor*) override {}
  void queueJobFinished(basic::JobDescriptor*) override {}
};

struct World {
  BodyCtx& ctx;
  EngineDelegate del;
  std::unique_ptr<BuildEngine> engine;
  int mode = 0;             // 0 raw threads, 1 lane queue (2 lanes), 2 serial queue
  int discover = 0;         // 1: leaf a reports discovered dependency d; 2: and leaf b reports e (both from their own threads)
  std::vector<std::unique_ptr<std::thread>> workers;
  std::atomic<int> callbacksAfterReturn{0};
  std::atomic<bool> inBuild{false};
  std::atomic<int> execA{0}, execB{0}, execD{0}, execE{0}, execR{0};
  std::string errors;
  bool cycle = false;
  Desc dA{"a"}, dB{"b"};
  explicit World(BodyCtx& c) : ctx(c), del(*this) { engine.reset(new BuildEngine(del)); }
  void note() { if (!inBuild) ++callbacksAfterReturn; }
  void joinWorkers() { for (auto& t : workers) t->join(); workers.clear(); }
};

struct LeafTask : public Task {
  World& w; std::string key;
  LeafTask(World& w, const std::string& k) : w(w), key(k) {}
  void start(TaskInterface) override { w.note(); }
  void provideValue(TaskInterface, uintptr_t, const KeyType&, const ValueType&) override { w.note(); }
  void inputsAvailable(TaskInterface ti) override {
    w.note();
    (key == "a" ? w.execA : key == "b" ? w.execB : key == "e" ? w.execE : w.execD)++;
    if (key == "d" || key == "e") { ti.complete(V(key)); return; }
    std::string k = key;
    std::string disc = (w.discover >= 1 && key == "a") ? "d" : (w.discover >= 2 && key == "b") ? "e" : "";
    auto work = [ti, k, disc]() mutable {
      if (!disc.empty()) ti.discoveredDependency(disc);
      ti.complete(V(k));
    };
    if (w.mode == 0) w.workers.emplace_back(new std::thread(work));
    else ti.spawn(basic::QueueJob(key == "a" ? &w.dA : &w.dB, [work](basic::QueueJobContext*) mutable { work(); }));
  }
};
struct RootTask : public Task {
  World& w; std::string va, vb; int provided = 0; bool avail = false;
  explicit RootTask(World& w) : w(w) {}
  void start(TaskInterface ti) override { w.note(); ti.request("a", 0); ti.request("b", 1); }
  void provideValue(TaskInterface, uintptr_t id, const KeyType&, const ValueType& v) override {
    w.note();
    if (avail) w.ctx.fail("C06.protocol-provide-after-available", "provideValue after inputsAvailable");
    ++provided;
    (id == 0 ? va : vb) = S(v);
  }
  void inputsAvailable(TaskInterface ti) override {
    w.note();
    if (avail) w.ctx.fail("C06.protocol-available-twice", "inputsAvailable delivered twice to r");
    if (provided != 2) w.ctx.fail("C06.protocol-available-early", "inputsAvailable for r after " + std::to_string(provided) + " of 2 inputs");
    avail = true;
    ++w.execR;
    ti.complete(V("r(" + va + "," + vb + ")"));
  }
};
struct URule : public Rule {
  World& w;
  URule(World& w, const KeyType& k) : Rule(k), w(w) {}
  Task* createTask(BuildEngine&) override {
    w.note();
    if (key.str() == "r") return new RootTask(w);
    return new LeafTask(w, key.str());
  }
  bool isResultValid(BuildEngine&, const ValueType&) override { w.note(); return false; }
};
std::unique_ptr<Rule> EngineDelegate::lookupRule(const KeyType& key) { return std::unique_ptr<Rule>(new URule(w, key)); }
void EngineDelegate::cycleDetected(const std::vector<Rule*>&) { w.cycle = true; }
void EngineDelegate::error(const Twine& m) { w.errors += m.str() + ";"; }
struct NoThreadQueue : public basic::ExecutionQueue {
  explicit NoThreadQueue(basic::ExecutionQueueDelegate& d) : ExecutionQueue(d) {}
  void addJob(basic::QueueJob job, basic::QueueJobPriority) override { job.execute(nullptr); }
  void cancelAllJobs() override {}
  void executeProcess(basic::QueueJobContext*, ArrayRef<StringRef>, ArrayRef<std::pair<StringRef, StringRef>>, basic::ProcessAttributes,
                      llvm::Optional<basic::ProcessCompletionFn>, basic::ProcessDelegate*) override {}
};
std::unique_ptr<basic::ExecutionQueue> EngineDelegate::createExecutionQueue() {
  if (w.mode == 0) return std::unique_ptr<basic::ExecutionQueue>(new NoThreadQueue(*this));
  if (w.mode == 1)
    return std::unique_ptr<basic::ExecutionQueue>(basic::createLaneBasedExecutionQueue(
        *this, 2, basic::SchedulerAlgorithm::FIFO, basic::QualityOfService::Normal, nullptr));
  return basic::createSerialQueue(*this, nullptr);
}

static std::string buildOnce(World& w) {
  w.inBuild = true;
  const ValueType& v = w.engine->build("r");
  std::string s = S(v);
  w.inBuild = false;
  return s;
}

static void engineBody(BodyCtx& ctx, int mode, int discover, bool canceller) {
  World w(ctx);
  w.mode = mode;
  w.discover = discover;
  std::unique_ptr<std::thread> canc;
  if (canceller) canc.reset(new std::thread([&w]() { w.engine->cancelBuild(); }));
  std::string v = buildOnce(w);
  w.joinWorkers();
  if (canc) canc->join();
  std::string expect = "r(a,b)";
  if (!w.errors.empty()) ctx.fail("C06.engine-error", "engine reported: " + w.errors);
  if (w.cycle) ctx.fail("C06.false-cycle", "cycle reported in an acyclic build");
  if (!canceller) {
    if (v != expect) ctx.fail("C06.wrong-result", "build returned '" + v + "', expected '" + expect + "'");
    if (w.execA != 1 || w.execB != 1 || w.execR != 1 || (discover >= 1 && w.execD != 1) || (discover >= 2 && w.execE != 1))
      ctx.fail("C06.executed-set-differs", "executions a=" + std::to_string(w.execA) + " b=" + std::to_string(w.execB) + " r=" + std::to_string(w.execR) + " d=" + std::to_string(w.execD) +
                                               " e=" + std::to_string(w.execE));
    ctx.outcome = v;
  } else {
    // A foreign cancellation may lose the race: then the result must be correct.
    if (!v.empty() && v != expect) ctx.fail("C05.wrong-result-after-racing-cancel", "build returned '" + v + "'");
    if (w.callbacksAfterReturn != 0) ctx.fail("C05.callback-after-return", std::to_string(w.callbacksAfterReturn) + " task/rule callbacks after build() returned");
    // Later build on the same engine after reset returns the clean value.  The
    // schedule of this second build is not explored here (enginex enumerates the
    // post-cancellation states): scheduling ends, the build free-runs.
    if (sx::end() == sx::LEFTOVER) ctx.fail("C05.threads-left-running", "threads still blocked after the cancelled build returned: " + sx::describeThreads());
    w.engine->resetForBuild();
    std::string v2 = buildOnce(w);
    w.joinWorkers();
    if (v2 != expect) ctx.fail("C05.wrong-result-after-reset", "build after cancel+reset returned '" + v2 + "'");
    ctx.outcome = (v.empty() ? "cancelled" : "won") + std::string("/") + v2;
  }
  if (w.callbacksAfterReturn != 0) ctx.fail("C05.callback-after-return", "callbacks after build() returned");
  w.engine.reset();
}

void E1(BodyCtx& c) { engineBody(c, 0, 0, false); }
void E2(BodyCtx& c) { engineBody(c, 0, 1, false); }
void E3(BodyCtx& c) { engineBody(c, 0, 0, true); }
void E4(BodyCtx& c) { engineBody(c, 1, 0, false); }
void E5(BodyCtx& c) { engineBody(c, 1, 0, true); }
void E6(BodyCtx& c) { engineBody(c, 0, 2, false); }

// ---------------------------------------------------------------------------
// Execution queues: every job exactly once before destruction, never more in
// flight than lanes, started/finished paired.
static void queueBody(BodyCtx& ctx, int kind, int lanes, bool canceller, bool lateHigh = false) {
  QDelegate del;
  std::atomic<int> ran[4];
  for (auto& r : ran) r = 0;
  std::atomic<int> inflight{0}, maxInflight{0};
  Desc d0("j0"), d1("j1"), d2("j2"), d3("j3");
  {
    std::unique_ptr<basic::ExecutionQueue> q;
    if (kind == 0)
      q.reset(basic::createLaneBasedExecutionQueue(del, lanes, basic::SchedulerAlgorithm::NamePriority, basic::QualityOfService::Normal, nullptr));
    else
      q = basic::createSerialQueue(del, nullptr);
    basic::ExecutionQueue* qp = q.get();
    auto body = [&](int i) {
      int n = ++inflight;
      int m = maxInflight.load();
      while (n > m && !maxInflight.compare_exchange_weak(m, n)) {}
      sx::yieldPoint();  // the job "does work" here: a scheduling point while in flight
      ++ran[i];
      --inflight;
    };
    std::unique_ptr<std::thread> canc;
    if (canceller) canc.reset(new std::thread([qp]() { qp->cancelAllJobs(); }));
    // All submissions happen-before the destructor call: the main thread waits
    // (blocking, visible to the scheduler) until j0 has submitted j3.
    std::mutex subM;
    std::condition_variable subC;
    bool submitted = false;
    q->addJob(basic::QueueJob(&d0, [&, qp](basic::QueueJobContext*) {
      body(0);
      // a job that adds a job
      qp->addJob(basic::QueueJob(&d3, [&](basic::QueueJobContext*) { body(3); }),
                 lateHigh ? basic::QueueJobPriority::High : basic::QueueJobPriority::Normal);
      std::lock_guard<std::mutex> g(subM);
      submitted = true;
      subC.notify_one();
    }));
    q->addJob(basic::QueueJob(&d1, [&](basic::QueueJobContext*) { body(1); }), basic::QueueJobPriority::High);
    q->addJob(basic::QueueJob(&d2, [&](basic::QueueJobContext*) { body(2); }));
    if (canc) canc->join();
    {
      std::unique_lock<std::mutex> lk(subM);
      while (!submitted) subC.wait(lk);
    }
    q.reset();  // destructor: must run everything that was submitted
  }
  for (int i = 0; i < 4; ++i)
    if (ran[i] != 1) ctx.fail("C16.job-not-exactly-once", "job j" + std::to_string(i) + " ran " + std::to_string(ran[i].load()) + " times before the queue was destroyed");
  int cap = kind == 0 ? lanes : 1;
  if (maxInflight > cap) ctx.fail("C16.lane-limit-exceeded", std::to_string(maxInflight.load()) + " jobs in flight with " + std::to_string(cap) + " lane(s)");
  if (del.started != del.finished) ctx.fail("C16.start-finish-unpaired", "queueJobStarted=" + std::to_string(del.started.load()) + " queueJobFinished=" + std::to_string(del.finished.load()));
  ctx.outcome = "max" + std::to_string(maxInflight.load());
}
// A process launch racing with cancelAllJobs(): after cancellation has returned
// no new process may be started, and the launch must complete exactly once with
// a status that reflects what happened.
struct ProcDelegate : public QDelegate {
  std::atomic<bool>* cancelReturned = nullptr;
  std::atomic<int> startedAfterCancel{0}, startedTotal{0};
  void processStarted(basic::ProcessContext*, basic::ProcessHandle, llbuild_pid_t pid) override {
    if (pid == (llbuild_pid_t)-1) return;
    ++startedTotal;
    if (cancelReturned && cancelReturned->load()) ++startedAfterCancel;
  }
};
// The moment a process is really created is the posix_spawn() call (interposed below), not the processStarted()
// notification, which an implementation may deliver after it has left its critical section.
static std::atomic<bool>* g_cancelReturnedForSpawn = nullptr;
static std::atomic<int> g_spawnsAfterCancel{0};
}  // namespace
extern "C" int posix_spawn(pid_t* pid, const char* path, const posix_spawn_file_actions_t* fa, const posix_spawnattr_t* at,
                           char* const argv[], char* const envp[]) {
  typedef int (*fn_t)(pid_t*, const char*, const posix_spawn_file_actions_t*, const posix_spawnattr_t*, char* const[], char* const[]);
  static fn_t real = (fn_t)dlsym(RTLD_NEXT, "posix_spawn");
  if (g_cancelReturnedForSpawn && g_cancelReturnedForSpawn->load()) ++g_spawnsAfterCancel;
  return real(pid, path, fa, at, argv, envp);
}
namespace {

static void procBody(BodyCtx& ctx, int kind) {
  ProcDelegate del;
  std::atomic<bool> cancelReturned{false};
  del.cancelReturned = &cancelReturned;
  g_cancelReturnedForSpawn = &cancelReturned;
  g_spawnsAfterCancel = 0;
  std::atomic<int> completions{0};
  std::atomic<int> status{-1};
  Desc d0("p0");
  {
    std::unique_ptr<basic::ExecutionQueue> q;
    if (kind == 0)
      q.reset(basic::createLaneBasedExecutionQueue(del, 1, basic::SchedulerAlgorithm::FIFO, basic::QualityOfService::Normal, nullptr));
    else
      q = basic::createSerialQueue(del, nullptr);
    basic::ExecutionQueue* qp = q.get();
    std::thread canc([&]() { qp->cancelAllJobs(); cancelReturned = true; });
    q->addJob(basic::QueueJob(&d0, [&, qp](basic::QueueJobContext* c) {
      std::vector<StringRef> argv{"/bin/true"};
      qp->executeProcess(c, argv, {}, basic::ProcessAttributes{true},
                         {[&](basic::ProcessResult r) { ++completions; status = (int)r.status; }}, nullptr);
    }));
    canc.join();
    q.reset();
  }
  if (completions != 1) ctx.fail("C16.proc-completion-count", "completion callback fired " + std::to_string(completions.load()) + " times for one launch");
  g_cancelReturnedForSpawn = nullptr;
  if (g_spawnsAfterCancel != 0) ctx.fail("C16.proc-started-after-cancel", "a process was created (posix_spawn) after cancelAllJobs() had returned");
  if (del.startedTotal == 0 && status != (int)basic::ProcessStatus::Cancelled)
    ctx.fail("C16.proc-not-started-but-not-cancelled", "no process was started, yet the launch completed with status " + std::to_string(status.load()));
  ctx.outcome = std::string(del.startedTotal ? "spawned" : "not-spawned") + "/" + std::to_string(status.load());
}
void P1(BodyCtx& c) { procBody(c, 0); }
void P2(BodyCtx& c) { procBody(c, 1); }

// ---------------------------------------------------------------------------
// C13: two threads observe their own (untouched) file through one checksum-only file system at the same time, as two
// commands finishing together do; every observation must equal the one made before, alone.
static void hashBody(BodyCtx& ctx) {
  char tmpl[] = "/dev/shm/verif-hashx-XXXXXX";
  if (!mkdtemp(tmpl)) { ctx.fail("C13.harness-mkdtemp", "mkdtemp failed"); return; }
  std::string dir = tmpl, pa = dir + "/a", pb = dir + "/b";
  {
    std::string ca(70000, 'a'), cb(70000, 'b');  // several read blocks, equal sizes
    FILE* f = fopen(pa.c_str(), "w"); fwrite(ca.data(), 1, ca.size(), f); fclose(f);
    f = fopen(pb.c_str(), "w"); fwrite(cb.data(), 1, cb.size(), f); fclose(f);
  }
  {
    auto fs = basic::ChecksumOnlyFileSystem::from(basic::createLocalFileSystem());
    basic::FileInfo ra = fs->getFileInfo(pa), rb = fs->getFileInfo(pb);
    if (ra == rb) ctx.fail("C13.concurrent-reference-equal", "two files with different contents compare equal");
    std::atomic<int> bad{0};
    auto work = [&](const std::string& p, const basic::FileInfo& ref) {
      for (int i = 0; i < 3; ++i) {
        basic::FileInfo now = fs->getFileInfo(p);
        if (!(now == ref)) ++bad;
        sx::yieldPoint();
      }
    };
    std::thread ta([&] { work(pa, ra); }), tb([&] { work(pb, rb); });
    ta.join();
    tb.join();
    if (bad != 0)
      ctx.fail("C13.concurrent-observation-of-untouched-file-differs", std::to_string(bad.load()) + " of 6 observations made by two threads at the same time differ from "
                                                                         "the observation of the same untouched file made alone");
  }
  unlink(pa.c_str());
  unlink(pb.c_str());
  rmdir(dir.c_str());
  ctx.outcome = "hashed";
}
void H1(BodyCtx& c) { hashBody(c); }

void Q1(BodyCtx& c) { queueBody(c, 0, 2, false); }
// the job submitted from inside a job is High priority: it can be the only thing pending when the queue shuts down
void Q5(BodyCtx& c) { queueBody(c, 0, 2, false, true); }
void Q6(BodyCtx& c) { queueBody(c, 0, 1, false, true); }
void Q2(BodyCtx& c) { queueBody(c, 0, 2, true); }
void Q3(BodyCtx& c) { queueBody(c, 1, 1, false); }
void Q4(BodyCtx& c) { queueBody(c, 1, 1, true); }

}  // namespace

const Body kBodies[] = {
    {"E1-engine-two-completer-threads", "C06", 2, 3, true, E1},
    {"E2-engine-discovered-dependency-from-thread", "C06", 2, 3, true, E2},
    {"E3-engine-foreign-canceller", "C05 C06", 1, 2, false, E3},
    {"E4-engine-lane-queue", "C06", 1, 2, true, E4},
    {"E5-engine-lane-queue-canceller", "C05", 0, 1, false, E5},
    {"E6-engine-two-threads-discover-unknown-keys", "C06", 1, 2, true, E6},
    {"Q1-lane-queue-2-lanes-4-jobs", "C16", 2, 3, true, Q1},
    {"Q2-lane-queue-canceller", "C16", 1, 2, false, Q2},
    {"Q3-serial-queue", "C16", 2, 3, true, Q3},
    {"Q4-serial-queue-canceller", "C16", 1, 2, false, Q4},
    {"Q5-lane-queue-late-high-priority-job", "C16", 2, 3, true, Q5},
    {"Q6-lane-queue-1-lane-late-high-priority-job", "C16", 2, 3, true, Q6},
    {"P1-lane-queue-launch-vs-cancel", "C16", 1, 2, false, P1},
    {"P2-serial-queue-launch-vs-cancel", "C16", 1, 2, false, P2},
    {"H1-two-threads-hash-files-checksum-only", "C13", 1, 2, true, H1},
};
const int kNumBodies = sizeof(kBodies) / sizeof(kBodies[0]);

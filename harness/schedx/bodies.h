#pragma once
#include <string>
#include <vector>
struct BodyCtx {
  std::vector<std::pair<std::string, std::string>> failures;  // (class, what)
  std::string outcome;                                       // order-free observable outcome
  void fail(const std::string& cls, const std::string& what) { failures.push_back({cls, what}); }
};
struct Body {
  const char* name;
  const char* props;  // which properties it serves
  int boundQuick, boundThorough;  // deviation (preemption / early timer) bound per tier
  bool warm;          // run once un-scheduled in the parent to initialise function-local statics
  void (*run)(BodyCtx&);
};
extern const Body kBodies[];
extern const int kNumBodies;

// schedx: cooperative preemption-bounded scheduler over interposed pthread calls.
#pragma once
#include <string>
#include <vector>

namespace sx {

struct Point {
  int chosen;      // index into the canonical enabled list
  int options;     // size of that list
  bool curEnabled; // running thread was still enabled (choosing != 0 is then a preemption)
  char kind;       // 's' thread switch, 'w' which waiter a signal wakes
  int timedFrom;   // 's': entries at index >= timedFrom are timed waits firing without a signal
  // cost of taking alternative `alt` here: a preemption (switching away from an
  // enabled thread) and/or a timer landing before anything else could run
  int cost(int alt) const {
    if (kind != 's') return 0;
    return ((curEnabled && alt != 0) ? 1 : 0) + ((timedFrom > 0 && alt >= timedFrom) ? 1 : 0);
  }
};

enum Status { OK = 0, ORACLE = 1, DEADLOCK = 2, HORIZON = 3, LEFTOVER = 4, DIVERGED = 5 };

// Start scheduling: the calling thread becomes thread 0. `prefix` = forced choices.
void begin(const std::vector<int>& prefix, int horizon);
// Stop scheduling: lets every other runnable thread finish; returns LEFTOVER if
// threads remain blocked, else OK.
Status end();
const std::vector<Point>& trace();
bool active();
// A plain scheduling point (used by bodies to model "work happens here").
void yieldPoint();
// Called by the scheduler on deadlock/horizon: set by main to report and _exit.
extern void (*onFatal)(Status, const std::string&);
std::string describeThreads();

}  // namespace sx

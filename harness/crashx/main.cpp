// crashx: crash-point enumeration for C04 (DESIGN.md §4.4).
//
// For every (world, history) the history is executed on the real engine with
// the real SQLite BuildDB in a forked child; the child _exit()s immediately
// before the N-th libc call that touches the database file, its journal or its
// directory, for EVERY N (a first dry run counts them).  The parent then plays
// "next process": it opens the file with a fresh BuildDB, checks the stored
// snapshot for consistency against the log the child streamed, and continues
// with further mutations and builds whose results must equal a clean build.
#include "../enginex/driver.h"

#include <dlfcn.h>
#include <fcntl.h>
#include <stdarg.h>
#include <sys/stat.h>
#include <sys/wait.h>

using namespace ex;

// ---- libc interposition ---------------------------------------------------------
static std::string g_dbDir;          // every path under this directory is "the database"
static bool g_counting = false;      // only in the forked history child
static long g_count = 0, g_killAt = -1;
static bool g_tracked[4096];
static const char* g_lastOp = "";

static bool isDbPath(const char* p) { return p && !g_dbDir.empty() && strncmp(p, g_dbDir.c_str(), g_dbDir.size()) == 0; }
static void counted(const char* op) {
  if (!g_counting) return;
  ++g_count;
  g_lastOp = op;
  if (g_count == g_killAt) _exit(137);  // the process dies before issuing this call
}
template <typename T> static T real(const char* name) { return (T)dlsym(RTLD_NEXT, name); }

extern "C" {
int open(const char* path, int flags, ...) {
  static auto r = real<int (*)(const char*, int, ...)>("open");
  mode_t mode = 0;
  if (flags & (O_CREAT | O_TMPFILE)) { va_list ap; va_start(ap, flags); mode = (mode_t)va_arg(ap, int); va_end(ap); }
  bool db = isDbPath(path);
  if (db && (flags & (O_CREAT | O_TRUNC | O_WRONLY | O_RDWR))) counted("open");
  int fd = r(path, flags, mode);
  if (fd >= 0 && fd < 4096) g_tracked[fd] = db;
  return fd;
}
int open64(const char* path, int flags, ...) {
  static auto r = real<int (*)(const char*, int, ...)>("open64");
  mode_t mode = 0;
  if (flags & (O_CREAT | O_TMPFILE)) { va_list ap; va_start(ap, flags); mode = (mode_t)va_arg(ap, int); va_end(ap); }
  bool db = isDbPath(path);
  if (db && (flags & (O_CREAT | O_TRUNC | O_WRONLY | O_RDWR))) counted("open");
  int fd = r(path, flags, mode);
  if (fd >= 0 && fd < 4096) g_tracked[fd] = db;
  return fd;
}
static bool trackedFd(int fd) { return fd >= 0 && fd < 4096 && g_tracked[fd]; }
ssize_t pwrite(int fd, const void* b, size_t n, off_t o) {
  static auto r = real<ssize_t (*)(int, const void*, size_t, off_t)>("pwrite");
  if (trackedFd(fd)) counted("pwrite");
  return r(fd, b, n, o);
}
ssize_t pwrite64(int fd, const void* b, size_t n, off64_t o) {
  static auto r = real<ssize_t (*)(int, const void*, size_t, off64_t)>("pwrite64");
  if (trackedFd(fd)) counted("pwrite");
  return r(fd, b, n, o);
}
ssize_t write(int fd, const void* b, size_t n) {
  static auto r = real<ssize_t (*)(int, const void*, size_t)>("write");
  if (trackedFd(fd)) counted("write");
  return r(fd, b, n);
}
int fsync(int fd) {
  static auto r = real<int (*)(int)>("fsync");
  if (trackedFd(fd)) counted("fsync");
  return r(fd);
}
int fdatasync(int fd) {
  static auto r = real<int (*)(int)>("fdatasync");
  if (trackedFd(fd)) counted("fdatasync");
  return r(fd);
}
int ftruncate(int fd, off_t n) {
  static auto r = real<int (*)(int, off_t)>("ftruncate");
  if (trackedFd(fd)) counted("ftruncate");
  return r(fd, n);
}
int ftruncate64(int fd, off64_t n) {
  static auto r = real<int (*)(int, off64_t)>("ftruncate64");
  if (trackedFd(fd)) counted("ftruncate");
  return r(fd, n);
}
int unlink(const char* path) {
  static auto r = real<int (*)(const char*)>("unlink");
  if (isDbPath(path)) counted("unlink");
  return r(path);
}
int close(int fd) {
  static auto r = real<int (*)(int)>("close");
  if (fd >= 0 && fd < 4096) g_tracked[fd] = false;
  return r(fd);
}
}

// ---------------------------------------------------------------------------
static vj::Args args;
static std::string g_root;  // scratch root /dev/shm/verif-crashx-<pid>

static const char* kWorlds[] = {
    "a: x; b: a y",
    "a: x; b: a y; c: a b",
    "a: x !y; b: a",
    "a: x #cell; b: a y #cell",
    "a: x ?0=1>y; b: a",
    "a: x y %collapse; b: a",
    "a: x; b: a/S y; c: b a/M",
    "a: x %force; b: a #cell",
};
static const char* kHistories[] = {
    "b R",
    "b R, s x 1, b R",
    "b A, s y 1, b R",
    "b R, s x 1, s y 1, b R, b R",
    "b R, s x 1, b R @9999, r, s x 0, b R",   // (quick tier ends here)
    "b R, t A, b R",
    "b R, r, s x 1, b R",
    "b A, b R, s x 1, b A, s y 1, b R",
    "b R, s y 1, b R, r, s y 0, t A, b R",
    // a build that is interrupted gracefully (cancelled two thirds through, resolved per world) before the process
    // goes on / restarts: what it leaves in the database is what a kill in a LATER build falls back to
    "b A, s x 1, s y 1, b R @9999, s y 0, b R, r, b R",
};
static const char* kContinuations[] = {
    "b R",
    "s x F, b R",
    "b A, b R",
    "s y F, b A, r, b R",
    "r, b R, b R",
    "s x F, s y F, b R, s x F, b R",
    "t A, b R",
    "b R, s y F, r, b A, b R",
    "s x F, b A, s x F, b R",
    "b A, t A, r, b R",
    "r, s y F, b R",
    "b R, b A",
};

// R = last derived key, A = first derived key, F = flip (resolved against the ext at that time)
static History instantiate(const std::string& tmpl, const uv::World& w, const uv::Ext& ext0) {
  std::string s = tmpl;
  for (char& c : s) {
    if (c == 'R') c = w.derived.back();
    else if (c == 'A') c = w.derived.front();
  }
  History h;
  parseHistory(s, h);
  uv::Ext e = ext0;
  History out;
  for (auto ev : h) {
    if (ev.kind == 's') {
      if (!w.leaves.empty() && w.leaves.find(ev.key) == std::string::npos) continue;  // world without that leaf
      if (ev.val == 'F' - '0') ev.val = 1 - e.s[ev.key];
      e.s[ev.key] = ev.val;
    }
    if (ev.kind == 't') {
      // only meaningful for output-cell rules
      if (!w.rules.count(ev.key) || w.rules.at(ev.key).validity != 2) continue;
    }
    out.push_back(ev);
  }
  return out;
}

struct ChildLog {
  std::vector<std::string> records;  // "R ..." candidates
  std::string ext;                   // last external state
  long total = 0;
  std::string lastOp;
};

// Run the history in a forked child, dying before counted call `killAt` (<=0: never).
static bool runChild(const uv::World& w, const History& h, const std::string& dir, long killAt, ChildLog& log, int& exitCode) {
  std::string logPath = dir + ".log";
  ::unlink(logPath.c_str());
  pid_t pid = fork();
  if (pid == 0) {
    int lfd = ::open(logPath.c_str(), O_WRONLY | O_CREAT | O_APPEND, 0600);
    vj::Result scratch;
    Config cfg;
    cfg.prop = "C04";
    cfg.useDB = true;
    cfg.dbPath = dir + "/build.db";
    cfg.checkC02 = false; cfg.checkProto = false; cfg.checkC07 = false; cfg.checkPersist = false; cfg.checkC01 = false;
    g_dbDir = dir + "/";
    g_count = 0;
    g_killAt = killAt;
    g_counting = true;
    {
      Session s(w, cfg, scratch);
      s.traceSink = [lfd](const std::string& line) { std::string l = line + "\n"; (void)!::write(lfd, l.data(), l.size()); };
      s.traceExt();
      for (auto& ev : h) { s.apply(ev); if (ev.kind != 'b') s.traceExt(); }
    }
    g_counting = false;
    std::string t = "T " + std::to_string(g_count) + "\n";
    (void)!::write(lfd, t.data(), t.size());
    _exit(0);
  }
  int st = 0;
  waitpid(pid, &st, 0);
  exitCode = WIFEXITED(st) ? WEXITSTATUS(st) : 1000 + WTERMSIG(st);
  FILE* f = fopen(logPath.c_str(), "r");
  if (!f) return false;
  char* line = nullptr;
  size_t cap = 0;
  ssize_t n;
  while ((n = getline(&line, &cap, f)) > 0) {
    std::string l(line, (size_t)n);
    if (!l.empty() && l.back() == '\n') l.pop_back();
    if (l.compare(0, 2, "R ") == 0) log.records.push_back(l.substr(2));
    else if (l.compare(0, 2, "E ") == 0) log.ext = l.substr(2);
    else if (l.compare(0, 2, "T ") == 0) log.total = atol(l.c_str() + 2);
  }
  free(line);
  fclose(f);
  return true;
}

static std::string shell(const std::string& cmd) {
  std::string out;
  FILE* p = popen(cmd.c_str(), "r");
  if (!p) return "popen failed";
  char buf[512];
  while (fgets(buf, sizeof buf, p)) out += buf;
  pclose(p);
  while (!out.empty() && (out.back() == '\n' || out.back() == ' ')) out.pop_back();
  return out;
}

static void copyFile(const std::string& from, const std::string& to) {
  ::unlink(to.c_str());
  int a = ::open(from.c_str(), O_RDONLY);
  if (a < 0) return;
  int b = ::open(to.c_str(), O_WRONLY | O_CREAT | O_TRUNC, 0600);
  char buf[65536];
  ssize_t n;
  while ((n = read(a, buf, sizeof buf)) > 0) (void)!::write(b, buf, (size_t)n);
  ::close(a);
  ::close(b);
}

static void exploreOne(const uv::World& w, const std::string& histTmpl, vj::Result& res, bool thorough) {
  uv::Ext e0;
  for (char c : w.leaves) e0.s[c] = 0;
  History h = instantiate(histTmpl, w, e0);
  if (h.empty()) return;
  std::string dir = g_root + "/db";
  std::string cmd = "rm -rf " + dir + " && mkdir -p " + dir;
  (void)system(cmd.c_str());
  // resolve "@9999": cancel that build at two thirds of the steps it takes when left alone
  for (size_t i = 0; i < h.size(); ++i) {
    if (h[i].cancelAt != 9999) continue;
    vj::Result scratch;
    Config cfg;
    cfg.prop = "C04";
    cfg.useDB = true;
    cfg.dbPath = dir + "/dry.db";
    cfg.checkC02 = false; cfg.checkProto = false; cfg.checkC07 = false; cfg.checkPersist = false; cfg.checkC01 = false;
    int steps = 0;
    {
      Session s(w, cfg, scratch);
      for (size_t j = 0; j <= i; ++j) {
        Event ev = h[j];
        if (j == i) ev.cancelAt = -1;
        BuildObs o;
        s.apply(ev, &o);
        if (j == i) steps = o.steps;
      }
    }
    h[i].cancelAt = std::max(1, steps * 2 / 3);
    (void)system(cmd.c_str());
  }

  ChildLog dry;
  int ec = 0;
  runChild(w, h, dir, -1, dry, ec);
  if (ec != 0 || dry.total <= 0) { fprintf(stderr, "crashx: dry run failed (exit %d) world %s\n", ec, w.spec.c_str()); exit(3); }
  res.count("histories");
  res.maxOf("max_calls_per_history", dry.total);
  int ncont = thorough ? (int)(sizeof(kContinuations) / sizeof(kContinuations[0])) : 6;

  for (long N = 1; N <= dry.total; ++N) {
    if (args.overBudget()) { res.exhaustive = false; res.count("budget_hit"); return; }
    (void)system(cmd.c_str());
    ChildLog log;
    runChild(w, h, dir, N, log, ec);
    res.count("crash_points");
    std::string spec = w.spec + "|" + historyStr(h) + "|" + std::to_string(N);
    std::string where = " | world: " + w.spec + " | history: " + historyStr(h) + " | killed before database call #" + std::to_string(N) + " of " + std::to_string(dry.total);
    if (ec != 137) {
      res.violate("C04.harness-kill-missed", "child exited " + std::to_string(ec) + " instead of dying at the kill point" + where, spec);
      continue;
    }
    std::string dbPath = dir + "/build.db";
    // keep a pristine copy of the crashed state for every continuation
    copyFile(dbPath, dir + "/crashed.db");
    copyFile(dbPath + "-journal", dir + "/crashed.db-journal");
    bool haveJournal = access((dbPath + "-journal").c_str(), F_OK) == 0;
    if (haveJournal) res.count("crash_points_with_hot_journal");

    // (1) next process opens the database: consistent snapshot
    DBDump dd = readDatabase(dbPath);
    bool empty = false;
    if (!dd.ok) {
      if (dd.error.find("database-schema: -1") != std::string::npos) empty = true;  // no schema yet: nothing stored, will be recreated
      else { res.violate("C04.cannot-open-after-kill", "database cannot be opened by the next process: " + dd.error + where, spec); continue; }
    }
    if (empty) res.count("crash_points_before_schema");
    std::set<std::string> candidates(log.records.begin(), log.records.end());
    // candidate identity ignores nothing but is compared on the DBRecord string form
    for (auto& kv : dd.recs) {
      const DBRecord& r = kv.second;
      if (r.builtAt > dd.epoch || r.computedAt > dd.epoch)
        res.violate("C04.result-epoch-beyond-stored-epoch", "stored epoch " + std::to_string(dd.epoch) + " is smaller than the epochs of " + r.str() + where, spec);
      if (!candidates.count(r.str()))
        res.violate("C04.stored-record-never-produced", "stored record [" + r.str() + "] is not one the engine handed to the database (value with the dependency list of the same execution)" + where, spec);
      for (auto& d : r.deps)
        if (d.key.empty()) res.violate("C04.dangling-dependency", "stored dependency of " + r.key + " does not resolve to a key" + where, spec);
    }
    if (!empty) {
      std::string ic = shell("sqlite3 '" + dbPath + "' 'PRAGMA integrity_check;' 2>&1");
      if (ic != "ok") res.violate("C04.sqlite-integrity", "PRAGMA integrity_check says: " + ic.substr(0, 200) + where, spec);
    }
    std::string snap;
    for (auto& kv : dd.recs) snap += kv.second.str() + ";";
    res.count("evaluations");
    static std::set<std::string> distinct;
    if (distinct.insert(w.spec + "#" + std::to_string(dd.epoch) + "#" + snap + "#" + log.ext).second) res.count("distinct_nontrivial");

    // (2) continue from the crashed state: clean-build results
    for (int ci = 0; ci < ncont; ++ci) {
      copyFile(dir + "/crashed.db", dbPath);
      if (haveJournal) copyFile(dir + "/crashed.db-journal", dbPath + "-journal"); else ::unlink((dbPath + "-journal").c_str());
      Config cfg;
      cfg.prop = "C04";
      cfg.useDB = true;
      cfg.keepDB = true;
      cfg.dbPath = dbPath;
      cfg.checkC02 = false; cfg.checkProto = false; cfg.checkC07 = false; cfg.checkPersist = false;
      vj::Result sub;
      {
        // the session must see the external state at the moment of death
        uv::Ext ext;
        ext.parse(log.ext);
        History cont = instantiate(kContinuations[ci], w, ext);
        Session s(w, cfg, sub);  // constructor attaches the crashed database (recovery happens here)
        s.ext = ext;
        s.restart();             // re-create the engine so that rule definitions match the restored external state
        s.replayPrefix = "";
        for (auto& ev : cont) {
          BuildObs o;
          s.apply(ev, &o);
          if (ev.kind == 'b') {
            res.count("continuation_builds");
            if (!o.success) sub.violate("C04.continuation-build-failed", std::string("build of ") + ev.key + " failed after recovery: " + (o.errors.empty() ? "" : o.errors[0]), "");
          }
        }
        for (auto& v : sub.violations)
          res.violate(v.cls == "C04.stale-result" || v.cls == "C04.stale-input" ? "C04.stale-after-recovery" : v.cls,
                      v.what + " || after recovery, continuation: " + historyStr(cont) + where, spec + "|" + std::to_string(ci));
      }
      res.count("continuations");
    }
  }
  if (res.samples.size() < 5)
    res.sample("{\"world\": " + vj::q(w.spec) + ", \"history\": " + vj::q(historyStr(h)) + ", \"database_calls\": " + std::to_string(dry.total) + "}");
}

// ---------------------------------------------------------------------------
// Wide builds: root <- mid-i <- leaf-i for i < K.  A build stores 2K+1 results, so
// any scheme that commits "every so many results" (instead of once, together
// with the epoch) gets its intermediate commits exercised.
namespace fan {
struct World { int K = 0; int version = 1; std::function<void(const std::string&)> sink; };
static std::string leafVal(const World& w, int i) { return "L" + std::to_string(i) + "v" + std::to_string(w.version); }
static std::string midVal(const World& w, int i) { return "M(" + leafVal(w, i) + ")"; }
static std::string rootVal(const World& w) {
  unsigned long long h = 1469598103934665603ull;
  for (int i = 0; i < w.K; ++i) for (unsigned char c : midVal(w, i)) { h ^= c; h *= 1099511628211ull; }
  return "R" + std::to_string(h);
}
struct FTask : public Task {
  World& w; std::string key; std::vector<std::string> got;
  FTask(World& w, const std::string& k) : w(w), key(k) {}
  void start(TaskInterface ti) override {
    if (key == "root") { got.resize(w.K); for (int i = 0; i < w.K; ++i) ti.request("mid-" + std::to_string(i), i); }
    else if (key.compare(0, 4, "mid-") == 0) { got.resize(1); ti.request("leaf-" + key.substr(4), 0); }
  }
  void provideValue(TaskInterface, uintptr_t id, const KeyType&, const ValueType& v) override { got[id].assign(v.begin(), v.end()); }
  void inputsAvailable(TaskInterface ti) override {
    std::string v;
    if (key == "root") {
      unsigned long long h = 1469598103934665603ull;
      for (auto& g : got) for (unsigned char c : g) { h ^= c; h *= 1099511628211ull; }
      v = "R" + std::to_string(h);
    } else if (key.compare(0, 4, "mid-") == 0) v = "M(" + got[0] + ")";
    else v = leafVal(w, atoi(key.c_str() + 5));
    ti.complete(ValueType(v.begin(), v.end()));
  }
};
struct FRule : public Rule {
  World& w;
  FRule(World& w, const KeyType& k) : Rule(k), w(w) {}
  Task* createTask(BuildEngine&) override { return new FTask(w, key.str()); }
  bool isResultValid(BuildEngine&, const ValueType& v) override {
    if (key.str().compare(0, 5, "leaf-") != 0) return true;
    return std::string(v.begin(), v.end()) == leafVal(w, atoi(key.c_str() + 5));
  }
};
struct FDelegate : public BuildEngineDelegate {
  World& w; StubQueueDelegate qd; std::string errors; bool cycle = false;
  explicit FDelegate(World& w) : w(w) {}
  std::unique_ptr<Rule> lookupRule(const KeyType& k) override { return std::unique_ptr<Rule>(new FRule(w, k)); }
  std::unique_ptr<basic::ExecutionQueue> createExecutionQueue() override { return std::unique_ptr<basic::ExecutionQueue>(new StubQueue(qd)); }
  void cycleDetected(const std::vector<Rule*>&) override { cycle = true; }
  void error(const Twine& m) override { errors += m.str(); }
};
// one process: attach the database, build root once
static std::string buildOnce(World& w, const std::string& dbPath, std::string* err) {
  FDelegate del(w);
  BuildEngine engine(del);
  std::string e;
  auto inner = createSQLiteBuildDB(dbPath, 1, true, &e);
  auto* rec = new RecordingDB(std::move(inner));
  rec->onBeforeSet = [&w](const DBRecord& r) { if (w.sink) w.sink("R " + r.str()); };
  if (!engine.attachDB(std::unique_ptr<BuildDB>(rec), &e)) { if (err) *err = "attach: " + e; return ""; }
  const ValueType& v = engine.build("root");
  if (err) *err = del.errors + (del.cycle ? " cycle" : "");
  return std::string(v.begin(), v.end());
}
}  // namespace fan

static void fanScenario(int K, vj::Result& res) {
  std::string dir = g_root + "/fan";
  std::string cmd = "rm -rf " + dir + " && mkdir -p " + dir;
  std::string dbPath = dir + "/build.db", logPath = dir + ".log";
  auto runChildFan = [&](int version, long killAt, long* total, int* exitCode) {
    pid_t pid = fork();
    if (pid == 0) {
      int lfd = ::open(logPath.c_str(), O_WRONLY | O_CREAT | O_APPEND, 0600);
      fan::World w;
      w.K = K;
      w.version = version;
      w.sink = [lfd](const std::string& line) { std::string l = line + "\n"; (void)!::write(lfd, l.data(), l.size()); };
      g_dbDir = dir + "/";
      g_count = 0;
      g_killAt = killAt;
      g_counting = true;
      std::string err;
      std::string v = fan::buildOnce(w, dbPath, &err);
      g_counting = false;
      std::string t = "T " + std::to_string(g_count) + "\n";
      (void)!::write(lfd, t.data(), t.size());
      _exit(v == fan::rootVal(w) ? 0 : 9);
    }
    int st = 0;
    waitpid(pid, &st, 0);
    *exitCode = WIFEXITED(st) ? WEXITSTATUS(st) : 1000 + WTERMSIG(st);
    if (total) {
      *total = 0;
      FILE* f = fopen(logPath.c_str(), "r");
      char* line = nullptr; size_t cap = 0; ssize_t n;
      while (f && (n = getline(&line, &cap, f)) > 0) if (line[0] == 'T') *total = atol(line + 2);
      free(line);
      if (f) fclose(f);
    }
  };
  auto candidates = [&]() {
    std::set<std::string> c;
    FILE* f = fopen(logPath.c_str(), "r");
    char* line = nullptr; size_t cap = 0; ssize_t n;
    while (f && (n = getline(&line, &cap, f)) > 0) {
      std::string l(line, (size_t)n);
      if (!l.empty() && l.back() == '\n') l.pop_back();
      if (l.compare(0, 2, "R ") == 0) c.insert(l.substr(2));
    }
    free(line);
    if (f) fclose(f);
    return c;
  };
  // dry run: how many database calls does the second (incremental) build make?
  (void)system(cmd.c_str());
  ::unlink(logPath.c_str());
  long total = 0; int ec = 0;
  runChildFan(1, -1, nullptr, &ec);
  if (ec != 0) { fprintf(stderr, "crashx: fan build 1 failed (%d)\n", ec); exit(3); }
  runChildFan(2, -1, &total, &ec);
  if (ec != 0 || total <= 0) { fprintf(stderr, "crashx: fan dry run failed (%d)\n", ec); exit(3); }
  res.maxOf("max_calls_per_history", total);
  res.count("histories");
  copyFile(dbPath, dir + "/after1.db");  // not the state after build 1: re-create below
  for (long N = 1; N <= total; ++N) {
    if ((int)(N % args.nshards) != args.shard) continue;
    if (args.overBudget()) { res.exhaustive = false; res.count("budget_hit"); return; }
    (void)system(cmd.c_str());
    ::unlink(logPath.c_str());
    runChildFan(1, -1, nullptr, &ec);
    runChildFan(2, N, nullptr, &ec);
    res.count("crash_points");
    res.count("evaluations");
    std::string spec = "@fan|" + std::to_string(K) + "|" + std::to_string(N);
    std::string where = " | wide world root<-mid-i<-leaf-i, K=" + std::to_string(K) + ", second build (every leaf changed) killed before database call #" + std::to_string(N) + " of " + std::to_string(total);
    if (ec != 137) { res.violate("C04.harness-kill-missed", "child exited " + std::to_string(ec) + where, spec); continue; }
    DBDump dd = readDatabase(dbPath);
    if (!dd.ok) { res.violate("C04.cannot-open-after-kill", "database cannot be opened by the next process: " + dd.error + where, spec); continue; }
    auto cand = candidates();
    int bad = 0;
    for (auto& kv : dd.recs) {
      const DBRecord& r = kv.second;
      if ((r.builtAt > dd.epoch || r.computedAt > dd.epoch) && bad++ == 0)
        res.violate("C04.result-epoch-beyond-stored-epoch", "stored epoch " + std::to_string(dd.epoch) + " is smaller than the epochs of " + r.str() + where, spec);
      if (!cand.count(r.str())) res.violate("C04.stored-record-never-produced", "stored record [" + r.str() + "] is not one the engine handed to the database" + where, spec);
    }
    static std::set<std::string> distinct;
    std::string snap = std::to_string(dd.epoch) + "/" + std::to_string(dd.recs.size());
    for (auto& kv : dd.recs) snap += kv.second.builtAt == dd.epoch ? "n" : "o";
    if (distinct.insert(snap).second) res.count("distinct_nontrivial");
    // the next process continues with every leaf changed again
    fan::World w3;
    w3.K = K;
    w3.version = 3;
    std::string err;
    std::string v = fan::buildOnce(w3, dbPath, &err);
    res.count("continuations");
    res.count("continuation_builds");
    if (v != fan::rootVal(w3))
      res.violate(v.empty() ? "C04.continuation-build-failed" : "C04.stale-after-recovery",
                  "build continued from the recovered database returned '" + v + "', a clean build computes '" + fan::rootVal(w3) + "' " + err + where, spec);
  }
  res.sample("{\"world\": \"fan K=" + std::to_string(K) + "\", \"database_calls_in_killed_build\": " + std::to_string(total) + "}");
}

int main(int argc, char** argv) {
  args.parse(argc, argv);
  g_root = "/dev/shm/verif-crashx-" + std::to_string(getpid());
  mkdir(g_root.c_str(), 0700);
  vj::Result res;
  res.strings["rule"] =
      "worlds x histories x EVERY libc call touching the database, its journal or directory (open-for-write, pwrite, write, fsync, fdatasync, "
      "ftruncate, unlink) as a kill point (process _exit before the call) x continuation histories on the recovered database; distinct = "
      "distinct recovered snapshot (stored epoch + records + external state)";
  res.assumptions = {
      "process death only: writes already issued persist (page cache survives), nothing is torn or reordered (power loss is not claimed by the property)",
      "SQLite does no user-space buffering: 'not issued yet' == 'lost'",
      "rule programs from the enginex grammar; tasks are deterministic"};
  bool T = args.thorough();
  int nw = (int)(sizeof(kWorlds) / sizeof(kWorlds[0]));
  int nh = T ? (int)(sizeof(kHistories) / sizeof(kHistories[0])) : 5;

  if (!args.replaySpec.empty()) {
    // world|history|N[|ci]  -- re-run that single kill point (all continuations)
    std::vector<std::string> parts;
    std::stringstream ss(args.replaySpec);
    std::string t;
    while (std::getline(ss, t, '|')) parts.push_back(t);
    if (parts.size() < 3) return 3;
    uv::World w;
    if (!uv::parseWorld(parts[0], w)) return 3;
    // run only kill point N by temporarily exploring the literal history
    // (the enumeration below recomputes the same spec string)
    vj::Result all;
    exploreOne(w, parts[1], all, true);
    for (auto& v : all.violations) {
      std::string pre = parts[0] + "|" + parts[1] + "|" + parts[2];
      if (v.spec.compare(0, pre.size(), pre) == 0) res.violations.push_back(v);
    }
    res.count("evaluations", 1);
    res.write(args.out);
    std::string cmd = "rm -rf " + g_root;
    (void)system(cmd.c_str());
    return res.violations.empty() ? 0 : 1;
  }

  fanScenario(T ? 5000 : 1100, res);
  int item = 0;
  for (int wi = 0; wi < nw; ++wi)
    for (int hi = 0; hi < nh; ++hi, ++item) {
      if (item % args.nshards != args.shard) continue;
      uv::World w;
      std::string err;
      if (!uv::parseWorld(kWorlds[wi], w, &err)) { fprintf(stderr, "%s\n", err.c_str()); return 3; }
      exploreOne(w, kHistories[hi], res, T);
    }
  res.write(args.out);
  std::string cmd = "rm -rf " + g_root;
  (void)system(cmd.c_str());
  return res.violations.empty() ? 0 : 1;
}

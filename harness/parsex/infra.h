// parsex infrastructure: exact-size buffers, guard-page pre-screen, forked
// worker with watchdog, ASan report capture, symbolisation, shared result state.
//
// Every case (parser stage x input bytes) is executed
//   1. on a buffer whose last byte abuts a PROT_NONE page ("guard run"): a read
//      past the end faults, the SIGSEGV handler records the faulting pc and the
//      run is abandoned with siglongjmp - the worker survives, so the thousands
//      of inputs that hit one known over-read cost microseconds, not a fork;
//   2. if (1) was clean, on an exact-size malloc(n) buffer under AddressSanitizer
//      ("malloc run"): anything ASan reports kills the worker (exit code 77),
//      the parent attributes it to the case in the progress slot, re-runs it
//      alone for confirmation, and forks a new worker behind it.
// The first guard fault of every class in every shard is additionally confirmed
// under ASan on the exact-size malloc buffer (forked child) to obtain ASan's
// error kind and report head.
#pragma once
#include <algorithm>
#include <cerrno>
#include <csetjmp>
#include <csignal>
#include <cstdint>
#include <cstdio>
#include <cstdlib>
#include <cstring>
#include <elf.h>
#include <fcntl.h>
#include <link.h>
#include <pthread.h>
#include <string>
#include <sys/mman.h>
#include <sys/stat.h>
#include <sys/wait.h>
#include <ucontext.h>
#include <unistd.h>
#include <vector>

namespace px {

// ---------------------------------------------------------------- utilities
inline std::string toHex(const std::string& s) {
  static const char* d = "0123456789abcdef";
  std::string o;
  for (unsigned char c : s) { o += d[c >> 4]; o += d[c & 15]; }
  return o;
}
inline bool fromHex(const std::string& h, std::string& out) {
  out.clear();
  if (h.size() % 2) return false;
  auto v = [](char c) -> int { if (c >= '0' && c <= '9') return c - '0'; if (c >= 'a' && c <= 'f') return c - 'a' + 10; if (c >= 'A' && c <= 'F') return c - 'A' + 10; return -1; };
  for (size_t i = 0; i < h.size(); i += 2) { int a = v(h[i]), b = v(h[i + 1]); if (a < 0 || b < 0) return false; out += (char)(a * 16 + b); }
  return true;
}
// Printable rendering of bytes (C-like escapes), for `what` strings.
inline std::string show(const std::string& s, size_t cap = 160) {
  std::string o = "'";
  for (unsigned char c : s) {
    if (o.size() > cap) { o += "..."; break; }
    if (c == '\n') o += "\\n"; else if (c == '\r') o += "\\r"; else if (c == '\t') o += "\\t"; else if (c == '\\') o += "\\\\";
    else if (c == '\'') o += "\\'";
    else if (c < 0x20 || c >= 0x7f) { char b[8]; snprintf(b, sizeof b, "\\x%02x", c); o += b; }
    else o += (char)c;
  }
  return o + "'";
}
inline uint64_t fnv(const void* p, size_t n, uint64_t h = 1469598103934665603ull) {
  const unsigned char* b = (const unsigned char*)p;
  for (size_t i = 0; i < n; ++i) { h ^= b[i]; h *= 1099511628211ull; }
  return h;
}
inline std::string byteName(int c) { char b[8]; snprintf(b, sizeof b, "0x%02x", c & 255); return b; }

// ---------------------------------------------------------------- shared state
// Lives in MAP_SHARED anonymous memory so that results survive a worker crash.
enum { MAXV = 1500, MAXCLS = 512, MAXSYM = 1024, MAXCNT = 96, MAXSAMP = 6, SPECLEN = 6144, WHATLEN = 1200, CLSLEN = 200 };
struct VRec { char cls[CLSLEN]; char what[WHATLEN]; char spec[SPECLEN]; };
struct ClsRec { char cls[CLSLEN]; long long count; };
struct KeyRec { char key[CLSLEN]; char cls[CLSLEN]; char head[600]; };   // guard-fault key -> confirmed class
struct SymRec { uintptr_t off; char func[200]; char file[160]; int line; char pfunc[200]; char pfile[160]; int pline; };
struct CntRec { char name[64]; long long v; };
struct Shm {
  // progress slot
  volatile long long curItem; volatile int curCase; volatile int curPhase;   // phase 0 guard run, 1 malloc run
  volatile long long resumeItem;   // first item a new worker has to process
  volatile int resumeSkipCase;     // cases <= this of resumeItem are already decided
  volatile int done, budgetHit;
  volatile int inSym;              // a process is in the middle of a symboliser query
  // fault record written by the SIGSEGV handler before a worker gives up (non-guard faults)
  volatile int faultKind; volatile int nFaultPcs; volatile uintptr_t faultPcs[56];
  // results
  int ncnt; CntRec cnt[MAXCNT];
  int ncls; ClsRec cls[MAXCLS];
  int nkey; KeyRec keys[MAXCLS];
  int nviol; VRec viol[MAXV];
  int nsym; SymRec sym[MAXSYM];
  int nsamp; char samp[MAXSAMP][700];
  // distinct outcome table (open addressing)
  unsigned long long tableOwned; int tableSaturated;
};
extern Shm* S;
extern uint64_t* T;        // distinct table
extern int g_shard, g_nshards;

inline long long& counter(const char* name) {
  for (int i = 0; i < S->ncnt; ++i) if (!strcmp(S->cnt[i].name, name)) return S->cnt[i].v;
  if (S->ncnt >= MAXCNT) return S->cnt[MAXCNT - 1].v;
  snprintf(S->cnt[S->ncnt].name, sizeof S->cnt[0].name, "%s", name);
  S->cnt[S->ncnt].v = 0;
  return S->cnt[S->ncnt++].v;
}
// The distinct-outcome table is shared by all shard processes of one ./check invocation (same parent
// process), so that an outcome reached in several shards is counted once: a slot is claimed with a
// compare-and-swap and only the claiming shard counts it.  The sum over shards is then the exact number of
// distinct outcomes of the whole run.
struct SharedHdr { unsigned long long attached, finished, used, cap; };
extern SharedHdr* H;
inline void addDistinct(uint64_t h) {
  if (!h) h = 1;
  if (__atomic_load_n(&H->used, __ATOMIC_RELAXED) * 4 >= H->cap * 3) { S->tableSaturated = 1; return; }
  unsigned long long m = H->cap - 1, i = (h * 0x9E3779B97F4A7C15ull >> 20) & m;
  for (;;) {
    uint64_t cur = __atomic_load_n(&T[i], __ATOMIC_RELAXED);
    if (cur == h) return;
    if (cur == 0) {
      if (__atomic_compare_exchange_n(&T[i], &cur, h, false, __ATOMIC_RELAXED, __ATOMIC_RELAXED)) { ++S->tableOwned; __atomic_fetch_add(&H->used, 1, __ATOMIC_RELAXED); return; }
      if (cur == h) return;
    }
    i = (i + 1) & m;
  }
}
// Record a violation: counts per class, at most 5 written per class.
inline void violate(const std::string& cls, const std::string& what, const std::string& spec) {
  int k = -1;
  for (int i = 0; i < S->ncls; ++i) if (cls == S->cls[i].cls) { k = i; break; }
  if (k < 0) {
    if (S->ncls >= MAXCLS) return;
    k = S->ncls; snprintf(S->cls[k].cls, CLSLEN, "%s", cls.c_str()); S->cls[k].count = 0; ++S->ncls;
  }
  if (++S->cls[k].count > 5 || S->nviol >= MAXV) return;
  VRec& v = S->viol[S->nviol];
  snprintf(v.cls, CLSLEN, "%s", cls.c_str()); snprintf(v.what, WHATLEN, "%s", what.c_str()); snprintf(v.spec, SPECLEN, "%s", spec.c_str());
  ++S->nviol;
}

// ---------------------------------------------------------------- symboliser
// One llvm-symbolizer child per shard process, started by the parent before the
// first worker is forked; workers inherit the pipes (only one process talks to
// it at a time).  Results are memoised in shared memory.
extern int g_symIn, g_symOut;     // write to g_symIn, read from g_symOut
extern uintptr_t g_exeBase, g_exeEnd, g_textLo, g_textHi;
extern char g_exePath[512];

inline int phdrCb(struct dl_phdr_info* info, size_t, void*) {
  if (g_exeEnd) return 0;
  g_exeBase = info->dlpi_addr;
  uintptr_t hi = 0;
  for (int i = 0; i < info->dlpi_phnum; ++i)
    if (info->dlpi_phdr[i].p_type == PT_LOAD) {
      uintptr_t b = info->dlpi_addr + info->dlpi_phdr[i].p_vaddr, e = b + info->dlpi_phdr[i].p_memsz; if (e > hi) hi = e;
      if (info->dlpi_phdr[i].p_flags & PF_X) { g_textLo = b; g_textHi = e; }
    }
  g_exeEnd = hi;
  return 1;
}
inline void startSymbolizer() {
  if (g_symIn >= 0) { close(g_symIn); close(g_symOut); g_symIn = g_symOut = -1; }   // restart after a query was interrupted
  if (!g_exeEnd) dl_iterate_phdr(phdrCb, nullptr);
  ssize_t n = readlink("/proc/self/exe", g_exePath, sizeof g_exePath - 1);
  g_exePath[n > 0 ? n : 0] = 0;
  const char* cands[] = {"/usr/bin/llvm-symbolizer-14", "/usr/lib/llvm-14/bin/llvm-symbolizer", "/usr/bin/llvm-symbolizer"};
  const char* tool = nullptr;
  for (auto c : cands) if (access(c, X_OK) == 0) { tool = c; break; }
  if (!tool) return;
  int a[2], b[2];
  if (pipe(a) || pipe(b)) return;
  pid_t p = fork();
  if (p == 0) {
    dup2(a[0], 0); dup2(b[1], 1); close(a[0]); close(a[1]); close(b[0]); close(b[1]);
    int dn = open("/dev/null", O_WRONLY); if (dn >= 0) dup2(dn, 2);
    // our own image through /proc/<parent>/exe: stays valid even if the file on disk is replaced while we run
    std::string obj = "--obj=/proc/" + std::to_string((long)getppid()) + "/exe";
    execl(tool, tool, obj.c_str(), "--inlines", "--demangle", (char*)nullptr);
    _exit(127);
  }
  close(a[0]); close(b[1]);
  g_symIn = a[1]; g_symOut = b[0];
}
inline bool repoFile(const char* f) {
  if (!f[0] || f[0] == '?') return false;
  if (!strncmp(f, "/usr/", 5)) return false;
  if (strstr(f, "/harness/")) return false;
  if (strstr(f, "compiler-rt") || strstr(f, "sanitizer")) return false;
  return true;
}
// Strip namespaces and parameter lists: "llbuild::ninja::Lexer::lex(llbuild::ninja::Token&)" -> "Lexer::lex".
inline std::string shortFunc(std::string f) {
  const char* drop[] = {"(anonymous namespace)::", "llbuild::ninja::", "llbuild::core::", "llbuild::buildsystem::", "llbuild::basic::", "llbuild::"};
  for (auto d : drop) { size_t p; while ((p = f.find(d)) != std::string::npos) f.erase(p, strlen(d)); }
  size_t p = f.find('(');
  if (p != std::string::npos && p > 0) f.erase(p);
  // drop template arguments
  { std::string t; int depth = 0; for (char c : f) { if (c == '<') ++depth; else if (c == '>') { if (depth) --depth; } else if (!depth) t += c; } f = t; }
  // keep at most Class::function
  { size_t last = f.rfind("::"); if (last != std::string::npos && last > 0) { size_t prev = f.rfind("::", last - 1); if (prev != std::string::npos) f = f.substr(prev + 2); } }
  std::string o;
  for (char c : f) if (isalnum((unsigned char)c) || c == '_' || c == ':' || c == '~') o += c;
  if (o.size() > 70) o.resize(70);
  return o.empty() ? "unknown" : o;
}
// func/file/line: innermost (inlined) frame that lies in the repo (llvm Support included);
// pfunc/pfile/pline: innermost frame in llbuild's own sources (lib/{Ninja,Core,BuildSystem,Basic,Commands}, include/llbuild).
struct Frame { std::string func, file; int line = 0; bool ok = false; std::string pfunc, pfile; int pline = 0; bool pok = false; };
inline bool llbuildFile(const char* f) {
  return strstr(f, "/lib/Ninja/") || strstr(f, "/lib/Core/") || strstr(f, "/lib/BuildSystem/") || strstr(f, "/lib/Basic/") || strstr(f, "/lib/Commands/") || strstr(f, "/include/llbuild/");
}
// Symbolise a module offset; returns the innermost frame that lies in the repo.
inline Frame symOffset(uintptr_t off) {
  Frame fr;
  for (int i = 0; i < S->nsym; ++i) if (S->sym[i].off == off) {
    fr.func = S->sym[i].func; fr.file = S->sym[i].file; fr.line = S->sym[i].line; fr.ok = fr.func[0] != 0;
    fr.pfunc = S->sym[i].pfunc; fr.pfile = S->sym[i].pfile; fr.pline = S->sym[i].pline; fr.pok = fr.pfunc[0] != 0; return fr; }
  if (g_symIn >= 0) {
    char q[64]; int qn = snprintf(q, sizeof q, "0x%lx\n", (unsigned long)off);
    S->inSym = 1;
    if (write(g_symIn, q, qn) == qn) {
      // read until an empty line
      std::string buf; char c; int nl = 0;
      while (read(g_symOut, &c, 1) == 1) { buf += c; if (c == '\n') { if (++nl == 2) break; } else nl = 0; if (buf.size() > 20000) break; }
      // lines: func \n file:line:col \n ...
      std::vector<std::string> lines; size_t st = 0;
      for (size_t i = 0; i < buf.size(); ++i) if (buf[i] == '\n') { lines.push_back(buf.substr(st, i - st)); st = i + 1; }
      for (size_t i = 0; i + 1 < lines.size(); i += 2) {
        std::string fn = lines[i], fl = lines[i + 1];
        if (fn.empty()) break;
        int line = 0; std::string file = fl;
        size_t c2 = fl.rfind(':'); if (c2 != std::string::npos) { size_t c1 = fl.rfind(':', c2 - 1); if (c1 != std::string::npos) { file = fl.substr(0, c1); line = atoi(fl.c_str() + c1 + 1); } }
        if (!fr.ok && repoFile(file.c_str())) { fr.func = shortFunc(fn); fr.file = file; fr.line = line; fr.ok = true; }
        if (!fr.pok && llbuildFile(file.c_str())) { fr.pfunc = shortFunc(fn); fr.pfile = file; fr.pline = line; fr.pok = true; }
      }
    }
    S->inSym = 0;
  }
  if (S->nsym < MAXSYM) {
    SymRec& r = S->sym[S->nsym]; r.off = off; snprintf(r.func, sizeof r.func, "%s", fr.func.c_str()); snprintf(r.file, sizeof r.file, "%s", fr.file.c_str()); r.line = fr.line;
    snprintf(r.pfunc, sizeof r.pfunc, "%s", fr.pfunc.c_str()); snprintf(r.pfile, sizeof r.pfile, "%s", fr.pfile.c_str()); r.pline = fr.pline; ++S->nsym;
  }
  return fr;
}
// The parser a source file belongs to (for class names: a defect is named after where it is, not after the entry point used).
inline const char* componentOfFile(const std::string& f) {
  if (f.find("/Ninja/Lexer.") != std::string::npos) return "ninja-lexer";
  if (f.find("/Ninja/Parser.") != std::string::npos) return "ninja-parser";
  if (f.find("/Ninja/") != std::string::npos) return "ninja-loader";
  if (f.find("MakefileDepsParser.") != std::string::npos) return "makefile";
  if (f.find("DependencyInfoParser.") != std::string::npos) return "depinfo";
  if (f.find("/BuildSystem/") != std::string::npos) return "yaml";
  return nullptr;
}
inline std::string baseName(const std::string& f) { size_t p = f.rfind('/'); return p == std::string::npos ? f : f.substr(p + 1); }

// ---------------------------------------------------------------- guard buffer and SIGSEGV handling
// While a guard run is armed, a SIGSEGV is survived: the handler records what
// happened (kind, faulting address, pc chain), redirects the interrupted context
// to a trampoline running just below guardedCall()'s frame, and the trampoline
// unpoisons the abandoned stack and siglongjmp()s back.  Kinds:
//   F_GUARD  read of the PROT_NONE page directly behind the input  (= over-read)
//   F_STACK  fault next to the stack pointer                          (= unbounded recursion)
//   F_NULL   address in the zero page, F_WILD anything else
// Unarmed faults (malloc run, harness code) go to AddressSanitizer's handler.
extern "C" void __asan_unpoison_memory_region(void const volatile* addr, size_t size);
enum FaultKind { F_NONE, F_GUARD, F_STACK, F_NULL, F_WILD };
enum { MAXPCS = 56 };
extern char* g_guardBase; enum : size_t { GUARD_SPAN = 64 * 4096 };
extern sigjmp_buf g_env; extern volatile int g_armed;
extern struct sigaction g_oldSegv, g_oldBus;
extern volatile uintptr_t g_faultPcs[MAXPCS]; extern volatile int g_nFaultPcs;
extern volatile int g_faultKind; extern volatile uintptr_t g_faultAddr, g_faultSp, g_faultLo, g_safeSp;
extern uintptr_t g_rtLo, g_rtHi;   // address range of the sanitizer runtime inside our text segment (0,0 = unknown)
extern uintptr_t g_stackHi;

// Locate the sanitizer runtime in our own image: a stack overflow whose faulting pc is in parser/harness
// code cannot have interrupted the allocator (it never calls back into user code), so it is survivable.
inline bool runtimeSymbol(const char* n) {
  static const char* pre[] = {"__asan", "__sanitizer", "__interceptor_", "__lsan", "__ubsan", "__sancov", "_ZN11__sanitizer", "_ZN6__asan", "_ZN6__lsan", "_ZN7__ubsan",
                              "_ZN14__interception", "__interception", "_ZNK11__sanitizer", "_ZNK6__asan"};
  for (auto p : pre) if (!strncmp(n, p, strlen(p))) return true;
  return false;
}
inline void findRuntimeRange() {
  g_rtLo = g_rtHi = 0;
  int fd = open("/proc/self/exe", O_RDONLY); if (fd < 0) return;
  struct stat st; if (fstat(fd, &st)) { close(fd); return; }
  char* m = (char*)mmap(nullptr, st.st_size, PROT_READ, MAP_PRIVATE, fd, 0); close(fd);
  if (m == MAP_FAILED) return;
  Elf64_Ehdr* eh = (Elf64_Ehdr*)m; Elf64_Shdr* sh = (Elf64_Shdr*)(m + eh->e_shoff);
  uintptr_t lo = ~(uintptr_t)0, hi = 0;
  for (int i = 0; i < eh->e_shnum; ++i) {
    if (sh[i].sh_type != SHT_SYMTAB) continue;
    Elf64_Sym* sy = (Elf64_Sym*)(m + sh[i].sh_offset); size_t n = sh[i].sh_size / sizeof(Elf64_Sym); const char* str = m + sh[sh[i].sh_link].sh_offset;
    for (size_t k = 0; k < n; ++k) if (ELF64_ST_TYPE(sy[k].st_info) == STT_FUNC && sy[k].st_size && runtimeSymbol(str + sy[k].st_name)) { if (sy[k].st_value < lo) lo = sy[k].st_value; if (sy[k].st_value + sy[k].st_size > hi) hi = sy[k].st_value + sy[k].st_size; }
    // the range must not contain parser or harness code
    bool clean = hi > lo;
    for (size_t k = 0; k < n && clean; ++k) if (ELF64_ST_TYPE(sy[k].st_info) == STT_FUNC && sy[k].st_size && sy[k].st_value >= lo && sy[k].st_value < hi) {
      const char* nm = str + sy[k].st_name;
      if (strstr(nm, "llbuild") || strstr(nm, "4llvm") || !strncmp(nm, "_ZN2px", 6) || !strcmp(nm, "main")) clean = false;
    }
    if (clean) { g_rtLo = g_exeBase + lo; g_rtHi = g_exeBase + hi; }
  }
  munmap(m, st.st_size);
}
inline void guardTrampoline() {
  uintptr_t lo = g_faultKind == F_GUARD ? (g_faultSp > 8192 ? (g_faultSp - 8192) & ~(uintptr_t)4095 : 0) : g_faultLo & ~(uintptr_t)4095;
  if (lo && lo < g_safeSp && g_safeSp - lo < (64u << 20)) __asan_unpoison_memory_region((void*)lo, g_safeSp - lo);
  siglongjmp(g_env, 1);
}
// Lowest address of the stack that can be read without faulting (after a stack overflow the stack
// pointer itself may already be below the mapped part).
__attribute__((no_sanitize("address"))) inline uintptr_t lowestReadableStack(uintptr_t sp) {
  unsigned char vec;
  uintptr_t p = sp & ~(uintptr_t)4095;
  if (mincore((void*)p, 4096, &vec) == 0) return sp;
  for (int i = 0; i < 4096 && p + 4096 < g_stackHi; ++i) { p += 4096; if (mincore((void*)p, 4096, &vec) == 0) return p; }
  return g_stackHi;
}
// Follow the frame-pointer chain from bp; returns the number of pcs appended.
__attribute__((no_sanitize("address"))) inline int walkChain(uintptr_t bp, uintptr_t lo, volatile uintptr_t* out, int n, int max, bool textOnly) {
  while (n < max && bp >= lo && bp + 16 <= g_stackHi && (bp & 7) == 0) {
    uintptr_t ret = ((uintptr_t*)bp)[1], nb = ((uintptr_t*)bp)[0];
    if (!ret || (textOnly && !(ret > g_textLo && ret < g_textHi))) break;
    out[n++] = ret - 1;
    if (nb <= bp) break;
    bp = nb;
  }
  return n;
}
__attribute__((no_sanitize("address"), noinline)) inline void onSegv(int sig, siginfo_t* si, void* ctx) {
  ucontext_t* uc = (ucontext_t*)ctx; uintptr_t a = (uintptr_t)si->si_addr;
  if (g_armed) {
    uintptr_t sp = (uintptr_t)uc->uc_mcontext.gregs[REG_RSP], bp = (uintptr_t)uc->uc_mcontext.gregs[REG_RBP];
    uintptr_t gp = (uintptr_t)g_guardBase + GUARD_SPAN;
    if (a >= gp && a < gp + 4096) g_faultKind = F_GUARD;
    else if (a + 4096 >= sp && a < sp + 0xFFFF) g_faultKind = F_STACK;
    else if (a < 4096) g_faultKind = F_NULL;
    else g_faultKind = F_WILD;
    g_faultAddr = a; g_faultSp = sp;
    uintptr_t lo = g_faultKind == F_GUARD ? sp : lowestReadableStack(sp);
    g_faultLo = lo;
    int n = 0;
    g_faultPcs[n++] = (uintptr_t)uc->uc_mcontext.gregs[REG_RIP];
    n = walkChain(bp, lo, g_faultPcs, n, MAXPCS, false);
    if (n < 16 && g_faultKind != F_GUARD) {
      // The frame-pointer register is unusable (the fault is inside code built without frame pointers,
      // e.g. libstdc++ called from the parser).  Find the innermost frame record on the stack from which a
      // chain of at least 12 (saved-rbp, return-into-our-text) links can be followed, and walk from there.
      uintptr_t lim = lo + (512u << 10) < g_stackHi ? lo + (512u << 10) : g_stackHi;
      for (uintptr_t q = (lo + 7) & ~(uintptr_t)7; q + 16 <= lim; q += 8) {
        volatile uintptr_t tmp[12];
        if (walkChain(q, lo, tmp, 0, 12, true) == 12) { n = walkChain(q, lo, g_faultPcs, 1, MAXPCS, false); break; }
      }
    }
    g_nFaultPcs = n;
    g_armed = 0;
    uintptr_t rip = (uintptr_t)uc->uc_mcontext.gregs[REG_RIP];
    bool inParserCode = g_rtLo && rip > g_textLo && rip < g_textHi && !(rip >= g_rtLo && rip < g_rtHi);
    if (g_faultKind != F_GUARD && !(g_faultKind == F_STACK && inParserCode)) {
      // The fault is in runtime or library code (e.g. inside the allocator with its lock held), so the process
      // state is not trustworthy: hand the record to the parent and leave.  Nothing but stores and _exit here.
      S->faultKind = g_faultKind; S->nFaultPcs = n;
      for (int i = 0; i < n; ++i) S->faultPcs[i] = g_faultPcs[i];
      _exit(78);
    }
    uc->uc_mcontext.gregs[REG_RSP] = (greg_t)g_safeSp;
    uc->uc_mcontext.gregs[REG_RIP] = (greg_t)(uintptr_t)&guardTrampoline;
    return;
  }
  struct sigaction& old = sig == SIGBUS ? g_oldBus : g_oldSegv;
  if ((old.sa_flags & SA_SIGINFO) && old.sa_sigaction) { old.sa_sigaction(sig, si, ctx); return; }
  signal(sig, SIG_DFL);
}
inline void installGuard() {
  g_guardBase = (char*)mmap(nullptr, GUARD_SPAN + 4096, PROT_READ | PROT_WRITE, MAP_PRIVATE | MAP_ANONYMOUS, -1, 0);
  mprotect(g_guardBase + GUARD_SPAN, 4096, PROT_NONE);
  pthread_attr_t at; void* lo = nullptr; size_t sz = 0;
  if (pthread_getattr_np(pthread_self(), &at) == 0) { pthread_attr_getstack(&at, &lo, &sz); pthread_attr_destroy(&at); }
  g_stackHi = (uintptr_t)lo + sz;
  struct sigaction sa; memset(&sa, 0, sizeof sa);
  sa.sa_sigaction = onSegv; sa.sa_flags = SA_SIGINFO | SA_ONSTACK; sigemptyset(&sa.sa_mask);
  sigaction(SIGSEGV, &sa, &g_oldSegv);
  sigaction(SIGBUS, &sa, &g_oldBus);
}
// Place n bytes so that the byte after the last one is the PROT_NONE page.
inline char* guardPlace(const char* data, size_t n) {
  char* p = g_guardBase + GUARD_SPAN - n;
  if (n) memcpy(p, data, n);
  return p;
}
__attribute__((noinline)) inline bool guardedCall(void (*fn)()) {
  g_safeSp = (((uintptr_t)__builtin_frame_address(0) - 4096) & ~(uintptr_t)15) - 8;
  g_faultKind = F_NONE;
  if (sigsetjmp(g_env, 0) == 0) { g_armed = 1; fn(); g_armed = 0; return true; }
  g_armed = 0;
  return false;
}

// ---------------------------------------------------------------- scratch dir, stderr capture
extern char g_scratch[256];
inline std::string scratchFile(const char* name) { return std::string(g_scratch) + "/" + name; }
inline std::string readFileHead(const std::string& path, size_t cap = 200000) {
  std::string o; FILE* f = fopen(path.c_str(), "r"); if (!f) return o;
  char buf[8192]; size_t n;
  while (o.size() < cap && (n = fread(buf, 1, sizeof buf, f)) > 0) o.append(buf, n);
  fclose(f); return o;
}

// Parsed ASan report.
struct AsanInfo { bool present = false; std::string kind, access, located; std::vector<uintptr_t> offs; std::string head; };
inline AsanInfo parseAsan(const std::string& txt) {
  AsanInfo a;
  size_t p = txt.find("ERROR: AddressSanitizer: ");
  if (p == std::string::npos) return a;
  a.present = true;
  size_t q = p + strlen("ERROR: AddressSanitizer: ");
  size_t e = txt.find_first_of(" \n", q);
  a.kind = txt.substr(q, e - q);
  for (char& c : a.kind) if (!(isalnum((unsigned char)c) || c == '-')) c = '-';
  size_t eol = txt.find('\n', p);
  std::string l1 = txt.substr(p, eol - p);
  // drop run-specific addresses from the head
  size_t onaddr = l1.find(" on address"); if (onaddr != std::string::npos) l1.erase(onaddr);
  size_t onunk = l1.find(" on unknown address"); if (onunk != std::string::npos) l1.erase(onunk);
  a.head = l1;
  size_t r = txt.find("\nREAD of size", p); size_t w = txt.find("\nWRITE of size", p);
  size_t rw = r != std::string::npos ? r : w;
  if (rw != std::string::npos) { size_t at = txt.find(" at 0x", rw); size_t e2 = txt.find('\n', rw + 1); a.access = txt.substr(rw + 1, (at != std::string::npos && at < e2 ? at : e2) - rw - 1); }
  size_t loc = txt.find(" is located ", p);
  if (loc != std::string::npos) { size_t e2 = txt.find('\n', loc); std::string l = txt.substr(loc + 1, e2 - loc - 1); size_t br = l.find(" ["); if (br != std::string::npos) l.erase(br); a.located = l; }
  // frames of the first stack (until an empty line)
  size_t pos = eol == std::string::npos ? txt.size() : eol + 1;
  while (pos < txt.size()) {
    size_t e2 = txt.find('\n', pos); if (e2 == std::string::npos) e2 = txt.size();
    std::string l = txt.substr(pos, e2 - pos); pos = e2 + 1;
    size_t h = l.find('#');
    if (h == std::string::npos) { if (!a.offs.empty()) break; else continue; }
    size_t par = l.find("(" + std::string(g_exePath) + "+0x");
    if (par != std::string::npos) a.offs.push_back(strtoul(l.c_str() + par + 1 + strlen(g_exePath) + 1, nullptr, 16));
    else a.offs.push_back(0);
    if (a.offs.size() >= 64) break;
  }
  if (!a.access.empty()) a.head += "; " + a.access;
  if (!a.located.empty()) a.head += "; " + a.located;
  return a;
}
// First repo frame of a list of module offsets.
// Prefers a frame in llbuild's own sources (reported through func/file/line) over one in the bundled llvm Support.
inline Frame topRepoFrame(const std::vector<uintptr_t>& offs, size_t maxFrames = 12) {
  for (size_t i = 0; i < offs.size() && i < maxFrames; ++i) { if (!offs[i]) continue; Frame f = symOffset(offs[i]); if (f.pok) { f.func = f.pfunc; f.file = f.pfile; f.line = f.pline; f.ok = true; return f; } }
  for (size_t i = 0; i < offs.size() && i < maxFrames; ++i) { if (!offs[i]) continue; Frame f = symOffset(offs[i]); if (f.ok) return f; }
  return Frame();
}
// For stack overflows: the set of repo functions that repeat in the trace.
inline std::string recursionSet(const std::vector<uintptr_t>& offs) {
  std::vector<std::pair<std::string, int>> cnt;
  for (size_t i = 0; i < offs.size() && i < 48; ++i) {
    if (!offs[i]) continue; Frame f = symOffset(offs[i]); if (!f.ok) continue;
    std::string fn = f.pok ? f.pfunc : f.func;
    bool hit = false; for (auto& c : cnt) if (c.first == fn) { ++c.second; hit = true; }
    if (!hit) cnt.push_back({fn, 1});
  }
  std::vector<std::string> names;
  for (auto& c : cnt) if (c.second >= 3) names.push_back(c.first);
  std::sort(names.begin(), names.end());
  std::string o; for (auto& n : names) { if (!o.empty()) o += "+"; o += n; }
  if (o.size() > 120) o.resize(120);
  return o.empty() ? "unknown" : o;
}
inline const char* sigName(int s) {
  switch (s) { case SIGSEGV: return "SIGSEGV"; case SIGABRT: return "SIGABRT"; case SIGBUS: return "SIGBUS"; case SIGFPE: return "SIGFPE"; case SIGILL: return "SIGILL"; case SIGALRM: return "SIGALRM"; case SIGVTALRM: return "SIGVTALRM"; case SIGKILL: return "SIGKILL"; default: return "SIGOTHER"; }
}
inline std::string slug(const std::string& s, size_t cap = 48) {
  std::string o; bool dash = false;
  for (char c : s) { if (isalnum((unsigned char)c)) { o += (char)tolower(c); dash = false; } else if (!dash && !o.empty()) { o += '-'; dash = true; } if (o.size() >= cap) break; }
  while (!o.empty() && o.back() == '-') o.pop_back();
  return o;
}

}  // namespace px

// parsex: bounded-exhaustive checks of llbuild's hand-written parsers under AddressSanitizer.
//   --prop C19  no input can crash, hang or over-read a parser; Ninja lexer tokens tile the input
//   --prop C11  (codec part) discovered-dependency files are parsed back byte for byte, malformed ones are rejected
// See infra.h for the execution scheme (guard-page pre-screen + exact-size malloc buffers under ASan,
// forked worker with watchdog) and spaces.h / c11.h for the enumerated spaces.
#include "../common/json.h"
#include "c11.h"

#include <dirent.h>
#include <sys/resource.h>
#include <sys/time.h>

extern "C" const char* __asan_default_options() {
  return "halt_on_error=1:detect_leaks=0:exitcode=77:symbolize=0:abort_on_error=0:handle_abort=0:allocator_may_return_null=1:"
         "quarantine_size_mb=8:malloc_context_size=2:print_legend=0:detect_stack_use_after_return=0:handle_segv=1:use_sigaltstack=1";
}

namespace px {
Shm* S; uint64_t* T; SharedHdr* H; int g_shard = 0, g_nshards = 1;
int g_symIn = -1, g_symOut = -1; uintptr_t g_exeBase, g_exeEnd, g_textLo, g_textHi; char g_exePath[512];
char* g_guardBase; sigjmp_buf g_env; volatile int g_armed; struct sigaction g_oldSegv, g_oldBus;
volatile uintptr_t g_faultPcs[MAXPCS]; volatile int g_nFaultPcs; volatile int g_faultKind; volatile uintptr_t g_faultAddr, g_faultSp, g_faultLo, g_safeSp; uintptr_t g_stackHi, g_rtLo, g_rtHi;
char g_scratch[256];
}
using namespace px;

static std::string g_prop;
static char g_sharedTable[256];
static int g_abandonedHeavyRuns = 0;   // runs left by longjmp that leak loader state; the worker is recycled after a few hundred
static bool g_verbose = false;
static const char* g_lastSampleSpace = nullptr;
static const char* g_curSpace = "";

// ------------------------------------------------------------------------------------------ helpers
static std::string prefixFor(const Case& c, bool crash) {
  if (c.mode == M_C19) return "C19.";
  if (!crash) return "C11.";
  return (c.mode == M_RT_MK || c.mode == M_RT_DI) ? "C11.roundtrip-crash-" : "C11.malformed-crash-";
}
static std::string specOf(const Case& c) {
  std::string s;
  switch (c.mode) {
  case M_C19: return std::string(kStageName[c.stage]) + ":" + toHex(c.bytes);
  case M_RT_MK: s = std::string("rt:") + kStageName[c.stage] + ":" + toHex(c.bytes) + ":" + c.tag + ":"; for (size_t i = 0; i < c.expDeps.size(); ++i) s += (i ? "," : "") + toHex(c.expDeps[i]); return s;
  case M_RT_DI: s = std::string("rt:") + kStageName[c.stage] + ":" + toHex(c.bytes) + ":" + c.tag + ":"; for (size_t i = 0; i < c.expRecs.size(); ++i) s += (i ? "," : "") + toHex(std::string(1, (char)c.expRecs[i].first)) + toHex(c.expRecs[i].second); return s;
  default: return std::string("mal:") + kStageName[c.stage] + ":" + toHex(c.bytes) + ":" + c.tag;
  }
}
static bool caseFromSpec(const std::string& spec, Case& c) {
  std::vector<std::string> f; size_t st = 0;
  for (size_t i = 0; i <= spec.size(); ++i) if (i == spec.size() || spec[i] == ':') { f.push_back(spec.substr(st, i - st)); st = i + 1; }
  if (f.size() == 2) { c.mode = M_C19; c.stage = stageByName(f[0]); return c.stage >= 0 && fromHex(f[1], c.bytes); }
  if (f.size() == 5 && f[0] == "rt") {
    c.stage = stageByName(f[1]); if (c.stage < 0 || !fromHex(f[2], c.bytes)) return false;
    c.tag = f[3]; c.mode = c.stage == DEPINFO ? M_RT_DI : M_RT_MK;
    std::vector<std::string> parts; st = 0; const std::string& l = f[4];
    if (!l.empty()) for (size_t i = 0; i <= l.size(); ++i) if (i == l.size() || l[i] == ',') { parts.push_back(l.substr(st, i - st)); st = i + 1; }
    for (auto& p : parts) { std::string b; if (!fromHex(p, b)) return false; if (c.mode == M_RT_MK) c.expDeps.push_back(b); else { if (b.empty()) return false; c.expRecs.push_back({(unsigned char)b[0], b.substr(1)}); } }
    return true;
  }
  if (f.size() == 4 && f[0] == "mal") { c.stage = stageByName(f[1]); if (c.stage < 0 || !fromHex(f[2], c.bytes)) return false; c.tag = f[3]; c.mode = c.stage == DEPINFO ? M_MAL_DI : M_MAL_MK; return true; }
  return false;
}
static uint64_t fullHash(int stage, const Outcome& o) {
  uint64_t h = o.hash(stage);
  for (auto& t : o.toks) { h = fnv(&t.kind, sizeof t.kind, h); h = fnv(&t.off, sizeof t.off, h); h = fnv(&t.len, sizeof t.len, h); }
  for (auto& d : o.deps) { h = fnv(d.data(), d.size(), h); h = fnv("|", 1, h); }
  for (auto& r : o.recs) { h = fnv(&r.first, sizeof r.first, h); h = fnv(r.second.data(), r.second.size(), h); h = fnv("|", 1, h); }
  int l = o.loaded; h = fnv(&l, sizeof l, h);
  return h;
}
static std::vector<uintptr_t> toOffsets(const volatile uintptr_t* pcs, int n) {
  std::vector<uintptr_t> offs;
  for (int i = 0; i < n; ++i) { uintptr_t pc = pcs[i]; offs.push_back(pc >= g_exeBase && pc < g_exeEnd ? pc - g_exeBase : 0); }
  return offs;
}
static std::string inputDesc(const Case& c) { return std::string(kStageName[c.stage]) + " input " + show(c.bytes) + " (hex " + (c.bytes.size() <= 120 ? toHex(c.bytes) : toHex(c.bytes.substr(0, 120)) + "...") + ")"; }

// Run the stage body on an exact-size malloc buffer (the ASan-authoritative run).
static void mallocRun(const Case& c) {
  size_t n = c.bytes.size(); bool nul = stageNeedsNul(c.stage); size_t total = n + (nul ? 1 : 0);
  char* m = (char*)malloc(total ? total : 1);
  if (n) memcpy(m, c.bytes.data(), n);
  if (nul) m[n] = 0;
  g_stage = c.stage; g_buf = m; g_len = n; g_out.clear();
  stageBody();
  free(m);
}
// Fork a child that performs only the malloc run; returns its wait status and the stderr it produced.
static int forkedMallocRun(const Case& c, std::string& err, bool withGuardRun) {
  std::string path = scratchFile("confirm.err");
  fflush(stdout);
  pid_t p = fork();
  if (p == 0) {
    int fd = open(path.c_str(), O_CREAT | O_TRUNC | O_WRONLY, 0600); if (fd >= 0) { dup2(fd, 2); close(fd); }
    struct itimerval tv; memset(&tv, 0, sizeof tv); tv.it_value.tv_sec = 2; setitimer(ITIMER_VIRTUAL, &tv, nullptr); alarm(60);
    if (withGuardRun) {
      std::string data = c.bytes; if (stageNeedsNul(c.stage)) data.push_back('\0');
      g_stage = c.stage; g_buf = guardPlace(data.data(), data.size()); g_len = c.bytes.size(); g_out.clear();
      if (!guardedCall(stageBody)) _exit(79);
    }
    mallocRun(c);
    _exit(0);
  }
  int st = 0; while (waitpid(p, &st, 0) < 0 && errno == EINTR) {}
  err = readFileHead(path);
  return st;
}

// ------------------------------------------------------------------------------------------ fault classification
static void handleFault(const Case& c, int kind, const std::vector<uintptr_t>& offs) {
  Frame top = topRepoFrame(offs);
  std::string parser = top.ok && componentOfFile(top.file) ? componentOfFile(top.file) : kParserName[c.stage];
  std::string func = top.ok ? top.func : "unknown";
  std::string last = c.bytes.empty() ? "empty-input" : "after-" + byteName((unsigned char)c.bytes.back());
  std::string kindName = kind == F_GUARD ? "overread" : kind == F_STACK ? "stack-overflow" : kind == F_NULL ? "null-deref" : "segv";
  std::string ident = kind == F_STACK ? recursionSet(offs) : func;
  std::string key = prefixFor(c, true) + parser + "|" + kindName + "|" + ident + "|" + (kind == F_GUARD ? last : "");
  ++counter(kind == F_GUARD ? "overreads_caught_by_guard_page" : kind == F_STACK ? "stack_overflows_caught" : "segv_caught");
  int k = -1;
  for (int i = 0; i < S->nkey; ++i) if (key == S->keys[i].key) { k = i; break; }
  if (k < 0 && S->nkey < MAXCLS) {
    // First of its kind in this shard: confirm on the exact-size malloc buffer under AddressSanitizer.
    std::string err; int st = forkedMallocRun(c, err, false);
    AsanInfo a = parseAsan(err);
    ++counter("asan_confirmations");
    std::string cls;
    if (kind == F_GUARD) cls = prefixFor(c, true) + parser + "-" + (a.present ? a.kind : "overread-not-confirmed-by-asan") + "-" + func + "-" + last;
    else if (kind == F_STACK) cls = prefixFor(c, true) + parser + "-stack-overflow-" + ident;
    else cls = prefixFor(c, true) + parser + "-" + kindName + "-" + func;
    std::string head = a.present ? a.head : (WIFSIGNALED(st) ? std::string("killed by ") + sigName(WTERMSIG(st)) + " on the malloc buffer" : "no AddressSanitizer report on the malloc buffer (exit " + std::to_string(WIFEXITED(st) ? WEXITSTATUS(st) : -1) + ")");
    if (top.ok) head += " at " + baseName(top.file) + ":" + std::to_string(top.line) + " in " + top.func;
    k = S->nkey; snprintf(S->keys[k].key, CLSLEN, "%s", key.c_str()); snprintf(S->keys[k].cls, CLSLEN, "%s", cls.c_str()); snprintf(S->keys[k].head, sizeof S->keys[k].head, "%s", head.c_str()); ++S->nkey;
  }
  std::string cls = k >= 0 ? S->keys[k].cls : prefixFor(c, true) + parser + "-other-fault";
  std::string what = inputDesc(c) + (c.mode != M_C19 ? " [" + c.tag + "]" : "") + ": " + (k >= 0 ? S->keys[k].head : "");
  violate(cls, what, specOf(c));
  if (g_verbose) printf("FAULT %s\n  %s\n", cls.c_str(), what.c_str());
}

// ------------------------------------------------------------------------------------------ oracles
// Bytes the Ninja lexer is specified to skip between tokens (Lexer.cpp, Lexer::lex): non-newline white
// space (isspace minus \n \r) and the continuations "$\n", "$\r\n" ("$\n\r" pairs like any newline).
static int firstBadGapByte(const std::string& in, long a, long b) {
  long i = a;
  while (i < b) {
    unsigned char ch = in[i];
    if (ch == ' ' || ch == '\t' || ch == '\v' || ch == '\f') { ++i; continue; }
    if (ch == '$' && i + 1 < b && in[i + 1] == '\n') { i += 2; if (i < b && in[i] == '\r') ++i; continue; }
    if (ch == '$' && i + 2 < b && in[i + 1] == '\r' && in[i + 2] == '\n') { i += 3; continue; }
    return (int)i;
  }
  return -1;
}
static bool checkLexer(const Case& c, const Outcome& o, std::string& cls, std::string& why) {
  const std::string& in = c.bytes; long n = (long)in.size(); long prevEnd = 0;
  if (o.noEof) { cls = "ninja-lexer-no-eof"; why = "no EndOfFile token after size+3 calls of lex()"; return false; }
  for (size_t i = 0; i < o.toks.size(); ++i) {
    const Tok& t = o.toks[i]; bool isEof = t.kind == (int)ninja::Token::Kind::EndOfFile;
    if (t.off < 0 || t.off > n || (long)t.len > n - t.off) { cls = "ninja-lexer-token-out-of-bounds"; why = "token " + std::to_string(i) + " spans [" + std::to_string(t.off) + "," + std::to_string(t.off + t.len) + ") of " + std::to_string(n) + " bytes"; return false; }
    if (t.off < prevEnd) { cls = "ninja-lexer-token-overlap"; why = "token " + std::to_string(i) + " starts at " + std::to_string(t.off) + " before the end " + std::to_string(prevEnd) + " of its predecessor"; return false; }
    int bad = firstBadGapByte(in, prevEnd, t.off);
    if (bad >= 0) { cls = "ninja-lexer-gap-" + byteName((unsigned char)in[bad]); why = "byte " + byteName((unsigned char)in[bad]) + " at offset " + std::to_string(bad) + " lies between two tokens and is not skippable"; return false; }
    if (isEof) {
      if (t.off != n) {
        if ((unsigned char)in[t.off] == 0xFF) { cls = "ninja-lexer-0xff-is-eof"; why = "EndOfFile reported at offset " + std::to_string(t.off) + " of " + std::to_string(n) + " (byte 0xff there)"; }
        else { cls = "ninja-lexer-eof-before-end-at-" + byteName((unsigned char)in[t.off]); why = "EndOfFile reported at offset " + std::to_string(t.off) + " of " + std::to_string(n); }
        return false;
      }
      if (t.len != 0) { cls = "ninja-lexer-eof-with-length"; why = "EndOfFile token has length " + std::to_string(t.len); return false; }
    } else if (t.len == 0) { cls = "ninja-lexer-empty-token"; why = "token " + std::to_string(i) + " has length 0"; return false; }
    prevEnd = t.off + t.len;
  }
  return true;
}
static int firstDiff(const std::string& a, const std::string& b) { size_t i = 0; while (i < a.size() && i < b.size() && a[i] == b[i]) ++i; return i < a.size() ? (unsigned char)a[i] : -1; }

static void judge(const Case& c, const Outcome& o) {
  std::string cls, why;
  if (!o.problemClass.empty()) { cls = o.problemClass; why = o.problem; }
  else if (c.mode == M_C19) {
    if (c.stage <= LEX_VAR) checkLexer(c, o, cls, why);
  } else if (c.mode == M_RT_MK) {
    bool ok = o.errors == 0 && o.deps == c.expDeps;
    if (ok) ++counter("c11_roundtrips_ok");
    else {
      bool leadingColon = false; for (auto& p : c.expDeps) if (p[0] == ':') leadingColon = true;
      if (leadingColon) cls = "makefile-roundtrip-leading-colon";
      else {
        int ch = -1; for (size_t i = 0; i < c.expDeps.size(); ++i) { if (i >= o.deps.size()) { ch = (unsigned char)c.expDeps[i][0]; break; } if (o.deps[i] != c.expDeps[i]) { ch = firstDiff(c.expDeps[i], o.deps[i]); break; } }
        cls = "makefile-roundtrip-" + c.tag + "-at-" + charName(ch) + (o.errors ? "-with-error" : "");
      }
      why = "expected dependencies ["; for (size_t i = 0; i < c.expDeps.size(); ++i) why += (i ? "," : "") + show(c.expDeps[i]);
      why += "], parser delivered " + describeOutcome(c.stage, o);
    }
  } else if (c.mode == M_RT_DI) {
    bool ok = o.errors == 0 && o.recs == c.expRecs;
    if (ok) ++counter("c11_roundtrips_ok");
    else {
      int ch = -1; for (size_t i = 0; i < c.expRecs.size(); ++i) { if (i >= o.recs.size() || o.recs[i].first != c.expRecs[i].first) { ch = (unsigned char)c.expRecs[i].second[0]; break; } if (o.recs[i].second != c.expRecs[i].second) { ch = firstDiff(c.expRecs[i].second, o.recs[i].second); break; } }
      cls = std::string("depinfo-roundtrip-at-") + charName(ch) + (o.errors ? "-with-error" : "");
      why = "expected " + std::to_string(c.expRecs.size()) + " records, parser delivered " + describeOutcome(c.stage, o);
    }
  } else {
    if (o.errors > 0) ++counter("c11_malformed_rejected");
    else { cls = std::string("malformed-accepted-") + kParserName[c.stage] + "-" + c.tag; why = "no error reported; parser delivered " + describeOutcome(c.stage, o); }
  }
  if (!cls.empty()) {
    std::string full = prefixFor(c, false) + cls;
    std::string what = inputDesc(c) + (c.mode != M_C19 ? " [" + c.tag + "]" : "") + ": " + why;
    if (c.mode == M_C19 && c.stage <= LEX_VAR) what += "; tokens: " + describeOutcome(c.stage, o);
    violate(full, what, specOf(c));
    if (g_verbose) printf("VIOLATION %s\n  %s\n", full.c_str(), what.c_str());
  }
}

static void runCase1(const Case& c);
static void runCase(const Case& c) {
  if (!getenv("PARSEX_PROFILE")) return runCase1(c);
  struct timespec a, b; clock_gettime(CLOCK_PROCESS_CPUTIME_ID, &a);
  runCase1(c);
  clock_gettime(CLOCK_PROCESS_CPUTIME_ID, &b);
  counter((std::string("profile_cpu_us_") + kStageName[c.stage]).c_str()) += (b.tv_sec - a.tv_sec) * 1000000LL + (b.tv_nsec - a.tv_nsec) / 1000;
}
static void runCase1(const Case& c) {
  static long long* evalAll = &counter("evaluations");
  static long long* evalStage[NSTAGES];
  if (!evalStage[c.stage]) evalStage[c.stage] = &counter((std::string("evaluations_") + kStageName[c.stage]).c_str());
  ++*evalAll; ++*evalStage[c.stage];
  // 1. guard run
  S->curPhase = 0;
  {
    std::string data = c.bytes; if (stageNeedsNul(c.stage)) data.push_back('\0');
    g_stage = c.stage; g_buf = guardPlace(data.data(), data.size()); g_len = c.bytes.size(); g_out.clear();
  }
  if (!guardedCall(stageBody)) {
    // over-read caught by the guard page; classification must not be cut short by the watchdog
    struct itimerval off, old; memset(&off, 0, sizeof off); setitimer(ITIMER_VIRTUAL, &off, &old);
    handleFault(c, g_faultKind, toOffsets(g_faultPcs, g_nFaultPcs));
    setitimer(ITIMER_VIRTUAL, &old, nullptr);
    if (c.stage == NINJA_LOADER || c.stage == YAML || g_faultKind != F_GUARD) ++g_abandonedHeavyRuns;
    return;
  }
  uint64_t hg = fullHash(c.stage, g_out);
  // 2. exact-size malloc buffer under ASan
  S->curPhase = 1;
  mallocRun(c);
  S->curPhase = 2;
  uint64_t hm = fullHash(c.stage, g_out);
  if (hg != hm) {
    violate(prefixFor(c, false) + kParserName[c.stage] + "-result-depends-on-buffer-placement", inputDesc(c) + ": two runs on the same bytes (different buffers) produced different callbacks", specOf(c));
  }
  static long long* nontriv = &counter("nontrivial_evaluations"); static long long* withErr = &counter("evaluations_with_error_callbacks");
  if (g_out.events > (c.stage <= LEX_VAR ? 1 : 0) || g_out.errors) { ++*nontriv; addDistinct(g_out.hash(c.stage)); }
  if (g_out.errors) ++*withErr;
  judge(c, g_out);
  if (g_verbose) printf("RUN %s -> %s\n", inputDesc(c).c_str(), describeOutcome(c.stage, g_out).c_str());
  if (g_lastSampleSpace != g_curSpace && S->nsamp < MAXSAMP && g_out.events > 2) {
    g_lastSampleSpace = g_curSpace;
    std::string j = "{\"space\": " + vj::q(g_curSpace) + ", \"parser\": " + vj::q(kStageName[c.stage]) + ", \"input\": " + vj::q(show(c.bytes, 120)) + ", \"outcome\": " + vj::q(describeOutcome(c.stage, g_out).substr(0, 300)) + "}";
    snprintf(S->samp[S->nsamp], sizeof S->samp[0], "%s", j.c_str()); ++S->nsamp;
  }
}

// ------------------------------------------------------------------------------------------ worker / parent
static void workerMain(Source& src, const vj::Args& args, long long total) {
  std::string errPath = scratchFile("stderr");
  int fd = open(errPath.c_str(), O_CREAT | O_TRUNC | O_WRONLY, 0600);
  if (fd >= 0) { dup2(fd, 2); close(fd); }
  struct rlimit rl; if (getrlimit(RLIMIT_STACK, &rl) == 0) { rl.rlim_cur = 1 << 20; setrlimit(RLIMIT_STACK, &rl); }
  long long startItem = S->resumeItem; int startSkip = S->resumeSkipCase;
  long long n = 0;
  for (long long i = startItem; i < total; i += g_nshards) {
    S->curItem = i; S->curCase = -1;
    static const bool prof = getenv("PARSEX_PROFILE") != nullptr;
    struct timespec pa, pb; if (prof) clock_gettime(CLOCK_PROCESS_CPUTIME_ID, &pa);
    Item it; src.get(i, it);
    if (prof) { clock_gettime(CLOCK_PROCESS_CPUTIME_ID, &pb); counter("profile_cpu_us_generate") += (pb.tv_sec - pa.tv_sec) * 1000000LL + (pb.tv_nsec - pa.tv_nsec) / 1000; }
    if (!it.cases.empty()) {
      int skip = i == startItem ? startSkip : -1;
      if (skip < 0) { ++counter("inputs"); if (it.skipped) counter("wellformed_truncations_not_malformed") += it.skipped; }
      g_curSpace = it.space;
      struct itimerval tv; memset(&tv, 0, sizeof tv); tv.it_value.tv_sec = 2; setitimer(ITIMER_VIRTUAL, &tv, nullptr); alarm(60);
      off_t mark = lseek(2, 0, SEEK_CUR);
      for (int ci = 0; ci < (int)it.cases.size(); ++ci) { if (ci <= skip) continue; S->curCase = ci; runCase(it.cases[ci]); }
      memset(&tv, 0, sizeof tv); setitimer(ITIMER_VIRTUAL, &tv, nullptr); alarm(0);
      off_t now = lseek(2, 0, SEEK_CUR);
      if (now != mark && it.cases[0].mode == M_C19) {
        std::string txt = readFileHead(errPath); std::string line = (size_t)mark < txt.size() ? txt.substr(mark, txt.find('\n', mark) - mark) : "";
        violate(std::string("C19.") + kParserName[it.cases[0].stage] + "-writes-to-stderr-" + slug(line, 40), inputDesc(it.cases[0]) + ": the parser wrote to stderr instead of using its error callback: " + show(line, 200), specOf(it.cases[0]));
      }
    }
    S->resumeItem = i + g_nshards; S->resumeSkipCase = -1;
    if ((++n & 63) == 0 && args.overBudget()) { S->budgetHit = 1; break; }
    if (g_abandonedHeavyRuns >= 400) { ++counter("worker_recycles"); fflush(stdout); _exit(0); }   // resumeItem is set: the parent forks a fresh worker
  }
  S->done = 1;
  fflush(stdout);
  _exit(0);
}

static void parentHandleDeath(int status, Source& src) {
  long long item = S->curItem; int ci = S->curCase;
  Item it; src.get(item, it);
  if (ci < 0 || ci >= (int)it.cases.size()) { fprintf(stderr, "parsex: worker died outside a case (item %lld case %d status %d)\n%s\n", item, ci, status, readFileHead(scratchFile("stderr")).substr(0, 3000).c_str()); exit(3); }
  const Case& c = it.cases[ci];
  if (S->inSym) { S->inSym = 0; startSymbolizer(); }
  S->resumeItem = item; S->resumeSkipCase = ci;
  if (WIFEXITED(status) && WEXITSTATUS(status) == 78 && S->faultKind != F_NONE) {
    // stack overflow / wild access caught by the worker's SIGSEGV handler
    handleFault(c, S->faultKind, toOffsets(S->faultPcs, S->nFaultPcs));
    S->faultKind = F_NONE;
    return;
  }
  std::string err = readFileHead(scratchFile("stderr"));
  AsanInfo a = parseAsan(err);
  std::string parser = kParserName[c.stage], cls, head;
  std::string last = c.bytes.empty() ? "empty-input" : "after-" + byteName((unsigned char)c.bytes.back());
  if (a.present) {
    Frame top = topRepoFrame(a.offs);
    if (top.ok && componentOfFile(top.file)) parser = componentOfFile(top.file);
    if (a.kind == "stack-overflow") cls = parser + "-stack-overflow-" + recursionSet(a.offs);
    else {
      // "-after-<last byte>" only when the overflowed region is the input buffer itself (same size); an overflow of
      // any other buffer (e.g. the served include file) must not be split by the last byte of the main input
      std::string where;
      if (a.kind.find("overflow") != std::string::npos) {
        size_t rp = a.located.find("-byte region"); long rsz = -1;
        if (rp != std::string::npos) { size_t b = a.located.rfind(' ', rp); rsz = atol(a.located.c_str() + (b == std::string::npos ? 0 : b + 1)); }
        size_t want = c.bytes.size() + (stageNeedsNul(c.stage) ? 1 : 0); if (!want) want = 1;
        where = rsz == (long)want ? "-" + last : "-of-another-buffer";
      }
      cls = parser + "-" + a.kind + "-" + (top.ok ? top.func : "unknown") + where;
    }
    head = a.head; if (top.ok) head += " at " + baseName(top.file) + ":" + std::to_string(top.line) + " in " + top.func;
  } else if (WIFSIGNALED(status)) {
    int sg = WTERMSIG(status);
    std::string first = err.substr(0, err.find('\n'));
    if (sg == SIGVTALRM || sg == SIGALRM) { cls = "hang-" + parser; head = sg == SIGVTALRM ? "no termination within 2 s of CPU time" : "no termination within 60 s"; }
    else if (sg == SIGABRT) { cls = parser + "-abort-" + slug(first, 40); head = "abort(): " + show(first, 200); }
    else { cls = parser + "-signal-" + sigName(sg); head = std::string("killed by ") + sigName(sg); }
  } else { cls = parser + "-exit-" + std::to_string(WEXITSTATUS(status)); head = "the process exited with status " + std::to_string(WEXITSTATUS(status)) + ": " + show(err.substr(0, err.find('\n')), 200); }
  // Attribute to this single input: run it alone in a fresh process.  A death that does not reproduce alone
  // is retried once in the next worker (the case is not skipped); only a second death is reported.
  static long long retriedItem = -1; static int retriedCase = -1;
  int n = 0; for (int i = 0; i < S->ncls; ++i) if ((prefixFor(c, true) + cls) == S->cls[i].cls) n = (int)S->cls[i].count;
  bool isHang = cls.compare(0, 5, "hang-") == 0;
  if (n < 3 || isHang) {
    std::string err2; int st2 = forkedMallocRun(c, err2, true);
    bool same = (WIFSIGNALED(status) && WIFSIGNALED(st2) && WTERMSIG(status) == WTERMSIG(st2)) || (WIFEXITED(status) && WIFEXITED(st2) && WEXITSTATUS(status) == WEXITSTATUS(st2));
    ++counter("crash_rerun_alone");
    if (!same) {
      if (!(retriedItem == item && retriedCase == ci)) { retriedItem = item; retriedCase = ci; ++counter("deaths_not_reproduced_alone_retried"); S->resumeSkipCase = ci - 1; return; }
      cls += "-not-reproducible-alone"; head += " (twice in a worker, but not when the input was run alone)";
    }
  }
  if (c.mode == M_C19 && isHang) cls = "C19." + cls; else cls = prefixFor(c, true) + cls;
  ++counter("worker_deaths");
  violate(cls, inputDesc(c) + (c.mode != M_C19 ? " [" + c.tag + "]" : "") + ": " + head, specOf(c));
  if (g_verbose) printf("DEATH %s\n  %s\n", cls.c_str(), head.c_str());
}

struct SingleSource : Source { Item item; long long count() override { return 1; } void get(long long, Item& it) override { it = item; } };

int main(int argc, char** argv) {
  vj::Args args; args.parse(argc, argv);
  g_prop = args.prop; g_shard = args.shard; g_nshards = args.nshards < 1 ? 1 : args.nshards;
  if (g_prop != "C19" && g_prop != "C11") { fprintf(stderr, "parsex: --prop C19|C11\n"); return 3; }
  bool thorough = args.thorough();
  // scratch dir
  snprintf(g_scratch, sizeof g_scratch, "/dev/shm/verif-parsex-%d", (int)getpid());
  mkdir(g_scratch, 0700);
  atexit([] { unlink(scratchFile("stderr").c_str()); unlink(scratchFile("confirm.err").c_str()); rmdir(g_scratch); });   // workers leave through _exit
  // shared state
  unsigned long long cap = thorough ? (1ull << 24) : (1ull << 22);
  S = (Shm*)mmap(nullptr, sizeof(Shm), PROT_READ | PROT_WRITE, MAP_SHARED | MAP_ANONYMOUS, -1, 0);
  if (S == MAP_FAILED) { fprintf(stderr, "parsex: mmap failed\n"); return 3; }
  // distinct-outcome table: shared with the sibling shards (children of the same ./check process) when sharded
  size_t tableBytes = 4096 + cap * 8; char* tb = (char*)MAP_FAILED;
  if (g_nshards > 1 && args.replaySpec.empty()) {
    // parent start time makes the name unique per invocation
    unsigned long long pstart = 0; { char pth[64]; snprintf(pth, sizeof pth, "/proc/%d/stat", (int)getppid()); std::string st = readFileHead(pth, 4096); size_t rp = st.rfind(')'); int field = 2; for (size_t i = rp == std::string::npos ? 0 : rp + 1; i < st.size(); ++i) if (st[i] == ' ') { if (++field == 22) { pstart = strtoull(st.c_str() + i + 1, nullptr, 10); break; } } }
    // remove tables left behind by runs whose parent process is gone
    if (DIR* d = opendir("/dev/shm")) {
      while (struct dirent* e = readdir(d)) {
        int pid = 0;
        if (sscanf(e->d_name, "verif-parsex-shared-%d-", &pid) == 1 && pid > 0 && kill(pid, 0) != 0 && errno == ESRCH) unlink((std::string("/dev/shm/") + e->d_name).c_str());
      }
      closedir(d);
    }
    snprintf(g_sharedTable, sizeof g_sharedTable, "/dev/shm/verif-parsex-shared-%d-%llu-%s-%s-%d", (int)getppid(), pstart, g_prop.c_str(), args.tier.c_str(), g_nshards);
    int fd = open(g_sharedTable, O_CREAT | O_RDWR, 0600);
    if (fd >= 0 && ftruncate(fd, tableBytes) == 0) tb = (char*)mmap(nullptr, tableBytes, PROT_READ | PROT_WRITE, MAP_SHARED, fd, 0);
    if (fd >= 0) close(fd);
    if (tb == MAP_FAILED) g_sharedTable[0] = 0;
  }
  if (tb == MAP_FAILED) tb = (char*)mmap(nullptr, tableBytes, PROT_READ | PROT_WRITE, MAP_SHARED | MAP_ANONYMOUS | MAP_NORESERVE, -1, 0);
  if (tb == MAP_FAILED) { fprintf(stderr, "parsex: mmap failed\n"); return 3; }
  H = (SharedHdr*)tb; T = (uint64_t*)(tb + 4096); H->cap = cap;
  __atomic_fetch_add(&H->attached, 1, __ATOMIC_SEQ_CST);
  atexit([] {   // the last shard to finish removes the shared table
    if (!g_sharedTable[0]) return;
    if (__atomic_add_fetch(&H->finished, 1, __ATOMIC_SEQ_CST) >= (unsigned long long)g_nshards) unlink(g_sharedTable);
  });
  startSymbolizer();
  findRuntimeRange();
  installGuard();

  // spaces
  MultiSource multi; std::vector<std::unique_ptr<Source>> own; std::string rule; std::vector<std::string> assumptions;
  SingleSource single; Source* src = &multi;
  // --extra only=<n>,<n>.. restricts the run to the listed sub-spaces (by position; debugging aid, result is marked non-exhaustive)
  int addIdx = 0; bool restricted = false;
  auto add = [&](Source* s) {
    own.emplace_back(s); int me = addIdx++;
    if (args.extra.compare(0, 5, "only=") == 0) { restricted = true; if (("," + args.extra.substr(5) + ",").find("," + std::to_string(me) + ",") == std::string::npos) return; }
    multi.add(s);
  };
  if (!args.replaySpec.empty()) {
    Case c; if (!caseFromSpec(args.replaySpec, c)) { fprintf(stderr, "parsex: bad replay spec\n"); return 3; }
    if ((c.mode == M_C19) != (g_prop == "C19")) { fprintf(stderr, "parsex: replay spec does not belong to %s\n", g_prop.c_str()); return 3; }
    single.item.cases.push_back(c); single.item.space = "replay"; src = &single; g_verbose = true; g_shard = 0; g_nshards = 1;
  } else if (g_prop == "C19") {
    int tl = thorough ? 6 : 5;
    add(new NinjaTokenSpace(tl, false)); add(new NinjaTokenSpace(tl - 1, true)); add(new NinjaByteSpace(thorough ? 4 : 3)); add(new NinjaLoaderSpace(thorough));
    add(new MakefileSpace(thorough ? 8 : 7)); add(new DepInfoSpace(thorough ? 7 : 6)); add(new YamlSpace(thorough));
    rule = std::string("every input of: Ninja token strings of length <=") + std::to_string(tl) + " over 16 tokens {x,' ',\\n,$,:,|,=,#,${,},rule,build,default,include,subninja,pool}; those of length <=" + std::to_string(tl - 1) +
           " over the 16 plus {0xff, $\\n, \\r} that contain one of the three; raw byte strings of length <=" + (thorough ? "4" : "3") + " over {00,09,0a,0d,20,24,3a,7c,23,61,80,ff} - each through the lexer in its 4 modes, the parser "
           "with no-op actions and the manifest loader (in-memory files, fixed include); rule+build templates 'rule r / command = V1 / [description|depfile|x = V2] / build o: r i / [binding]' with V1 over <=2 and V2 over <=" + (thorough ? "2" : "1") +
           " value tokens {a,$command,$description,${depfile},$in,$out,$$,$,${,$x,' '} through parser and loader; Makefile-deps strings of length <=" + (thorough ? "8" : "7") + " over {a,' ',:,\\\\,\\n,\\r,#,$} (both parser modes); "
           "dependency-info strings of length <=" + (thorough ? "7" : "6") + " over {00,10,11,40,'a',ff}; YAML build descriptions from the shape generator (sections absent/present/duplicated x 3 orders x block/flow; every value shape per section; pairs of "
           "wrong-shaped sections; 10 tools x 36 attribute names x 16 value shapes in 'commands' and 'tools'; command/node/client structure) through BuildSystem::loadDescription with the built-in tools. "
           "evaluations = (parser stage, input) pairs, each executed on a guard-page-terminated buffer and then on an exact-size malloc buffer under AddressSanitizer. "
           "distinct_nontrivial = distinct (parser stage, callback/token-kind sequence, error count) outcomes with at least one callback or non-EOF token; the shards of one run share the table and an outcome is counted by the "
           "shard that inserts it first, so the sum over shards is the exact number of distinct outcomes";
    assumptions = {"each input runs with a 2 s CPU-time watchdog and a 1 MiB stack; exceeding either is reported as a verdict (hang / stack overflow)",
                   "Ninja, Makefile-deps and dependency-info parsers get StringRef(data,len) over an exact-size buffer with no terminator; the YAML loader gets the NUL-terminated MemoryBuffer that LLVM's YAML parser requires",
                   "include/subninja in the loader is served a fixed 4-line manifest that includes nothing; file-system access is in-memory",
                   "inputs that over-read on the guard-page buffer are not all re-run under AddressSanitizer: the first of every (parser, faulting function, last input byte) class per shard is, the rest are attributed to that class by faulting function",
                   "YAML documents are emitted by the generator (double-quoted scalars, block style two levels deep, flow style below); YAML syntax outside that subset is not explored; duplicated mapping keys are treated as well-formed"};
  } else {
    add(new MkSingleSource(thorough ? 6 : 4)); add(new MkPairSource(thorough ? 3 : 2)); add(new MkFaultSource()); add(new DiSource(thorough)); add(new DiFaultSource());
    rule = std::string("Makefile style: every path of length 1..") + (thorough ? "6" : "4") + " over {a,' ',#,$,\\\\,:,/,.} alone and every ordered pair of paths of length 1.." + (thorough ? "3" : "2") +
           ", rendered with the documented escaping (\\<space>, \\#, \\\\, $$) as {one rule, no final newline, CRLF, '\\<newline>' continuation in front of every path, CRLF continuation, two rules, two rules CRLF}; the unescaped words handed to "
           "actOnRuleDependency (what ShellCommand consumes) must equal the paths and no error may be reported; two-rule files also in ignore-subsequent-outputs mode. dependency-info: version record + <=2 records (thorough: +3 one-byte records) "
           "with opcodes {10,11,40} and operands of length 1..3 over {a,' ',ff,\\n}. Malformed: every proper prefix of every file above that is not itself a well-formed shorter file (cut inside an escape, inside '$$', inside a continuation, "
           "before the ':' / not at a record boundary) and structural faults (missing ':', lone '$', empty target; missing/late/duplicate version record, unknown opcode, empty operand, missing terminator, trailing NUL) must produce >=1 error callback. "
           "evaluations = parser executions (each on a guard-page buffer and an exact-size malloc buffer under ASan); distinct_nontrivial as for C19 (callback-kind sequence, error count)";
    assumptions = {"codec part only: the link from parsed path to rebuild decision is checked by worldx",
                   "a path is any non-empty string over the alphabet; ':' is written literally (the format has no escape for it) - this includes paths that begin with ':'",
                   "paths containing newline, NUL or tab are not expressible in the Makefile format and are outside the space; empty paths/operands are not expressible",
                   "the rule target is the fixed word 'out'/'out2' (ShellCommand ignores rule names)",
                   "a prefix of a well-formed file that ends at a point where the shorter file is itself well-formed (e.g. after a complete path, or between CR and LF) is not malformed and nothing is demanded of it",
                   "a dependency-info file is malformed iff it is not: version record, then records with opcode in {10,11,40}, every operand non-empty and NUL-terminated"};
  }
  long long total = src->count();
  S->resumeItem = g_shard; S->resumeSkipCase = -1;

  // parent loop: fork workers until the work list is done
  int deaths = 0;
  while (!S->done) {
    fflush(stdout);
    pid_t p = fork();
    if (p < 0) { perror("fork"); return 3; }
    if (p == 0) workerMain(*src, args, total);
    int st = 0; while (waitpid(p, &st, 0) < 0 && errno == EINTR) {}
    if (WIFEXITED(st) && WEXITSTATUS(st) == 0) { if (S->done) break; continue; }   // not done = the worker recycled itself
    parentHandleDeath(st, *src);
    if (++deaths > 200000) { fprintf(stderr, "parsex: too many worker deaths\n"); S->budgetHit = 1; break; }
    if (args.elapsed() > 3 * args.budget + 60) { S->budgetHit = 1; break; }
  }

  // result
  vj::Result res;
  for (int i = 0; i < S->ncnt; ++i) res.counters[S->cnt[i].name] = S->cnt[i].v;
  if (!res.counters.count("evaluations")) res.counters["evaluations"] = 0;
  res.counters["distinct_nontrivial"] = (long long)S->tableOwned;
  if (S->tableSaturated) res.counters["distinct_table_saturated"] = 1;
  for (int i = 0; i < S->ncls; ++i) res.counters[std::string("violations.") + S->cls[i].cls] = S->cls[i].count;
  res.strings["rule"] = rule.empty() ? "replay of one case" : rule;
  for (int i = 0; i < S->nsamp; ++i) res.samples.push_back(S->samp[i]);
  res.assumptions = assumptions;
  res.exhaustive = !S->budgetHit && args.replaySpec.empty() && !restricted;
  for (int i = 0; i < S->nviol; ++i) res.violations.push_back({S->viol[i].cls, S->viol[i].what, S->viol[i].spec});
  bool ok = res.write(args.out);
  if (g_verbose) printf("%d violation(s)\n", S->nviol);
  if (g_symIn >= 0) close(g_symIn);
  if (!ok) return 3;
  return S->nviol ? 1 : 0;
}

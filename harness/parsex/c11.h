// parsex spaces for C11 (codec part): dependency files rendered with the documented
// escaping must be parsed back byte for byte; malformed files must raise an error.
#pragma once
#include "spaces.h"

namespace px {

// ---- Makefile rendering -----------------------------------------------------------------------------
// A rendered file is a list of atoms; an atom is indivisible for the well-formedness of a prefix.
enum AtomKind { A_TARGET, A_COLON, A_PLAIN, A_ESCAPE, A_DOLLAR, A_CONT_LF, A_CONT_CRLF, A_EOL_LF, A_EOL_CRLF, A_SPACE };
struct Atom { int kind; std::string text; };
struct MkFile { std::vector<Atom> atoms; std::string bytes() const { std::string s; for (auto& a : atoms) s += a.text; return s; } };

static const unsigned char kPathBytes[8] = {'a', ' ', '#', '$', '\\', ':', '/', '.'};
inline const char* charName(int c) {
  switch (c) { case 'a': return "plain"; case ' ': return "space"; case '#': return "hash"; case '$': return "dollar"; case '\\': return "backslash"; case ':': return "colon";
               case '/': return "slash"; case '.': return "dot"; case '\n': return "newline"; case 0xFF: return "0xff"; case -1: return "end"; default: return "other"; }
}
// The documented escaping: space, '#' and backslash are preceded by a backslash, '$' is doubled.
inline void renderPath(const std::string& p, MkFile& f) {
  for (char c : p) {
    if (c == ' ' || c == '#' || c == '\\') f.atoms.push_back({A_ESCAPE, std::string("\\") + c});
    else if (c == '$') f.atoms.push_back({A_DOLLAR, "$$"});
    else f.atoms.push_back({A_PLAIN, std::string(1, c)});
  }
}
enum MkLayout { L_ONE_RULE, L_NO_EOL, L_CRLF, L_CONT, L_CONT_CRLF, L_TWO_RULES, L_TWO_RULES_CRLF, NLAYOUTS };
static const char* const kLayoutName[NLAYOUTS] = {"one-rule", "no-final-newline", "crlf", "continuation", "crlf-continuation", "two-rules", "two-rules-crlf"};
// paths.size() is 1 or 2.  Continuation layouts put "\<newline> " in front of every path, the way compilers do.
inline MkFile renderMk(const std::vector<std::string>& paths, int layout) {
  MkFile f; bool crlf = layout == L_CRLF || layout == L_CONT_CRLF || layout == L_TWO_RULES_CRLF;
  auto eol = [&]() { f.atoms.push_back(crlf ? Atom{A_EOL_CRLF, "\r\n"} : Atom{A_EOL_LF, "\n"}); };
  if (layout == L_TWO_RULES || layout == L_TWO_RULES_CRLF) {
    for (size_t i = 0; i < paths.size(); ++i) {
      f.atoms.push_back({A_TARGET, i ? "out2" : "out"}); f.atoms.push_back({A_COLON, ":"}); f.atoms.push_back({A_SPACE, " "});
      renderPath(paths[i], f); eol();
    }
    return f;
  }
  f.atoms.push_back({A_TARGET, "out"}); f.atoms.push_back({A_COLON, ":"});
  for (auto& p : paths) {
    f.atoms.push_back({A_SPACE, " "});
    if (layout == L_CONT) { f.atoms.push_back({A_CONT_LF, "\\\n"}); f.atoms.push_back({A_SPACE, " "}); }
    if (layout == L_CONT_CRLF) { f.atoms.push_back({A_CONT_CRLF, "\\\r\n"}); f.atoms.push_back({A_SPACE, " "}); }
    renderPath(p, f);
  }
  if (layout != L_NO_EOL) eol();
  return f;
}
// Is the prefix of length `cut` of the rendered file malformed, and how?  (nullptr = a well-formed shorter file)
inline const char* mkTruncationFault(const MkFile& f, size_t cut) {
  size_t pos = 0; bool pendingTarget = false;   // a target has started and its ':' has not been seen
  for (auto& a : f.atoms) {
    size_t end = pos + a.text.size();
    if (cut <= pos) break;
    if (cut < end) {   // the cut is inside this atom
      switch (a.kind) {
      case A_TARGET: return "missing-colon";
      case A_ESCAPE: return "dangling-backslash";
      case A_DOLLAR: return "lone-dollar";
      case A_CONT_LF: return "dangling-backslash";
      case A_CONT_CRLF: return cut - pos == 1 ? "dangling-backslash" : "dangling-continuation-cr";
      default: return pendingTarget ? "missing-colon" : nullptr;   // CR of a CRLF line end is plain white space
      }
    }
    if (a.kind == A_TARGET) pendingTarget = true;
    if (a.kind == A_COLON) pendingTarget = false;
    pos = end;
  }
  return pendingTarget ? "missing-colon" : nullptr;
}

inline std::string pathAt(const StringEnum& e, long long i) { std::vector<int> d; e.decode(i, d); std::string s; for (int x : d) s += (char)kPathBytes[x]; return s; }

inline void addMkCases(Item& it, const std::vector<std::string>& paths, bool truncations, size_t firstCut) {
  int layouts1[] = {L_ONE_RULE, L_NO_EOL, L_CRLF, L_CONT, L_CONT_CRLF};
  int layouts2[] = {L_ONE_RULE, L_CRLF, L_CONT, L_CONT_CRLF, L_TWO_RULES, L_TWO_RULES_CRLF};
  const int* ls = paths.size() == 1 ? layouts1 : layouts2; int nl = paths.size() == 1 ? 5 : 6;
  for (int li = 0; li < nl; ++li) {
    int layout = ls[li];
    MkFile f = renderMk(paths, layout); std::string bytes = f.bytes();
    it.cases.emplace_back(); { Case& c = it.cases.back(); c.stage = MAKEFILE; c.mode = M_RT_MK; c.bytes = bytes; c.expDeps = paths; c.tag = kLayoutName[layout]; }
    if (layout == L_TWO_RULES || layout == L_TWO_RULES_CRLF) {
      // "makefile-ignoring-subsequent-outputs": only the first rule's dependencies are consumed.
      it.cases.emplace_back(); Case& c = it.cases.back(); c.stage = MAKEFILE_FIRST; c.mode = M_RT_MK; c.bytes = bytes; c.expDeps = {paths[0]}; c.tag = std::string(kLayoutName[layout]) + "-first-only";
    }
    if (!truncations) continue;
    for (size_t cut = firstCut; cut < bytes.size(); ++cut) {
      const char* fault = mkTruncationFault(f, cut);
      if (!fault) { ++it.skipped; continue; }
      it.cases.emplace_back(); Case& c = it.cases.back(); c.stage = MAKEFILE; c.mode = M_MAL_MK; c.bytes = bytes.substr(0, cut); c.tag = std::string("truncated-") + fault;
    }
  }
}
struct MkSingleSource : Source {
  StringEnum e;
  explicit MkSingleSource(int maxLen) { e.init(8, 1, maxLen); }
  long long count() override { return e.count(); }
  void get(long long idx, Item& it) override { it.space = "makefile-single-path"; addMkCases(it, {pathAt(e, idx)}, true, idx == 0 ? 0 : 5); }
};
struct MkPairSource : Source {
  StringEnum e;
  explicit MkPairSource(int maxLen) { e.init(8, 1, maxLen); }
  long long count() override { return e.count() * e.count(); }
  void get(long long idx, Item& it) override { it.space = "makefile-two-paths"; long long n = e.count(); addMkCases(it, {pathAt(e, idx / n), pathAt(e, idx % n)}, true, 5); }
};
// Structural faults that are not truncations.
struct MkFaultSource : Source {
  StringEnum e;
  MkFaultSource() { e.init(8, 1, 2); }
  long long count() override { return e.count(); }
  void get(long long idx, Item& it) override {
    it.space = "makefile-structural-faults";
    std::string p = pathAt(e, idx); MkFile f; renderPath(p, f); std::string r = f.bytes();
    auto add = [&](const std::string& bytes, const char* tag) { it.cases.emplace_back(); Case& c = it.cases.back(); c.stage = MAKEFILE; c.mode = M_MAL_MK; c.bytes = bytes; c.tag = tag; };
    if (p[0] != ':' && p.find(':') == std::string::npos) {   // a ':' in the path would supply the missing colon
      add("out " + r + "\n", "missing-colon"); add("out " + r + " " + r + "\n", "missing-colon"); add("out\n", "missing-colon");
      add("out: " + r + "\nout2 " + r + "\n", "missing-colon-second-rule");
    }
    add("out: " + r + "$\n", "lone-dollar"); add("out: $" + (r[0] == '$' ? "a" + r : r) + "\n", "lone-dollar"); add("out: " + r + " $ " + r + "\n", "lone-dollar");
    add(": " + r + "\n", "empty-target");
  }
};

// ---- dependency-info -------------------------------------------------------------------------------------------
static const unsigned char kOperandBytes[4] = {'a', ' ', 0xFF, '\n'};
static const int kDiOps[3] = {0x10, 0x11, 0x40};
typedef std::vector<std::pair<int, std::string>> DiRecs;
inline std::string renderDi(const DiRecs& r) { std::string s; for (auto& x : r) { s += (char)x.first; s += x.second; s += '\0'; } return s; }
inline std::string operandAt(const StringEnum& e, long long i) { std::vector<int> d; e.decode(i, d); std::string s; for (int x : d) s += (char)kOperandBytes[x]; return s; }
struct DiSource : Source {
  StringEnum ops, ops1; long long nOps, nRec, nA, nB, nC, nD;
  explicit DiSource(bool thorough) { ops.init(4, 1, 3); ops1.init(4, 1, 1); nOps = ops.count(); nRec = 3 * nOps; nA = nOps; nB = nOps * nRec; nC = nRec * nRec; nD = thorough ? 4 * 12 * 12 * 12 : 0; }
  long long count() override { return nA + nB + nC + nD; }
  DiRecs recsOf(long long idx) {
    DiRecs r;
    auto rec = [&](long long j) { return std::make_pair(kDiOps[j / nOps], operandAt(ops, j % nOps)); };
    if (idx < nA) { r.push_back({0, operandAt(ops, idx)}); return r; }
    idx -= nA;
    if (idx < nB) { r.push_back({0, operandAt(ops, idx / nRec)}); r.push_back(rec(idx % nRec)); return r; }
    idx -= nB;
    if (idx < nC) { r.push_back({0, "a"}); r.push_back(rec(idx / nRec)); r.push_back(rec(idx % nRec)); return r; }
    idx -= nC;
    r.push_back({0, operandAt(ops1, idx % 4)}); idx /= 4;
    for (int k = 0; k < 3; ++k) { long long j = idx % 12; idx /= 12; r.push_back({kDiOps[j / 4], operandAt(ops1, j % 4)}); }
    return r;
  }
  void get(long long idx, Item& it) override {
    it.space = "dependency-info";
    DiRecs r = recsOf(idx); std::string bytes = renderDi(r);
    it.cases.emplace_back(); { Case& c = it.cases.back(); c.stage = DEPINFO; c.mode = M_RT_DI; c.bytes = bytes; c.expRecs = r; c.tag = "records-" + std::to_string(r.size() - 1); }
    // every truncation; a cut at a record boundary (behind a terminating NUL, at least the version record kept) is a well-formed shorter file
    std::vector<size_t> boundary; size_t pos = 0; for (auto& x : r) { pos += 2 + x.second.size(); boundary.push_back(pos); }
    std::vector<size_t> opcodeAt; pos = 0; for (auto& x : r) { opcodeAt.push_back(pos); pos += 2 + x.second.size(); }
    for (size_t cut = idx == 0 ? 0 : 2; cut < bytes.size(); ++cut) {   // the prefixes '' and '\\0' are common to all files
      if (std::find(boundary.begin(), boundary.end(), cut) != boundary.end()) { ++it.skipped; continue; }
      const char* tag = cut == 0 ? "truncated-empty-file" : std::find(opcodeAt.begin(), opcodeAt.end(), cut - 1) != opcodeAt.end() ? "truncated-after-opcode" : "truncated-in-operand";
      it.cases.emplace_back(); Case& c = it.cases.back(); c.stage = DEPINFO; c.mode = M_MAL_DI; c.bytes = bytes.substr(0, cut); c.tag = tag;
    }
  }
};
struct DiFaultSource : Source {
  StringEnum ops; long long nOps, nRec;
  DiFaultSource() { ops.init(4, 1, 2); nOps = ops.count(); nRec = 3 * nOps; }
  long long count() override { return nOps * (1 + nRec + 9 * 9) ; }   // version x {no record, one record, two records with 1-byte... see get}
  void get(long long idx, Item& it) override {
    it.space = "dependency-info-structural-faults";
    long long vi = idx % nOps, rest = idx / nOps;
    DiRecs r; r.push_back({0, operandAt(ops, vi)});
    auto rec = [&](long long j) { return std::make_pair(kDiOps[j / nOps], operandAt(ops, j % nOps)); };
    if (rest >= 1 && rest < 1 + nRec) r.push_back(rec(rest - 1));
    else if (rest >= 1 + nRec) { long long k = rest - 1 - nRec; long long a = k / 9, b = k % 9; r.push_back({kDiOps[a / 3], std::string(1, (char)kOperandBytes[a % 3])}); r.push_back({kDiOps[b / 3], std::string(1, (char)kOperandBytes[b % 3])}); }
    auto add = [&](const std::string& bytes, const char* tag) { it.cases.emplace_back(); Case& c = it.cases.back(); c.stage = DEPINFO; c.mode = M_MAL_DI; c.bytes = bytes; c.tag = tag; };
    std::string whole = renderDi(r);
    add(whole.substr(0, whole.size() - 1), "missing-terminator");
    add(whole + std::string(1, '\0'), "trailing-nul");                       // an opcode byte 0x00 with nothing behind it
    if (r.size() > 1) { DiRecs x(r.begin() + 1, r.end()); add(renderDi(x), "missing-version-record"); DiRecs y = x; y.push_back(r[0]); add(renderDi(y), "version-record-not-first"); }
    for (size_t j = 0; j < r.size(); ++j) {
      { DiRecs x = r; x[j].second = ""; add(renderDi(x), j == 0 ? "empty-version-operand" : j + 1 == r.size() ? "empty-last-operand" : "empty-operand"); }
      if (j > 0) for (int bad : {0x01, 0x20, 0xFF}) { DiRecs x = r; x[j].first = bad; add(renderDi(x), "unknown-opcode"); }
      if (j > 0) { DiRecs x = r; x.insert(x.begin() + j, std::make_pair(0, std::string("w"))); add(renderDi(x), "duplicate-version-record"); }
    }
    { DiRecs x = r; x.push_back({0, "w"}); add(renderDi(x), "duplicate-version-record"); }
  }
};

}  // namespace px

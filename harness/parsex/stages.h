// parsex stages: one driver per parser entry point of /repo.  A driver runs the
// real code on (ptr,len) and logs what came back into a global Outcome.
#pragma once
#include "infra.h"

#include "llbuild/Basic/FileSystem.h"
#include "llbuild/BuildSystem/BuildDescription.h"
#include "llbuild/BuildSystem/BuildFile.h"
#include "llbuild/BuildSystem/BuildKey.h"
#include "llbuild/BuildSystem/BuildSystem.h"
#include "llbuild/BuildSystem/Tool.h"
#include "llbuild/Core/DependencyInfoParser.h"
#include "llbuild/Core/MakefileDepsParser.h"
#include "llbuild/Ninja/Lexer.h"
#include "llbuild/Ninja/Manifest.h"
#include "llbuild/Ninja/ManifestLoader.h"
#include "llbuild/Ninja/Parser.h"
#include "llbuild/Basic/ExecutionQueue.h"
#include "llvm/Support/MemoryBuffer.h"
#include "llvm/Support/Path.h"

namespace px {
using llvm::StringRef;
using namespace llbuild;

enum Stage { LEX_NONE, LEX_IDENT, LEX_PATH, LEX_VAR, NINJA_PARSER, NINJA_LOADER, MAKEFILE, MAKEFILE_FIRST, DEPINFO, YAML, NSTAGES };
static const char* const kStageName[NSTAGES] = {"ninja-lexer-none", "ninja-lexer-ident", "ninja-lexer-path", "ninja-lexer-var",
                                                "ninja-parser", "ninja-loader", "makefile", "makefile-first", "depinfo", "yaml"};
// Name of the parser for class names (lexer modes share one).
static const char* const kParserName[NSTAGES] = {"ninja-lexer", "ninja-lexer", "ninja-lexer", "ninja-lexer", "ninja-parser", "ninja-loader",
                                                 "makefile", "makefile", "depinfo", "yaml"};
inline int stageByName(const std::string& s) { for (int i = 0; i < NSTAGES; ++i) if (s == kStageName[i]) return i; return -1; }

struct Tok { int kind; long off; unsigned len; };
struct Outcome {
  std::vector<uint8_t> sig;                          // event-kind sequence (for the distinct count)
  std::vector<Tok> toks;                             // lexer stages
  int errors = 0;
  int events = 0;
  std::vector<std::string> deps;                     // makefile: unescaped dependency words, in order (what ShellCommand consumes)
  std::vector<std::pair<int, std::string>> recs;     // depinfo: (opcode, operand)
  std::string problemClass, problem;                 // oracle violation seen inside a callback
  bool loaded = false;                               // loader / yaml: a result object was returned
  bool noEof = false;                                // lexer never produced EndOfFile
  void clear() { sig.clear(); toks.clear(); errors = 0; events = 0; deps.clear(); recs.clear(); problemClass.clear(); problem.clear(); loaded = false; noEof = false; }
  uint64_t hash(int stage) const { uint64_t h = fnv(&stage, sizeof stage); h = fnv(sig.data(), sig.size(), h); h = fnv(&errors, sizeof errors, h); return h; }
};
static Outcome g_out;
static const char* g_buf; static size_t g_len; static int g_stage;
static volatile unsigned g_touch;

inline void checkSpan(const char* what, const char* start, size_t len) {
  // A StringRef/Token handed to a callback must lie inside the supplied buffer.
  if (start < g_buf || start > g_buf + g_len || len > (size_t)(g_buf + g_len - start)) {
    if (g_out.problemClass.empty()) {
      g_out.problemClass = std::string(kParserName[g_stage]) + "-callback-out-of-bounds";
      char b[200]; snprintf(b, sizeof b, "%s handed to a callback spans [%ld,%ld) of a %zu-byte buffer", what, (long)(start - g_buf), (long)(start - g_buf) + (long)len, g_len);
      g_out.problem = b;
    }
    return;
  }
  unsigned s = 0; for (size_t i = 0; i < len; ++i) s += (unsigned char)start[i];
  g_touch += s;
}

// ---- Ninja lexer ------------------------------------------------------------
inline void runLexer(ninja::Lexer::LexingMode mode) {
  ninja::Lexer lexer(StringRef(g_buf, g_len));
  lexer.setMode(mode);
  size_t bound = g_len + 3;
  bool eof = false;
  for (size_t i = 0; i < bound; ++i) {
    ninja::Token t; t.start = nullptr; t.length = 0; t.tokenKind = ninja::Token::Kind::Unknown;
    lexer.lex(t);
    g_out.toks.push_back({(int)t.tokenKind, (long)(t.start - g_buf), t.length});
    g_out.sig.push_back((uint8_t)t.tokenKind);
    ++g_out.events;
    if (t.tokenKind == ninja::Token::Kind::EndOfFile) { eof = true; break; }
  }
  g_out.noEof = !eof;
}

// ---- Ninja parser with no-op actions ------------------------------------------
struct NullParseActions : ninja::ParseActions {
  void ev(int k) { g_out.sig.push_back((uint8_t)k); ++g_out.events; }
  void tk(const ninja::Token& t) { checkSpan("token", t.start, t.length); }
  void error(StringRef, const ninja::Token& at) override { ++g_out.errors; tk(at); ev(1); }
  void initialize(ninja::Parser*) override {}
  void actOnBeginManifest(StringRef) override { ev(2); }
  void actOnEndManifest() override { ev(3); }
  void actOnBindingDecl(const ninja::Token& n, const ninja::Token& v) override { tk(n); tk(v); ev(4); }
  void actOnDefaultDecl(llvm::ArrayRef<ninja::Token> ns) override { for (auto& t : ns) tk(t); ev(5); }
  void actOnIncludeDecl(bool inc, const ninja::Token& p) override { tk(p); ev(inc ? 6 : 7); }
  BuildResult actOnBeginBuildDecl(const ninja::Token& n, llvm::ArrayRef<ninja::Token> o, llvm::ArrayRef<ninja::Token> i, unsigned ne, unsigned ni) override {
    tk(n); for (auto& t : o) tk(t); for (auto& t : i) tk(t);
    if (ne + ni > i.size() && g_out.problemClass.empty()) { g_out.problemClass = "ninja-parser-input-counts"; g_out.problem = "explicit+implicit input count exceeds the number of inputs"; }
    ev(8); return this;
  }
  void actOnBuildBindingDecl(BuildResult, const ninja::Token& n, const ninja::Token& v) override { tk(n); tk(v); ev(9); }
  void actOnEndBuildDecl(BuildResult, const ninja::Token& s) override { tk(s); ev(10); }
  PoolResult actOnBeginPoolDecl(const ninja::Token& n) override { tk(n); ev(11); return this; }
  void actOnPoolBindingDecl(PoolResult, const ninja::Token& n, const ninja::Token& v) override { tk(n); tk(v); ev(12); }
  void actOnEndPoolDecl(PoolResult, const ninja::Token& s) override { tk(s); ev(13); }
  RuleResult actOnBeginRuleDecl(const ninja::Token& n) override { tk(n); ev(14); return this; }
  void actOnRuleBindingDecl(RuleResult, const ninja::Token& n, const ninja::Token& v) override { tk(n); tk(v); ev(15); }
  void actOnEndRuleDecl(RuleResult, const ninja::Token& s) override { tk(s); ev(16); }
};
inline void runNinjaParser() {
  NullParseActions a;
  ninja::Parser p(StringRef(g_buf, g_len), a);
  p.parse();
}

// ---- Ninja manifest loader with an in-memory file provider ------------------------
// The main file is the exact-size buffer itself (MemoryBuffer without the
// NUL-terminator requirement: the Ninja parser works on StringRef(data,len)).
// Every other path (include / subninja) is served a fixed small manifest that
// includes nothing, so includes cannot recurse.
static const char kIncludedManifest[] = "v = 1\nrule inc\n  command = true $in\nbuild incout: inc incin\n";
struct MemLoaderActions : ninja::ManifestLoaderActions {
  char* inc = nullptr;
  MemLoaderActions() { size_t n = sizeof kIncludedManifest - 1; inc = (char*)malloc(n); memcpy(inc, kIncludedManifest, n); }
  ~MemLoaderActions() override { free(inc); }
  void initialize(ninja::ManifestLoader*) override {}
  void error(StringRef, StringRef, const ninja::Token&) override { ++g_out.errors; g_out.sig.push_back(1); ++g_out.events; }
  std::unique_ptr<llvm::MemoryBuffer> readFile(StringRef path, StringRef, const ninja::Token*) override {
    g_out.sig.push_back(2); ++g_out.events;
    if (llvm::sys::path::filename(path) == "main.ninja")
      return llvm::MemoryBuffer::getMemBuffer(StringRef(g_buf, g_len), "main.ninja", /*RequiresNullTerminator=*/false);
    return llvm::MemoryBuffer::getMemBuffer(StringRef(inc, sizeof kIncludedManifest - 1), "inc.ninja", false);
  }
};
inline void runNinjaLoader() {
  MemLoaderActions a;
  ninja::ManifestLoader loader("/wd", "main.ninja", a);
  std::unique_ptr<ninja::Manifest> m = loader.load();
  g_out.loaded = (bool)m;
  if (m) {
    // Summarise what was loaded (commands and their expanded command strings).
    unsigned s = 0;
    for (auto* c : m->getCommands()) { g_out.sig.push_back(3); ++g_out.events; for (char ch : c->getCommandString()) s += (unsigned char)ch; }
    g_touch += s;
  }
}

// ---- Makefile-style dependency file ---------------------------------------------------
struct MkActions : core::MakefileDepsParser::ParseActions {
  void ev(int k) { g_out.sig.push_back((uint8_t)k); ++g_out.events; }
  void error(StringRef, uint64_t pos) override {
    ++g_out.errors; ev(1);
    if (pos > g_len && g_out.problemClass.empty()) { g_out.problemClass = "makefile-error-position-out-of-bounds"; g_out.problem = "error position " + std::to_string(pos) + " is past the end of the buffer"; }
  }
  void actOnRuleStart(StringRef name, StringRef un) override { checkSpan("rule name", name.data(), name.size()); g_touch += un.size(); ev(2); }
  void actOnRuleDependency(StringRef dep, StringRef un) override {
    checkSpan("dependency", dep.data(), dep.size());
    // ShellCommand::processMakefileDiscoveredDependencies consumes `unescapedWord` and nothing else.
    g_out.deps.push_back(un.str()); ev(3);
  }
  void actOnRuleEnd() override { ev(4); }
};
inline void runMakefile(bool firstOnly) {
  MkActions a;
  core::MakefileDepsParser(StringRef(g_buf, g_len), a, firstOnly).parse();
}

// ---- dependency-info file ---------------------------------------------------------------
struct DiActions : core::DependencyInfoParser::ParseActions {
  void ev(int k) { g_out.sig.push_back((uint8_t)k); ++g_out.events; }
  void rec(int op, StringRef s) { checkSpan("operand", s.data(), s.size()); g_out.recs.push_back({op, s.str()}); ev(op); }
  void error(const char*, uint64_t pos) override {
    ++g_out.errors; ev(1);
    if (pos > g_len && g_out.problemClass.empty()) { g_out.problemClass = "depinfo-error-position-out-of-bounds"; g_out.problem = "error position " + std::to_string(pos) + " is past the end of the buffer"; }
  }
  void actOnVersion(StringRef s) override { rec(0x00, s); }
  void actOnInput(StringRef s) override { rec(0x10, s); }
  void actOnOutput(StringRef s) override { rec(0x40, s); }
  void actOnMissing(StringRef s) override { rec(0x11, s); }
};
inline void runDepInfo() {
  DiActions a;
  core::DependencyInfoParser(StringRef(g_buf, g_len), a).parse();
}

// ---- YAML build description through the real BuildSystem (built-in tools) ---------------------------
// The YAML parser requires a NUL-terminated MemoryBuffer (LLVM's contract), so for this
// stage the buffer is n+1 bytes with a trailing NUL; g_len excludes the NUL.
struct MemFS : basic::FileSystem {
  bool createDirectory(const std::string&) override { return false; }
  std::unique_ptr<llvm::MemoryBuffer> getFileContents(const std::string& path) override {
    if (llvm::sys::path::filename(path) != "build.llbuild") return nullptr;
    return llvm::MemoryBuffer::getMemBuffer(StringRef(g_buf, g_len), "build.llbuild", /*RequiresNullTerminator=*/true);
  }
  bool remove(const std::string&) override { return false; }
  basic::FileChecksum getFileChecksum(const std::string&) override { return basic::FileChecksum{}; }
  basic::FileInfo getFileInfo(const std::string&) override { return basic::FileInfo{}; }
  basic::FileInfo getLinkInfo(const std::string&) override { return basic::FileInfo{}; }
  bool createSymlink(const std::string&, const std::string&) override { return false; }
};
struct YDelegate : buildsystem::BuildSystemDelegate {
  YDelegate() : BuildSystemDelegate("basic", 0) {}
  void setFileContentsBeingParsed(StringRef) override {}
  void error(StringRef, const Token& at, const llvm::Twine& message) override {
    ++g_out.errors; g_out.sig.push_back(1); ++g_out.events;
    std::string m = message.str(); g_touch += m.size();
    if (at.start) {
      // error tokens must point into the file being parsed (incl. the terminator position)
      if (at.start < g_buf || at.start > g_buf + g_len || at.length > (size_t)(g_buf + g_len - at.start)) {
        if (g_out.problemClass.empty()) { g_out.problemClass = "yaml-error-token-out-of-bounds"; g_out.problem = "error token outside the file buffer for message: " + m; }
      }
    }
    // remember the first message kind in the signature (distinct error paths)
    uint64_t h = fnv(m.data(), m.size() < 24 ? m.size() : 24);
    g_out.sig.push_back((uint8_t)(h & 0xff)); g_out.sig.push_back((uint8_t)((h >> 8) & 0xff));
  }
  std::unique_ptr<buildsystem::Tool> lookupTool(StringRef) override { return nullptr; }
  std::unique_ptr<basic::ExecutionQueue> createExecutionQueue() override { return nullptr; }
  void hadCommandFailure() override {}
  void commandStatusChanged(buildsystem::Command*, CommandStatusKind) override {}
  void commandPreparing(buildsystem::Command*) override {}
  bool shouldCommandStart(buildsystem::Command*) override { return true; }
  void commandStarted(buildsystem::Command*) override {}
  void commandHadError(buildsystem::Command*, StringRef) override { ++g_out.errors; g_out.sig.push_back(5); }
  void commandHadNote(buildsystem::Command*, StringRef) override {}
  void commandHadWarning(buildsystem::Command*, StringRef) override {}
  void commandFinished(buildsystem::Command*, basic::ProcessStatus) override {}
  void commandFoundDiscoveredDependency(buildsystem::Command*, StringRef, buildsystem::DiscoveredDependencyKind) override {}
  void commandCannotBuildOutputDueToMissingInputs(buildsystem::Command*, buildsystem::Node*, llvm::ArrayRef<buildsystem::BuildKey>) override {}
  buildsystem::Command* chooseCommandFromMultipleProducers(buildsystem::Node*, std::vector<buildsystem::Command*>) override { return nullptr; }
  void cannotBuildNodeDueToMultipleProducers(buildsystem::Node*, std::vector<buildsystem::Command*>) override { ++g_out.errors; g_out.sig.push_back(6); ++g_out.events; }
  void determinedRuleNeedsToRun(core::Rule*, core::Rule::RunReason, core::Rule*) override {}
};
inline void runYaml() {
  YDelegate d;
  buildsystem::BuildSystem system(d, std::unique_ptr<basic::FileSystem>(new MemFS));
  bool ok = system.loadDescription("build.llbuild");
  g_out.loaded = ok;
  g_out.sig.push_back(ok ? 7 : 8); ++g_out.events;
}

inline void stageBody() {
  switch (g_stage) {
  case LEX_NONE: runLexer(ninja::Lexer::LexingMode::None); break;
  case LEX_IDENT: runLexer(ninja::Lexer::LexingMode::IdentifierSpecific); break;
  case LEX_PATH: runLexer(ninja::Lexer::LexingMode::PathString); break;
  case LEX_VAR: runLexer(ninja::Lexer::LexingMode::VariableString); break;
  case NINJA_PARSER: runNinjaParser(); break;
  case NINJA_LOADER: runNinjaLoader(); break;
  case MAKEFILE: runMakefile(false); break;
  case MAKEFILE_FIRST: runMakefile(true); break;
  case DEPINFO: runDepInfo(); break;
  case YAML: runYaml(); break;
  }
}
inline bool stageNeedsNul(int stage) { return stage == YAML; }

static const char* const kTokName[] = {"Colon", "Comment", "EndOfFile", "Equals", "Indentation", "Identifier", "KWBuild", "KWDefault", "KWInclude",
                                       "KWPool", "KWRule", "KWSubninja", "Newline", "Pipe", "PipePipe", "String", "Unknown"};
inline std::string describeOutcome(int stage, const Outcome& o) {
  std::string s;
  if (stage <= LEX_VAR) {
    for (auto& t : o.toks) { char b[64]; snprintf(b, sizeof b, "%s%s@%ld+%u", s.empty() ? "" : " ", t.kind >= 0 && t.kind < 17 ? kTokName[t.kind] : "?", t.off, t.len); s += b; }
    if (o.noEof) s += " (no EndOfFile)";
    return s;
  }
  if (stage == MAKEFILE || stage == MAKEFILE_FIRST) { s = "deps=["; for (size_t i = 0; i < o.deps.size(); ++i) s += (i ? "," : "") + show(o.deps[i]); s += "]"; }
  else if (stage == DEPINFO) { s = "records=["; for (size_t i = 0; i < o.recs.size(); ++i) s += (i ? "," : "") + byteName(o.recs[i].first) + ":" + show(o.recs[i].second); s += "]"; }
  else { s = "events=" + std::to_string(o.events) + (o.loaded ? " loaded" : " not-loaded"); }
  s += " errors=" + std::to_string(o.errors);
  return s;
}

}  // namespace px

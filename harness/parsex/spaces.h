// parsex input spaces for C19 (bounded-exhaustive: every string/document in the
// stated space is produced exactly once, shortest first).
#pragma once
#include "stages.h"

namespace px {

// A case = one execution of one parser stage on one byte string (+ what C11 expects of it).
enum Mode { M_C19, M_RT_MK, M_RT_DI, M_MAL_MK, M_MAL_DI };
struct Case {
  int stage = 0; int mode = M_C19;
  std::string bytes;
  std::vector<std::string> expDeps;                 // M_RT_MK
  std::vector<std::pair<int, std::string>> expRecs; // M_RT_DI
  std::string tag;                                  // layout / fault name (goes into the class for C11)
};
struct Item { std::vector<Case> cases; const char* space = ""; long long skipped = 0; };
struct Source {
  virtual ~Source() {}
  virtual long long count() = 0;
  // Fill `it` with the cases of work item idx; leave it.cases empty when the index is not part of the space.
  virtual void get(long long idx, Item& it) = 0;
};

// All strings of length minLen..maxLen over k symbols, shortest first, lexicographic inside a length.
struct StringEnum {
  int k = 0, minLen = 0, maxLen = 0; std::vector<long long> cum;  // cum[i] = number of strings shorter than minLen+i
  void init(int k_, int mn, int mx) { k = k_; minLen = mn; maxLen = mx; cum.clear(); long long c = 0, p = 1; for (int l = 0; l < mn; ++l) p *= k; for (int l = mn; l <= mx; ++l) { cum.push_back(c); c += p; p *= k; } cum.push_back(c); }
  long long count() const { return cum.back(); }
  // digits of string idx
  void decode(long long idx, std::vector<int>& d) const {
    int li = 0; while (idx >= cum[li + 1]) ++li;
    long long r = idx - cum[li]; int len = minLen + li; d.assign(len, 0);
    for (int i = len - 1; i >= 0; --i) { d[i] = (int)(r % k); r /= k; }
  }
};

// Spaces are concatenated into one global index range by MultiSource.
struct MultiSource : Source {
  std::vector<Source*> parts; std::vector<long long> start;
  void add(Source* s) { start.push_back(count()); parts.push_back(s); }
  long long count() override { return parts.empty() ? 0 : start.back() + parts.back()->count(); }
  void get(long long idx, Item& it) override {
    size_t p = parts.size() - 1; while (idx < start[p]) --p;
    parts[p]->get(idx - start[p], it);
  }
};

inline void c19Cases(Item& it, const std::string& bytes, std::initializer_list<int> stages) {
  for (int st : stages) { it.cases.emplace_back(); Case& c = it.cases.back(); c.stage = st; c.mode = M_C19; c.bytes = bytes; }
}

// ---- Ninja token strings ------------------------------------------------------------------------
static const char* const kNinjaBase[16] = {"x", " ", "\n", "$", ":", "|", "=", "#", "${", "}", "rule", "build", "default", "include", "subninja", "pool"};
// (form feed and vertical tab are isspace() bytes that are neither blanks nor newlines)
static const char* const kNinjaSpecial[5] = {"\xff", "$\n", "\r", "\f", "\v"};
struct NinjaTokenSpace : Source {
  StringEnum e; bool withSpecials; std::vector<std::string> alpha;
  NinjaTokenSpace(int maxLen, bool specials) : withSpecials(specials) {
    for (auto t : kNinjaBase) alpha.push_back(t);
    if (specials) for (auto t : kNinjaSpecial) alpha.push_back(t);
    e.init((int)alpha.size(), specials ? 1 : 0, maxLen);
  }
  long long count() override { return e.count(); }
  void get(long long idx, Item& it) override {
    std::vector<int> d; e.decode(idx, d);
    if (withSpecials) { bool has = false; for (int x : d) if (x >= 16) has = true; if (!has) return; }  // covered by the base space
    std::string s; for (int x : d) s += alpha[x];
    it.space = withSpecials ? "ninja-tokens+specials" : "ninja-tokens";
    c19Cases(it, s, {LEX_NONE, LEX_IDENT, LEX_PATH, LEX_VAR, NINJA_PARSER, NINJA_LOADER});
  }
};
// ---- Ninja raw bytes -------------------------------------------------------------------------------
static const unsigned char kNinjaBytes[14] = {0x00, '\t', '\n', '\r', ' ', '$', ':', '|', '#', 'a', 0x80, 0xFF, '\f', '\v'};
struct NinjaByteSpace : Source {
  StringEnum e;
  NinjaByteSpace(int maxLen) { e.init(14, 1, maxLen); }
  long long count() override { return e.count(); }
  void get(long long idx, Item& it) override {
    std::vector<int> d; e.decode(idx, d); std::string s; for (int x : d) s += (char)kNinjaBytes[x];
    it.space = "ninja-bytes";
    c19Cases(it, s, {LEX_NONE, LEX_IDENT, LEX_PATH, LEX_VAR, NINJA_PARSER, NINJA_LOADER});
  }
};
// ---- Ninja loader templates: a rule, a build statement using it, and variable references ------------------------
// manifest = "rule r\n command = V1\n" [ " NAME = V2\n" ] "build o: r i\n" [ build-level binding ]
// V1 ranges over all strings of <= 2 value tokens, V2 over those of <= 1 (thorough: <= 2); NAME over {description, depfile, x}.
static const char* const kValTok[11] = {"a", "$command", "$description", "${depfile}", "$in", "$out", "$$", "$", "${", "$x", " "};
static const char* const kSlot2Name[3] = {"description", "depfile", "x"};
static const char* const kBuildBinding[5] = {"", " x = a\n", " x = $x\n", " command = $command\n", " description = $command\n"};
struct NinjaLoaderSpace : Source {
  StringEnum v1, v2; long long nSlot2;
  NinjaLoaderSpace(bool thorough) { v1.init(11, 0, 2); v2.init(11, 0, thorough ? 2 : 1); nSlot2 = 1 + 3 * v2.count(); }
  long long count() override { return v1.count() * nSlot2 * 5; }
  static std::string val(const StringEnum& e, long long i) { std::vector<int> d; e.decode(i, d); std::string s; for (int x : d) s += kValTok[x]; return s; }
  void get(long long idx, Item& it) override {
    long long b = idx % 5; idx /= 5; long long s2 = idx % nSlot2; long long i1 = idx / nSlot2;
    std::string m = "rule r\n command = " + val(v1, i1) + "\n";
    if (s2 > 0) { long long j = s2 - 1; m += std::string(" ") + kSlot2Name[j % 3] + " = " + val(v2, j / 3) + "\n"; }
    m += "build o: r i\n"; m += kBuildBinding[b];
    it.space = "ninja-loader-templates";
    c19Cases(it, m, {NINJA_PARSER, NINJA_LOADER});
  }
};
// ---- Makefile-style dependency files -------------------------------------------------------------------
static const unsigned char kMkBytes[8] = {'a', ' ', ':', '\\', '\n', '\r', '#', '$'};
struct MakefileSpace : Source {
  StringEnum e;
  MakefileSpace(int maxLen) { e.init(8, 0, maxLen); }
  long long count() override { return e.count(); }
  void get(long long idx, Item& it) override {
    std::vector<int> d; e.decode(idx, d); std::string s; for (int x : d) s += (char)kMkBytes[x];
    it.space = "makefile-deps";
    c19Cases(it, s, {MAKEFILE, MAKEFILE_FIRST});
  }
};
// ---- dependency-info files (real opcode bytes from DependencyInfoParser.cpp: 0x00 version, 0x10 input, 0x11 missing, 0x40 output) ----
static const unsigned char kDiBytes[6] = {0x00, 0x10, 0x11, 0x40, 'a', 0xFF};
struct DepInfoSpace : Source {
  StringEnum e;
  DepInfoSpace(int maxLen) { e.init(6, 0, maxLen); }
  long long count() override { return e.count(); }
  void get(long long idx, Item& it) override {
    std::vector<int> d; e.decode(idx, d); std::string s; for (int x : d) s += (char)kDiBytes[x];
    it.space = "dependency-info";
    c19Cases(it, s, {DEPINFO});
  }
};

// ---- YAML build descriptions: shape generator --------------------------------------------------------------
struct Y {
  enum K { Scalar, Seq, Map, Null, Raw } k = Scalar;
  std::string s;                       // Scalar text / Raw literal YAML (flow syntax)
  std::vector<Y> items;                // Seq
  std::vector<std::pair<Y, Y>> kv;     // Map (keys normally Scalar; Raw keys for the non-scalar-key cases)
};
inline Y ys(const std::string& s) { Y y; y.k = Y::Scalar; y.s = s; return y; }
inline Y yraw(const std::string& s) { Y y; y.k = Y::Raw; y.s = s; return y; }
inline Y ynull() { Y y; y.k = Y::Null; return y; }
inline Y yseq(std::initializer_list<Y> l) { Y y; y.k = Y::Seq; y.items = l; return y; }
inline Y ymap(std::initializer_list<std::pair<Y, Y>> l) { Y y; y.k = Y::Map; y.kv = l; return y; }
inline Y yseqs(std::initializer_list<const char*> l) { Y y; y.k = Y::Seq; for (auto c : l) y.items.push_back(ys(c)); return y; }
inline std::string yq(const std::string& s) { std::string o = "\""; for (char c : s) { if (c == '"' || c == '\\') o += '\\'; o += c; } return o + "\""; }
// Flow (JSON-like) rendering.
inline std::string yflow(const Y& y) {
  switch (y.k) {
  case Y::Scalar: return yq(y.s);
  case Y::Null: return "null";   // a plain scalar in LLVM's parser; only used nested
  case Y::Raw: return y.s;
  case Y::Seq: { std::string o = "["; for (size_t i = 0; i < y.items.size(); ++i) o += (i ? ", " : "") + yflow(y.items[i]); return o + "]"; }
  case Y::Map: { std::string o = "{"; for (size_t i = 0; i < y.kv.size(); ++i) o += (i ? ", " : "") + yflow(y.kv[i].first) + ": " + yflow(y.kv[i].second); return o + "}"; }
  }
  return "";
}
// Block rendering (what real build files look like): two levels in block style, deeper levels in flow style.
inline void yblock(const Y& y, int indent, int depth, std::string& o) {
  std::string pad(indent, ' ');
  if (y.k == Y::Map && !y.kv.empty()) {
    for (auto& e : y.kv) {
      o += pad + (e.first.k == Y::Scalar ? yq(e.first.s) : yflow(e.first)) + ":";
      const Y& v = e.second;
      bool blockChild = depth < 2 && ((v.k == Y::Map && !v.kv.empty()) || (v.k == Y::Seq && !v.items.empty()));
      if (v.k == Y::Null) o += "\n";
      else if (blockChild) { o += "\n"; yblock(v, indent + 2, depth + 1, o); }
      else o += " " + yflow(v) + "\n";
    }
  } else if (y.k == Y::Seq && !y.items.empty()) {
    for (auto& v : y.items) {
      bool blockChild = depth < 2 && ((v.k == Y::Map && !v.kv.empty()) || (v.k == Y::Seq && !v.items.empty()));
      if (blockChild) { o += pad + "-\n"; yblock(v, indent + 2, depth + 1, o); }
      else o += pad + "- " + yflow(v) + "\n";
    }
  } else o += pad + yflow(y) + "\n";
}
inline std::string ydoc(const Y& root, bool flow) { if (flow) return yflow(root) + "\n"; std::string o; yblock(root, 0, 0, o); return o; }

// The documents are only materialised by the process that reaches them (a forking parent that carries 20k
// strings pays for them at every fork), so the index range is a fixed upper bound and indices past the last
// document are empty work items.
struct YamlSpace : Source {
  std::vector<std::string> docs; bool thorough = false;
  long long count() override { return thorough ? 131072 : 32768; }
  void get(long long idx, Item& it) override {
    if (docs.empty()) { generate(); if ((long long)docs.size() > count()) { fprintf(stderr, "parsex: yaml space larger than its index range\n"); _exit(3); } }
    if (idx >= (long long)docs.size()) return;
    it.space = "yaml-descriptions"; c19Cases(it, docs[idx], {YAML});
  }
  void push(const std::string& d) { docs.push_back(d); }

  static const char* secName(int s) { static const char* n[6] = {"client", "tools", "targets", "default", "nodes", "commands"}; return n[s]; }
  // A valid value for each section.
  static Y good(int s) {
    switch (s) {
    case 0: return ymap({{ys("name"), ys("basic")}, {ys("version"), ys("0")}});
    case 1: return ymap({{ys("shell"), ymap({})}});
    case 2: return ymap({{ys(""), yseqs({"<all>"})}, {ys("t2"), yseqs({"out"})}});
    case 3: return ys("");
    case 4: return ymap({{ys("<all>"), ymap({{ys("is-virtual"), ys("true")}})}, {ys("dir/"), ymap({{ys("is-directory-structure"), ys("true")}})}});
    default: return ymap({{ys("C1"), ymap({{ys("tool"), ys("shell")}, {ys("inputs"), yseqs({"in", "dir/"})}, {ys("outputs"), yseqs({"out", "<all>"})}, {ys("args"), ys("true")}})},
                          {ys("C2"), ymap({{ys("tool"), ys("phony")}, {ys("inputs"), yseqs({"out"})}, {ys("outputs"), yseqs({"<p>"})}})}});
    }
  }
  // Value shapes with "known" (k) and "unknown" (u) names for section s.
  static std::vector<Y> shapes(int s) {
    static const char* known[6] = {"name", "shell", "", "", "<all>", "C1"};
    static const char* attr[6] = {"version", "args", "x", "x", "is-virtual", "tool"};
    static const char* aval[6] = {"0", "true", "x", "x", "true", "shell"};
    std::vector<Y> v;
    v.push_back(ys("x")); v.push_back(ys(known[s])); v.push_back(ys(""));              // scalar (unknown / known name / empty)
    v.push_back(ynull());                                                              // no value at all
    v.push_back(yseq({})); v.push_back(yseqs({"a", "b"})); v.push_back(yseqs({known[s]}));  // sequences
    v.push_back(yseq({ymap({{ys(known[s]), ys("v")}})}));                              // sequence of mappings
    v.push_back(yseq({yseqs({"a"})}));                                                 // sequence of sequences
    v.push_back(ymap({}));                                                             // empty mapping
    for (const char* key : {known[s], "unknown-name"}) {
      v.push_back(ymap({{ys(key), ys("v")}}));                                         // mapping of scalars
      v.push_back(ymap({{ys(key), ynull()}}));                                         // mapping with null value
      v.push_back(ymap({{ys(key), yseq({})}}));
      v.push_back(ymap({{ys(key), yseqs({"a", "b"})}}));                               // mapping of sequences
      v.push_back(ymap({{ys(key), yseq({yseqs({"a"}), ymap({{ys("k"), ys("v")}})})}})); // mapping of sequences of collections
      v.push_back(ymap({{ys(key), ymap({})}}));                                        // mapping of (empty) mappings
      for (const char* a : {attr[s], "unknown-attr"}) {
        v.push_back(ymap({{ys(key), ymap({{ys(a), ys(aval[s])}})}}));                  // mapping of mappings
        v.push_back(ymap({{ys(key), ymap({{ys(a), yseqs({"a", "b"})}})}}));           // mapping of mappings of sequences
        v.push_back(ymap({{ys(key), ymap({{ys(a), ymap({{ys("k"), ys("v")}})}})}}));  // ... of mappings
        v.push_back(ymap({{ys(key), ymap({{ys(a), ymap({{ys("k"), yseqs({"a"})}})}})}})); // ... of mappings of sequences
        v.push_back(ymap({{ys(key), ymap({{ys(a), ynull()}})}}));
      }
      v.push_back(ymap({{ys(key), ys("v")}, {ys(key), ys("w")}}));                     // duplicate key inside the section
    }
    v.push_back(ymap({{yraw("[\"k\"]"), ys("v")}}));                                   // non-scalar keys
    v.push_back(ymap({{yraw("{\"k\": \"v\"}"), ymap({})}}));
    v.push_back(ymap({{ys(known[s]), ymap({{yraw("[\"k\"]"), ys("v")}})}}));
    v.push_back(ymap({{ys(known[s]), ymap({{ys(attr[s]), ymap({{yraw("[\"k\"]"), ys("v")}})}})}}));
    return v;
  }
  Y assemble(const std::vector<std::pair<int, Y>>& secs) {
    Y root; root.k = Y::Map;
    for (auto& p : secs) root.kv.push_back({ys(secName(p.first)), p.second});
    return root;
  }
  void addDoc(const Y& root, bool flow = false) { push(ydoc(root, flow)); }

  explicit YamlSpace(bool thorough_) : thorough(thorough_) {}
  void generate() {
    // G0: document-level shapes.
    for (const char* d : {"", "\n", "---\n", "--- \"x\"\n", "\"x\"\n", "x\n", "[]\n", "[\"client\"]\n", "{}\n", "{ }\n", "--- {}\n", "null\n", "~\n",
                          "client:\n", "client: {}\n", "\"client\": {\"name\": \"basic\", \"version\": \"0\"}\n--- \n\"x\": \"y\"\n",
                          "client:\n  name: basic\n  version: 0\n---\nclient:\n  name: basic\n  version: 0\n", "? [\"a\"]\n: \"b\"\n", "tools: {}\n", "# only a comment\n",
                          "client: &anc\n  name: basic\n  version: 0\ntools: *anc\n", "client: {name: basic, version: 0}\ncommands: {C: {tool: shell, args: [a, b], env: {A: B}}}\n"})
      push(d);
    for (int s = 1; s < 6; ++s) push(std::string("client: &anc\n  name: basic\n  version: 0\n") + secName(s) + ": *anc\n");   // alias nodes as section values
    // G1: every section absent / present / duplicated, three orders, block and flow rendering.
    for (int mask = 0; mask < 729; ++mask) {
      int pres[6], m = mask; for (int s = 0; s < 6; ++s) { pres[s] = m % 3; m /= 3; }
      for (int order = 0; order < 3; ++order) {
        std::vector<int> seq;
        for (int s = 0; s < 6; ++s) for (int c = 0; c < pres[s]; ++c) seq.push_back(s);
        if (order == 1) std::reverse(seq.begin(), seq.end());
        if (order == 2 && !seq.empty()) std::rotate(seq.begin(), seq.begin() + 1, seq.end());
        if (order != 0 && seq.size() < 2) continue;
        std::vector<std::pair<int, Y>> secs; for (int s : seq) secs.push_back({s, good(s)});
        Y root = assemble(secs);
        addDoc(root, false); addDoc(root, true);
      }
    }
    // G2: one section with every value shape, the others valid.
    std::vector<std::vector<Y>> sh; for (int s = 0; s < 6; ++s) sh.push_back(shapes(s));
    for (int s = 0; s < 6; ++s)
      for (auto& v : sh[s]) {
        std::vector<std::pair<int, Y>> secs; for (int t = 0; t < 6; ++t) secs.push_back({t, t == s ? v : good(t)});
        addDoc(assemble(secs));
        if (s > 0) { std::vector<std::pair<int, Y>> only = {{0, good(0)}, {s, v}}; addDoc(assemble(only)); }
      }
    // G3: two sections with wrong shapes at once (every pair of sections x a reduced shape list; thorough: the full list).
    for (int s = 0; s < 6; ++s) for (int t = s + 1; t < 6; ++t) {
      size_t step = thorough ? 1 : 4;
      for (size_t i = 0; i < sh[s].size(); i += step) for (size_t j = 0; j < sh[t].size(); j += step) {
        std::vector<std::pair<int, Y>> secs; for (int u = 0; u < 6; ++u) secs.push_back({u, u == s ? sh[s][i] : u == t ? sh[t][j] : good(u)});
        addDoc(assemble(secs));
      }
    }
    // G4/G5: every tool x every attribute name x value shape, in 'commands' and in 'tools'.
    static const char* tools[] = {"shell", "phony", "clang", "mkdir", "symlink", "archive", "shared-library", "stale-file-removal", "swift-compiler", "no-such-tool"};
    static const char* attrs[] = {"args", "other-args", "env", "deps", "deps-style", "signature", "working-directory", "inherit-env", "can-safely-interrupt", "control-enabled",
                                  "allow-missing-inputs", "allow-modified-outputs", "always-out-of-date", "repair-via-ownership-analysis", "description", "inputs", "outputs", "tool",
                                  "contents", "expectedOutputs", "roots", "executable", "module-name", "module-aliases", "module-output-path", "sources", "objects", "import-paths",
                                  "temps-path", "is-library", "enable-whole-module-optimization", "num-threads", "compiler-style", "link-output-path", "type", "unknown-attr"};
    std::vector<Y> avals = {ys("true"), ys("false"), ys("x"), ys(""), ys("makefile"), ys("dependency-info"), ys("7"), ynull(), yseq({}), yseqs({"a", "b"}), yseq({ymap({{ys("k"), ys("v")}})}),
                            ymap({}), ymap({{ys("K"), ys("V")}}), ymap({{ys("K"), yseqs({"a"})}}), ymap({{ys("K"), ymap({{ys("k"), ys("v")}})}}), ymap({{yraw("[\"k\"]"), ys("v")}})};
    for (const char* tool : tools) for (const char* a : attrs) for (auto& v : avals) {
      // in commands: tool first, then inputs/outputs, then the attribute under test
      Y cmd = ymap({{ys("tool"), ys(tool)}, {ys("inputs"), yseqs({"in"})}, {ys("outputs"), yseqs({"out"})}, {ys(a), v}});
      std::vector<std::pair<int, Y>> secs = {{0, good(0)}, {5, ymap({{ys("C1"), cmd}})}};
      addDoc(assemble(secs));
      // in tools
      std::vector<std::pair<int, Y>> secs2 = {{0, good(0)}, {1, ymap({{ys(tool), ymap({{ys(a), v}})}})}, {5, ymap({{ys("C1"), ymap({{ys("tool"), ys(tool)}})}})}};
      addDoc(assemble(secs2));
    }
    // G6: command-level structure: 'tool' not first / missing / non-scalar, duplicate commands, node kinds in inputs/outputs.
    for (const char* tool : tools) {
      std::vector<Y> cmds = {ymap({}), ymap({{ys("inputs"), yseqs({"a"})}, {ys("tool"), ys(tool)}}), ymap({{ys("tool"), yseqs({tool})}}), ymap({{ys("tool"), ymap({{ys(tool), ys("x")}})}}),
                             ymap({{ys("tool"), ynull()}}), ymap({{ys("tool"), ys(tool)}, {ys("tool"), ys(tool)}}), ymap({{yraw("[\"tool\"]"), ys(tool)}}),
                             ymap({{ys("tool"), ys(tool)}, {ys("inputs"), yseq({yseqs({"a"}), ymap({{ys("k"), ys("v")}}), ys("in")})}, {ys("outputs"), yseq({ynull(), ys("out"), yseq({})})}}),
                             ymap({{ys("tool"), ys(tool)}, {ys("inputs"), ys("in")}, {ys("outputs"), ymap({{ys("o"), ys("p")}})}, {ys("description"), yseqs({"d"})}}),
                             ymap({{ys("tool"), ys(tool)}, {ys("outputs"), yseqs({"out", "out", "dir/", "<v>"})}, {ys("inputs"), yseqs({"out", "dir/", "<v>", ""})}})};
      for (auto& c : cmds) {
        std::vector<std::pair<int, Y>> secs = {{0, good(0)}, {5, ymap({{ys("C1"), c}, {ys("C1"), c}, {ys("C2"), c}})}};
        addDoc(assemble(secs));
      }
    }
    // G7: nodes: names x attributes x values.
    for (const char* name : {"a", "dir/", "<v>", ""}) for (const char* a : {"is-virtual", "is-directory", "is-directory-structure", "is-command-timestamp", "is-mutated", "content-exclusion-patterns", "must-scan-after-paths", "unknown-attr"})
      for (auto& v : avals) { std::vector<std::pair<int, Y>> secs = {{0, good(0)}, {4, ymap({{ys(name), ymap({{ys(a), v}})}})}, {5, good(5)}}; addDoc(assemble(secs)); }
    // G8: client keys and ownership analysis over overlapping outputs.
    for (const char* nm : {"basic", "other", ""}) for (const char* ver : {"0", "1", "x", "-1", "99999999999999999999"}) for (const char* fs : {"", "default", "device-agnostic", "checksum-only", "bogus"})
      for (const char* own : {"", "yes", "no"}) {
        Y client; client.k = Y::Map; client.kv.push_back({ys("name"), ys(nm)}); client.kv.push_back({ys("version"), ys(ver)});
        if (fs[0]) client.kv.push_back({ys("file-system"), ys(fs)});
        if (own[0]) client.kv.push_back({ys("perform-ownership-analysis"), ys(own)});
        Y cmds = ymap({{ys("A"), ymap({{ys("tool"), ys("shell")}, {ys("outputs"), yseqs({"d/", "d/x", "<v>"})}, {ys("args"), ys("true")}, {ys("repair-via-ownership-analysis"), ys("true")}})},
                       {ys("B"), ymap({{ys("tool"), ys("shell")}, {ys("inputs"), yseqs({"d/", "e/"})}, {ys("outputs"), yseqs({"d/x/y", "e/z"})}, {ys("args"), ys("true")}, {ys("repair-via-ownership-analysis"), ys("true")}})},
                       {ys("C"), ymap({{ys("tool"), ys("mkdir")}, {ys("outputs"), yseqs({"e/"})}})}});
        std::vector<std::pair<int, Y>> secs = {{0, client}, {4, ymap({{ys("d/"), ymap({{ys("is-directory"), ys("true")}})}, {ys("e/"), ymap({{ys("is-directory-structure"), ys("true")}})}})}, {5, cmds}};
        addDoc(assemble(secs));
      }
  }
};

}  // namespace px

// Rule universe and reference evaluator (DESIGN.md §4.1).
//
// A world is a set of derived-rule *programs* over leaf keys x,y,z,w plus an
// external state (leaf values, output cells).  The reference evaluator is a
// plain recursive memoised interpretation of the programs: no epochs, no
// queues, no history.
#pragma once
#include <cstdint>
#include <cstdlib>
#include <map>
#include <set>
#include <sstream>
#include <string>
#include <vector>

namespace uv {

enum class Mode { N, S, M };  // normal, single-use, must-follow

struct Req {
  char key = 0;
  Mode mode = Mode::N;
};

struct RuleDef {
  std::vector<Req> start;          // requests issued in start(), ids 0..
  bool hasReact = false;           // one value-dependent dynamic request
  int reactOn = 0;                 // ... when start request #reactOn is provided
  int reactPar = 2;                // ... and its value has this parity (2 = any)
  Req reactReq;                    // ... request this (input id 10)
  bool hasDisc = false;            // discovered keys (leaves are read directly at compute time), reported in this order
  char discLeaf = 0;               // the first of them
  std::string discs;               // all of them (one condition for all)
  int discOn = -1;                 // -1 always, else conditional on start request #discOn
  int discPar = 2;
  int validity = 0;                // 0 always valid, 1 never valid, 2 output cell
  int vk = 0;                      // 0 full (injective), 1 collapse (parity only), 2 force-change, 3 empty value + force-change
  uint64_t sig = 0;
};

inline bool isLeafKey(char k) { return k == 'x' || k == 'y' || k == 'z' || k == 'w'; }

struct World {
  std::string spec;
  std::map<char, RuleDef> rules;  // derived rules
  std::map<char, RuleDef> alt;    // alternative programs (redefinition at restart)
  std::string leaves;             // leaf keys mentioned
  std::string derived;            // derived keys, sorted
  int nvals = 2;
};

struct Ext {
  std::map<char, int> s;              // leaf values
  std::map<char, std::string> o;      // output cells
  std::set<char> redefined;           // derived rules currently using their alt program
  std::string dump() const {
    std::string r;
    for (auto& kv : s) { r += kv.first; r += '0' + kv.second; }
    r += "|";
    for (auto& kv : o) { r += kv.first; r += "="; r += kv.second; r += ";"; }
    r += "|";
    for (char c : redefined) r += c;
    return r;
  }
  // inverse of dump()
  bool parse(const std::string& d) {
    s.clear(); o.clear(); redefined.clear();
    size_t a = d.find('|');
    size_t b = d.rfind('|');
    if (a == std::string::npos || b == a) return false;
    for (size_t i = 0; i + 1 < a; i += 2) s[d[i]] = d[i + 1] - '0';
    std::string cells = d.substr(a + 1, b - a - 1);
    size_t p = 0;
    while (p < cells.size()) {
      size_t e = cells.find(';', p);
      if (e == std::string::npos) break;
      std::string item = cells.substr(p, e - p);
      if (item.size() >= 2) o[item[0]] = item.substr(2);
      p = e + 1;
    }
    for (size_t i = b + 1; i < d.size(); ++i) redefined.insert(d[i]);
    return true;
  }
};

inline const RuleDef& defOf(const World& w, const Ext& e, char k) {
  if (e.redefined.count(k)) return w.alt.at(k);
  return w.rules.at(k);
}

// ---- world spec mini-language -------------------------------------------
//   world := rule (';' rule)*
//   rule  := key ['\''] ':' item*          (key' = alternative program of key)
//   item  := req | '?' i '=' p '>' req | '!' leaf ['@' i '=' p]
//          | '#never' | '#cell' | '%collapse' | '%force' | 'sig=' n
//   req   := key ['/S' | '/M']             p := '0' | '1' | '*'
inline bool parseReq(const std::string& t, Req& r) {
  if (t.empty()) return false;
  r.key = t[0];
  r.mode = Mode::N;
  if (t.size() == 3 && t[1] == '/') {
    if (t[2] == 'S') r.mode = Mode::S;
    else if (t[2] == 'M') r.mode = Mode::M;
    else if (t[2] != 'N') return false;
  } else if (t.size() != 1) return false;
  return true;
}

inline bool parseWorld(const std::string& spec, World& w, std::string* err = nullptr) {
  w = World();
  w.spec = spec;
  std::set<char> leaves;
  std::stringstream ss(spec);
  std::string rule;
  auto fail = [&](const std::string& m) { if (err) *err = m + " in '" + spec + "'"; return false; };
  while (std::getline(ss, rule, ';')) {
    std::stringstream rs(rule);
    std::string head;
    if (!(rs >> head)) continue;
    if (head.back() != ':') return fail("missing ':'");
    head.pop_back();
    bool isAlt = false;
    if (!head.empty() && head.back() == '\'') { isAlt = true; head.pop_back(); }
    if (head.size() != 1 || isLeafKey(head[0])) return fail("bad rule key");
    RuleDef d;
    std::string t;
    while (rs >> t) {
      if (t[0] == '?') {
        // ?i=p>req
        if (t.size() < 6 || t[2] != '=' || t[4] != '>') return fail("bad reaction");
        d.hasReact = true;
        d.reactOn = t[1] - '0';
        d.reactPar = t[3] == '*' ? 2 : t[3] - '0';
        if (!parseReq(t.substr(5), d.reactReq)) return fail("bad reaction request");
        if (isLeafKey(d.reactReq.key)) leaves.insert(d.reactReq.key);
      } else if (t[0] == '!') {
        if (t.size() < 2) return fail("bad discovered key");
        if (!d.hasDisc) d.discLeaf = t[1];  // a leaf is read directly; a derived key is only reported (value-neutral)
        d.hasDisc = true;
        d.discs += t[1];
        if (isLeafKey(t[1])) leaves.insert(t[1]);
        if (t.size() > 2) {
          if (t.size() != 6 || t[2] != '@' || t[4] != '=') return fail("bad discovered condition");
          d.discOn = t[3] - '0';
          d.discPar = t[5] == '*' ? 2 : t[5] - '0';
        }
      } else if (t == "#never") d.validity = 1;
      else if (t == "#cell") d.validity = 2;
      else if (t == "%collapse") d.vk = 1;
      else if (t == "%force") d.vk = 2;
      else if (t == "%void") d.vk = 3;
      else if (t.compare(0, 4, "sig=") == 0) d.sig = strtoull(t.c_str() + 4, nullptr, 10);
      else {
        Req r;
        if (!parseReq(t, r)) return fail("bad request '" + t + "'");
        d.start.push_back(r);
        if (isLeafKey(r.key)) leaves.insert(r.key);
      }
    }
    if (d.hasReact && (d.reactOn < 0 || d.reactOn >= (int)d.start.size() || d.start[d.reactOn].mode == Mode::M))
      return fail("reaction on missing/must-follow request");
    if (d.hasDisc && d.discOn >= 0 && (d.discOn >= (int)d.start.size() || d.start[d.discOn].mode == Mode::M))
      return fail("discovered condition on missing/must-follow request");
    if (isAlt) w.alt[head[0]] = d; else w.rules[head[0]] = d;
  }
  for (auto& kv : w.alt) {
    if (!w.rules.count(kv.first)) return fail("alt without base");
    // A redefinition always changes the signature: same key, different program,
    // same signature is a client error the engine cannot be expected to notice.
    if (kv.second.sig == w.rules[kv.first].sig) kv.second.sig = w.rules[kv.first].sig + 1;
  }
  // every requested derived key must have a rule
  auto checkKey = [&](char k) { return isLeafKey(k) || w.rules.count(k); };
  for (auto* m : {&w.rules, &w.alt})
    for (auto& kv : *m) {
      for (auto& r : kv.second.start) if (!checkKey(r.key)) return fail(std::string("undefined key ") + r.key);
      if (kv.second.hasReact && !checkKey(kv.second.reactReq.key)) return fail("undefined reaction key");
      for (char dk : kv.second.discs) if (!checkKey(dk)) return fail("undefined discovered key");
    }
  for (char c : leaves) w.leaves += c;
  for (auto& kv : w.rules) w.derived += kv.first;
  return true;
}

// ---- values ----------------------------------------------------------------
inline int parity(const std::string& v) {
  unsigned s = 0;
  for (unsigned char c : v) s += c;
  return s & 1;
}
inline std::string leafValue(char k, int v) { return std::string(1, k) + "=" + std::string(1, char('0' + v)); }

inline std::string computeValue(const RuleDef& d, char k, const std::vector<std::string>& vals,
                                const std::vector<std::string>& reads) {
  std::string full(1, k);
  full += "(";
  for (size_t i = 0; i < vals.size(); ++i) { if (i) full += ","; full += vals[i]; }
  if (!reads.empty()) {
    full += ";";
    for (size_t i = 0; i < reads.size(); ++i) { if (i) full += ","; full += reads[i]; }
  }
  full += ")";
  if (d.vk == 1) return std::string(1, k) + "~" + std::string(1, char('0' + parity(full)));
  if (d.vk == 3) return "";  // a stamp: the value carries nothing, every run counts as a change
  return full;
}

// ---- reference evaluator ---------------------------------------------------
struct Ref {
  const World& w;
  const Ext& e;
  std::map<char, std::string> memo;
  std::vector<char> stack;
  bool cycle = false;
  std::vector<char> cyclePath;   // stack at the moment of re-entry + the re-entered key
  std::set<char> visited;        // keys a clean build must bring up to date
  Ref(const World& w, const Ext& e) : w(w), e(e) {}

  std::string eval(char k) {
    visited.insert(k);
    if (isLeafKey(k)) {
      auto it = e.s.find(k);
      return leafValue(k, it == e.s.end() ? 0 : it->second);
    }
    auto m = memo.find(k);
    if (m != memo.end()) return m->second;
    for (char c : stack)
      if (c == k) {
        if (!cycle) { cycle = true; cyclePath = stack; cyclePath.push_back(k); }
        return "";
      }
    stack.push_back(k);
    const RuleDef& d = defOf(w, e, k);
    std::vector<std::string> got(d.start.size());
    std::vector<std::string> vals, reads;
    for (size_t i = 0; i < d.start.size(); ++i) {
      got[i] = eval(d.start[i].key);
      if (cycle) { stack.pop_back(); return ""; }
      if (d.start[i].mode == Mode::N) vals.push_back(got[i]);
    }
    if (d.hasReact && (d.reactPar == 2 || parity(got[d.reactOn]) == d.reactPar)) {
      std::string v = eval(d.reactReq.key);
      if (cycle) { stack.pop_back(); return ""; }
      if (d.reactReq.mode == Mode::N) vals.push_back(v);
    }
    std::string later;
    if (d.hasDisc && (d.discOn < 0 || d.discPar == 2 || parity(got[d.discOn]) == d.discPar)) {
      for (char dk : d.discs) {
        visited.insert(dk);
        if (isLeafKey(dk)) {
          auto it = e.s.find(dk);
          reads.push_back(leafValue(dk, it == e.s.end() ? 0 : it->second));
        } else {
          later += dk;
        }
      }
    }
    stack.pop_back();
    std::string v = computeValue(d, k, vals, reads);
    memo[k] = v;
    // A discovered DERIVED key is only reported, not read: it does not feed the value, but a clean build brings it
    // up to date after this rule has completed (so this rule is no longer on the wait-for stack).
    for (char lk : later) {
      std::vector<char> saved;
      saved.swap(stack);
      eval(lk);
      stack.swap(saved);
      if (cycle) return "";
    }
    return v;
  }
};

}  // namespace uv

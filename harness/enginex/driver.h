// Engine driver: runs one history on a real llbuild::core::BuildEngine with all
// in-build nondeterminism owned by a Chooser, and evaluates the per-execution
// oracles (DESIGN.md §4.2, §5 C01 C02 C03 C05 C06 C07).
#pragma once
#include "universe.h"
#include "../common/json.h"

#include "llbuild/Basic/ExecutionQueue.h"
#include "llbuild/Core/BuildDB.h"
#include "llbuild/Core/BuildEngine.h"

#include <llbuild/llbuild.h>

#include <algorithm>
#include <cassert>
#include <functional>
#include <memory>
#include <unistd.h>

namespace ex {

// Set while the (single) explorer thread is inside BuildEngine::build(): a
// blocking condition wait on that thread can never be satisfied (nobody else
// exists to signal it) and is reported as a lost wake-up by the interposer in
// enginex/main.cpp.
struct EngineThreadState { volatile bool inBuild = false; pthread_t thread; };
inline EngineThreadState& engineThreadState() { static EngineThreadState s; return s; }

using namespace llbuild;
using namespace llbuild::core;
using uv::Mode;

// ---------------------------------------------------------------------------
struct Event {
  char kind = 0;  // 's' set leaf, 't' tamper cell, 'b' build, 'r' restart, 'd' redefine (+restart)
  char key = 0;
  int val = 0;
  std::vector<int> choices;  // in-build schedule prefix (rest = default 0)
  int cancelAt = -1;         // cancel the build when the step counter reaches this value
  int failWriteAt = -1;      // the N-th database write (setRuleResult) of this build reports an error
  int failReadAt = -1;       // the N-th database read (lookupRuleResult) of this build reports an error
  std::string str() const {
    std::string r(1, kind);
    if (kind != 'r' && kind != 'v') { r += ' '; r += key; }
    if (kind == 's') { r += ' '; r += char('0' + val); }
    if (kind == 'b') {
      if (cancelAt >= 0) r += " @" + std::to_string(cancelAt);
      if (failWriteAt >= 0) r += " !" + std::to_string(failWriteAt);
      if (failReadAt >= 0) r += " ?" + std::to_string(failReadAt);
      if (!choices.empty()) {
        r += " [";
        for (size_t i = 0; i < choices.size(); ++i) r += (i ? " " : "") + std::to_string(choices[i]);
        r += "]";
      }
    }
    return r;
  }
};
typedef std::vector<Event> History;

inline std::string historyStr(const History& h) {
  std::string r;
  for (size_t i = 0; i < h.size(); ++i) r += (i ? ", " : "") + h[i].str();
  return r;
}
inline bool parseHistory(const std::string& s, History& h) {
  h.clear();
  std::stringstream ss(s);
  std::string item;
  while (std::getline(ss, item, ',')) {
    std::stringstream is(item);
    std::string t;
    if (!(is >> t)) continue;
    Event e;
    e.kind = t[0];
    if (e.kind != 'r' && e.kind != 'v') { if (!(is >> t)) return false; e.key = t[0]; }
    if (e.kind == 's') { if (!(is >> t)) return false; e.val = t[0] - '0'; }
    if (e.kind == 'b') {
      while (is >> t) {
        if (t[0] == '@') e.cancelAt = atoi(t.c_str() + 1);
        else if (t[0] == '!') e.failWriteAt = atoi(t.c_str() + 1);
        else if (t[0] == '?') e.failReadAt = atoi(t.c_str() + 1);
        else {
          // choices: "[a" "b" "c]"
          std::string num;
          for (char c : t) if (isdigit((unsigned char)c)) num += c;
          if (!num.empty()) e.choices.push_back(atoi(num.c_str()));
        }
      }
    }
    h.push_back(e);
  }
  return true;
}

// ---------------------------------------------------------------------------
struct Chooser {
  std::vector<int> prefix;
  std::vector<std::pair<int, int>> trace;  // (chosen, options)
  size_t pos = 0;
  bool diverged = false;
  int choose(int n) {
    if (n <= 1) return 0;
    int c = 0;
    if (pos < prefix.size()) {
      c = prefix[pos];
      if (c >= n) { diverged = true; c = 0; }
    }
    ++pos;
    trace.push_back({c, n});
    return c;
  }
};

// ---------------------------------------------------------------------------
struct DepRec {
  std::string key;  // engine key bytes
  bool orderOnly = false, singleUse = false;
  bool operator==(const DepRec& o) const { return key == o.key && orderOnly == o.orderOnly && singleUse == o.singleUse; }
  std::string str() const { return key + (orderOnly ? "/o" : "") + (singleUse ? "/s" : ""); }
};
struct DBRecord {
  std::string key, value;
  uint64_t sig = 0, builtAt = 0, computedAt = 0;
  std::vector<DepRec> deps;
  std::string str() const {
    std::string r = key + " v=" + value + " sig=" + std::to_string(sig) + " b=" + std::to_string(builtAt) +
                    " c=" + std::to_string(computedAt) + " deps=";
    for (auto& d : deps) r += d.str() + ",";
    return r;
  }
  bool sameAs(const DBRecord& o) const {
    return key == o.key && value == o.value && sig == o.sig && builtAt == o.builtAt && computedAt == o.computedAt &&
           deps == o.deps;
  }
};

// Decorator recording everything the engine writes to its database.
class RecordingDB : public BuildDB {
public:
  std::unique_ptr<BuildDB> inner;
  BuildDBDelegate* del = nullptr;
  std::function<void(const DBRecord&)> onSet, onBeforeSet;
  std::function<void(uint64_t)> onIteration;
  std::function<bool(const DBRecord&)> shouldFail;  // injected write error (nothing reaches the database)
  std::function<bool(const std::string&)> shouldFailRead;  // injected read error (the stored result is not delivered)
  explicit RecordingDB(std::unique_ptr<BuildDB> i) : inner(std::move(i)) {}
  void attachDelegate(BuildDBDelegate* d) override { del = d; inner->attachDelegate(d); }
  Epoch getCurrentEpoch(bool* ok, std::string* err) override { return inner->getCurrentEpoch(ok, err); }
  bool setCurrentIteration(uint64_t v, std::string* err) override {
    bool r = inner->setCurrentIteration(v, err);
    if (r && onIteration) onIteration(v);
    return r;
  }
  bool lookupRuleResult(KeyID id, const KeyType& key, Result* out, std::string* err) override {
    if (shouldFailRead && shouldFailRead(key.str())) { if (err) *err = "injected database read error"; return false; }
    return inner->lookupRuleResult(id, key, out, err);
  }
  bool setRuleResult(KeyID id, const Rule& rule, const Result& res, std::string* err) override {
    DBRecord rec;
    rec.key = rule.key.str();
    rec.value.assign(res.value.begin(), res.value.end());
    rec.sig = res.signature.value;
    rec.builtAt = res.builtAt;
    rec.computedAt = res.computedAt;
    for (auto d : res.dependencies) rec.deps.push_back({del->getKeyForID(d.keyID).str(), d.orderOnly, d.singleUse});
    if (shouldFail && shouldFail(rec)) { if (err) *err = "injected database write error"; return false; }
    if (onBeforeSet) onBeforeSet(rec);
    bool r = inner->setRuleResult(id, rule, res, err);
    if (r && onSet) onSet(rec);
    return r;
  }
  bool buildStarted(std::string* err) override { return inner->buildStarted(err); }
  void buildComplete() override { inner->buildComplete(); }
  bool getKeys(std::vector<KeyType>& k, std::string* e) override { return inner->getKeys(k, e); }
  bool getKeysWithResult(std::vector<KeyType>& k, std::vector<Result>& r, std::string* e) override {
    return inner->getKeysWithResult(k, r, e);
  }
};

// Stand-alone key table used to read a database file back through a fresh BuildDB.
struct KeyTable : public BuildDBDelegate {
  std::map<std::string, uint64_t> ids;
  std::vector<std::string> names{""};
  const KeyID getKeyID(const KeyType& key) override {
    auto it = ids.find(key.str());
    if (it == ids.end()) { names.push_back(key.str()); it = ids.emplace(key.str(), (uint64_t)(names.size() - 1) * 16).first; }
    return KeyID((const void*)(uintptr_t)it->second);
  }
  KeyType getKeyForID(const KeyID id) override { return KeyType(names[id.value() / 16]); }
};

struct DBDump {
  bool ok = false;
  std::string error;
  uint64_t epoch = 0;
  std::map<std::string, DBRecord> recs;
};
inline DBDump readDatabase(const std::string& path, uint32_t clientVersion = 1) {
  DBDump d;
  std::string err;
  auto db = createSQLiteBuildDB(path, clientVersion, /*recreate=*/false, &err);
  if (!db) { d.error = err; return d; }
  KeyTable kt;
  db->attachDelegate(&kt);
  bool ok = false;
  d.epoch = db->getCurrentEpoch(&ok, &err);
  if (!ok) { d.error = err; return d; }
  std::vector<KeyType> keys;
  std::vector<Result> results;
  if (!db->getKeysWithResult(keys, results, &err)) { d.error = err; return d; }
  for (size_t i = 0; i < keys.size(); ++i) {
    DBRecord r;
    r.key = keys[i].str();
    r.value.assign(results[i].value.begin(), results[i].value.end());
    r.sig = results[i].signature.value;
    r.builtAt = results[i].builtAt;
    r.computedAt = results[i].computedAt;
    for (auto dep : results[i].dependencies) r.deps.push_back({kt.getKeyForID(dep.keyID).str(), dep.orderOnly, dep.singleUse});
    d.recs[r.key] = r;
  }
  d.ok = true;
  return d;
}

// ---------------------------------------------------------------------------
class StubQueue : public basic::ExecutionQueue {
public:
  int cancels = 0;
  explicit StubQueue(basic::ExecutionQueueDelegate& d) : ExecutionQueue(d) {}
  void addJob(basic::QueueJob job, basic::QueueJobPriority) override { job.execute(nullptr); }
  void cancelAllJobs() override { ++cancels; }
  void executeProcess(basic::QueueJobContext*, ArrayRef<StringRef>, ArrayRef<std::pair<StringRef, StringRef>>,
                      basic::ProcessAttributes, llvm::Optional<basic::ProcessCompletionFn>,
                      basic::ProcessDelegate*) override {}
};
struct StubQueueDelegate : public basic::ExecutionQueueDelegate {
  void processStarted(basic::ProcessContext*, basic::ProcessHandle, llbuild_pid_t) override {}
  void processHadError(basic::ProcessContext*, basic::ProcessHandle, const Twine&) override {}
  void processHadOutput(basic::ProcessContext*, basic::ProcessHandle, StringRef) override {}
  void processFinished(basic::ProcessContext*, basic::ProcessHandle, const basic::ProcessResult&) override {}
  void queueJobStarted(basic::JobDescriptor*) override {}
  void queueJobFinished(basic::JobDescriptor*) override {}
};

// ---------------------------------------------------------------------------
struct Config {
  std::string prop = "C01";   // violation classes are prefixed with this
  bool useDB = false;
  std::string dbPath;
  bool resolveForce = false;  // enable cycle resolution by ForceBuild
  bool checkC01 = true, checkC02 = true, checkProto = true, checkC07 = true, checkPersist = true;
  bool capi = false;          // drive the engine through the libllbuild C API (C20)
  bool hostileValues = false; // wrap every value in NUL / 0xFF bytes at the engine boundary
  bool logEvents = false;     // record the client-visible event sequence (C20 twin comparison)
  uint32_t clientVersion = 1; // database client schema version
  bool keepDB = false;        // do not delete an existing database file when the session starts (crash recovery)
  bool syncDefault = false;   // default choice at inputsAvailable: false = defer, true = complete synchronously
  std::map<char, std::string> rename;  // spec key -> engine key bytes
};

struct BuildObs {
  char key = 0;
  bool success = false, cancelled = false, cycle = false, stalled = false;
  std::string value;
  std::vector<std::string> cycleKeys;
  std::vector<std::string> errors;
  std::string executed;  // spec keys in createTask order
  std::string reasons;   // "k:R[:input]" list
  int steps = 0;
  int writes = 0;        // database writes attempted by this build
  int reads = 0;         // database reads (rule result lookups) of this build
  std::vector<std::pair<int, int>> trace;
  std::string orderFreeSummary() const {
    std::string ex = executed;
    std::sort(ex.begin(), ex.end());
    return std::string(success ? "ok " : (cycle ? "cycle " : (cancelled ? "cancelled " : "failed "))) + value + " {" + ex + "}";
  }
};

class Session;
static void hookTrampoline(void* ctx, verif::Point p);

class Session : public BuildEngineDelegate {
public:
  const uv::World& w;
  uv::Ext ext;
  Config cfg;
  vj::Result& res;
  std::string replayPrefix;  // "mode|world|" for replay specs
  History done;              // events executed so far (for replay specs)

  std::unique_ptr<BuildEngine> engine;
  llb_buildengine_t* cengine = nullptr;
  std::vector<std::string> elog;
  void ev(const std::string& e) { if (cfg.logEvents) elog.push_back(e); }
  static std::string hexs(const std::string& b) {
    static const char* d = "0123456789abcdef";
    std::string o;
    for (unsigned char c : b) { if (c >= 0x21 && c < 0x7f && c != '%') o += (char)c; else { o += '%'; o += d[c >> 4]; o += d[c & 15]; } }
    return o;
  }
  // value transform at the engine boundary
  std::string wrapV(const std::string& v) const { return cfg.hostileValues && !v.empty() ? std::string("\0", 1) + v + std::string("\0\xff", 2) : v; }
  std::string unwrapV(const std::string& b) const {
    if (!cfg.hostileValues || b.empty()) return b;
    if (b.size() >= 3 && b[0] == '\0' && b[b.size() - 2] == '\0' && (unsigned char)b.back() == 0xff) return b.substr(1, b.size() - 3);
    return "<mangled:" + hexs(b) + ">";
  }
  RecordingDB* rdb = nullptr;
  StubQueueDelegate qdel;

  // shadow record (C02), two layers: in-memory view and persisted view
  struct Sh {
    bool ever = false;
    uint64_t sig = 0;
    long upTick = -1, changeTick = -1;
    std::string lastValue;
    std::vector<DepRec> deps;
    bool interrupted = false;
    // The rule completed (and was persisted) in a build that ended before the
    // leaf it had discovered was brought up to date: see known finding
    // "interrupted-before-discovered-dependency".
    char unsettledDiscovered = 0;
  };
  std::map<char, Sh> mem, disk;
  long tick = 0;
  int buildNo = 0;
  uint64_t lastIteration = 0;
  std::map<std::string, DBRecord> lastWritten;  // key -> last record written (C03 read-back)

  // per build
  struct TaskRec;
  bool inBuild = false;
  Chooser* chooser = nullptr;
  int stepNo = 0, cancelAt = -1;
  int writeNo = 0, failWriteAt = -1;
  bool writeFailed = false;
  int readNo = 0, failReadAt = -1;
  bool readFailed = false;
  StubQueue* curQueue = nullptr;   // the execution queue of the running build (owned by the engine)
  bool cancelIssued = false;
  std::map<char, std::pair<bool, Sh>> diskBeforeComplete;  // persisted view of a rule before its completion in this build
  BuildObs* obs = nullptr;
  std::map<char, int> created;
  std::set<char> validFalse, doneThisBuild, completedThisBuild, statusComplete;
  std::map<char, TaskRec*> running;
  std::vector<TaskRec*> pending;  // deferred completions, oldest first
  std::map<char, std::pair<bool, std::string>> refCache;
  std::map<char, std::vector<DepRec>> issuedDeps;   // per task this build, in issue order (+discovered)
  std::map<char, std::string> completedValue;
  std::map<char, std::string> discoveredBy;         // rule -> keys it reported as discovered in this build
  std::set<char> withdrawnThisBuild;                // rules whose record was rewritten as "not up to date"
  // k completed in the current build and the key it discovered has not been brought up to date (yet)
  bool unsettled(char k) const {
    auto it = discoveredBy.find(k);
    if (it == discoveredBy.end() || !statusComplete.count(k)) return false;
    for (char dk : it->second) if (!doneThisBuild.count(dk)) return true;
    return false;
  }
  std::set<std::pair<char, char>> waitEdges;        // (waiter, awaited) requests issued this build
  std::map<char, std::vector<DepRec>> preBuildDeps; // recorded deps before this build (for C07 W)
  std::map<char, std::string> preBuildLast;         // stored values before this build
  bool cycleReported = false;
  int cycleReports = 0;
  bool violationThisBuild = false;

  Session(const uv::World& w, const Config& cfg, vj::Result& res) : w(w), cfg(cfg), res(res) {
    for (char c : w.leaves) ext.s[c] = 0;
    if (this->cfg.useDB && !this->cfg.keepDB) {
      ::unlink(this->cfg.dbPath.c_str());
      ::unlink((this->cfg.dbPath + "-journal").c_str());
    }
    newEngine();
  }
  ~Session() {
    if (verif::pointHookContext == this) verif::pointHook = nullptr;
    // After a stall the engine's frames were abandoned with its mutexes held:
    // destroying it would block, so it is leaked (the run is over anyway).
    if (dead) engine.release();
    engine.reset();
    if (cengine && !dead) llb_buildengine_destroy(cengine);
  }

  std::string keyName(char c) const {
    auto it = cfg.rename.find(c);
    return it == cfg.rename.end() ? std::string(1, c) : it->second;
  }
  char specKey(const std::string& k) const {
    for (auto& kv : cfg.rename) if (kv.second == k) return kv.first;
    return k.size() == 1 ? k[0] : '?';
  }

  std::function<void(const std::string&)> traceSink;  // crashx: streamed log of records and external state
  void traceExt() { if (traceSink) traceSink("E " + ext.dump()); }
  bool quiet = false;  // suppress verdicts while replaying a prefix that was already judged
  bool dead = false;   // the engine stalled: the session cannot continue
  void violate(const std::string& oracle0, const std::string& what) {
    violationThisBuild = true;
    if (quiet) return;
    std::string oracle = oracle0;
    if (oracle == "stale-result" || oracle == "stale-input")
      for (auto& kv : mem)
        if (kv.second.unsettledDiscovered) { oracle += "-after-build-interrupted-before-discovered-dependency-was-built"; break; }
    res.violate(cfg.prop + "." + oracle, what + " | world: " + w.spec + " | history: " + historyStr(done),
                replayPrefix + historyStr(done));
  }

  // ---- engine lifecycle -----------------------------------------------------
  void newEngine() {
    if (dead) engine.release();
    engine.reset();
    rdb = nullptr;
    if (cfg.capi) { newEngineC(); return; }
    engine.reset(new BuildEngine(*this));
    if (cfg.useDB) {
      std::string err;
      auto inner = createSQLiteBuildDB(cfg.dbPath, cfg.clientVersion, /*recreate=*/true, &err);
      auto rec = new RecordingDB(std::move(inner));
      rdb = rec;
      rec->onSet = [this](const DBRecord& r) { onSetRuleResult(r); };
      rec->shouldFailRead = [this](const std::string& key) {
        if (!inBuild) return false;
        if (++readNo != failReadAt) return false;
        ev("db-read-error " + std::string(1, specKey(key)));
        readFailed = true;
        // this engine never gets to see the stored result of that rule: as far as it knows the rule was never built
        // (the persisted view is untouched)
        mem[specKey(key)] = Sh();
        return true;
      };
      rec->shouldFail = [this](const DBRecord& r) {
        // The rewrite that withdraws a record while the engine abandons a build is not an injection point of its
        // own: an error there on top of the interruption that caused it is a double fault (outside the space).
        if (r.builtAt == 0 && unsettled(specKey(r.key))) return false;
        if (++writeNo != failWriteAt) return false;
        // the record is not persisted: the persisted view of the rule stays what it was
        char k = specKey(r.key);
        auto it = diskBeforeComplete.find(k);
        if (it != diskBeforeComplete.end()) { if (it->second.first) disk[k] = it->second.second; else disk.erase(k); }
        ev("db-write-error " + std::string(1, k));
        // the engine abandons the build with this rule's task still registered: it counts as interrupted
        statusComplete.erase(k);
        doneThisBuild.erase(k);
        writeFailed = true;
        return true;
      };
      rec->onBeforeSet = [this](const DBRecord& r) { if (traceSink) traceSink("R " + r.str()); };
      rec->onIteration = [this](uint64_t v) { lastIteration = v; };
      if (!engine->attachDB(std::unique_ptr<BuildDB>(rec), &err)) violate("db-attach-failed", err);
    }
  }
  void restart() {
    newEngine();
    mem = disk;
  }
  void newEngineC();

  // ---- BuildEngineDelegate --------------------------------------------------
  std::unique_ptr<basic::ExecutionQueue> createExecutionQueue() override {
    curQueue = new StubQueue(qdel);
    return std::unique_ptr<basic::ExecutionQueue>(curQueue);
  }
  std::unique_ptr<Rule> lookupRule(const KeyType& key) override;
  void determinedRuleNeedsToRun(Rule* rule, Rule::RunReason reason, Rule* input) override;
  bool shouldResolveCycle(const std::vector<Rule*>&, Rule*, Rule::CycleAction action) override {
    step();
    return cfg.resolveForce && action == Rule::CycleAction::ForceBuild;
  }
  void cycleDetected(const std::vector<Rule*>& items) override {
    step();
    ++cycleReports;
    cycleReported = true;
    { std::string l = "cycle"; for (auto* r : items) l += " " + hexs(r->key.str()); ev(l); }
    if (obs) {
      obs->cycle = true;
      obs->cycleKeys.clear();
      for (auto* r : items) obs->cycleKeys.push_back(r->key.str());
    }
  }
  void error(const Twine& message) override {
    ev("error " + message.str());
    if (obs) obs->errors.push_back(message.str());
  }

  // ---- step counter / cancellation -------------------------------------------
  int probeAt = -1;
  std::function<void()> probe;  // C03 lock test: run something while this build holds the database
  void step() {
    if (inBuild && stepNo + 1 == probeAt && probe) { auto p = probe; probe = nullptr; ++stepNo; p(); --stepNo; }
    if (!inBuild) {
      violate("callback-outside-build", "engine invoked a client callback while no build() call is active");
      return;
    }
    ++stepNo;
    if (stepNo == cancelAt && !cancelIssued && !cfg.capi) {
      cancelIssued = true;
      int before = curQueue ? curQueue->cancels : -1;
      engine->cancelBuild();
      // whatever else has gone wrong in this build already: a client cancellation has to reach the execution queue,
      // otherwise a job that only ends when it is cancelled keeps the build call waiting for ever
      if (curQueue && curQueue->cancels == before)
        violate("cancel-not-propagated-to-queue", "cancelBuild() returned without calling cancelAllJobs() on the build's execution queue");
    }
  }

  const std::pair<bool, std::string>& refOf(char k) {
    auto it = refCache.find(k);
    if (it != refCache.end()) return it->second;
    uv::Ref r(w, ext);
    std::string v = r.eval(k);
    return refCache[k] = {r.cycle, v};
  }

  // ---- tasks -------------------------------------------------------------------
  struct TaskRec {
    char key = 0;
    uv::RuleDef def;
    TaskInterface ti{nullptr, nullptr};
    llb_task_interface_t cti{nullptr, nullptr};
    Session* owner = nullptr;
    bool started = false, priorSeen = false, available = false, completed = false, otherSeen = false;
    struct Issued { uintptr_t id; char key; Mode mode; bool provided = false; std::string value; };
    std::vector<Issued> issued;
    bool reacted = false;
  };

  // Input ids are "an arbitrary value ... chosen to allow a pointer": with hostile values the id handed to the engine
  // does not fit in 32 bits (and differs from every other one above bit 32 as well as below).
  uintptr_t wireId(uintptr_t id) const { return cfg.hostileValues ? (id | ((uintptr_t)(id + 1) << 33)) : id; }
  void issue(TaskRec& t, TaskInterface ti, const uv::Req& r, uintptr_t lid) {
    uintptr_t id = wireId(lid);
    t.issued.push_back({lid, r.key, r.mode});
    waitEdges.insert({t.key, r.key});
    DepRec d{keyName(r.key), r.mode == Mode::M, r.mode == Mode::S};
    issuedDeps[t.key].push_back(d);
    std::string kn = keyName(r.key);
    if (cfg.capi) {
      llb_data_t kd{kn.size(), (const uint8_t*)kn.data()};
      if (r.mode == Mode::M) llb_buildengine_task_must_follow(t.cti, &kd);
      else llb_buildengine_task_needs_input(t.cti, &kd, id);  // the C API has no single-use request
      return;
    }
    if (r.mode == Mode::N) ti.request(kn, id);
    else if (r.mode == Mode::S) ti.requestSingleUse(kn, id);
    else ti.mustFollow(kn);
  }

  void taskStart(TaskRec& t, TaskInterface ti) {
    step();
    if (t.started) violate("protocol-start-twice", std::string("start() delivered twice to ") + t.key);
    ev(std::string("start ") + t.key);
    t.started = true;
    t.ti = ti;
    for (size_t i = 0; i < t.def.start.size(); ++i) issue(t, ti, t.def.start[i], i);
  }
  void taskPrior(TaskRec& t, TaskInterface, const ValueType& v) {
    step();
    if (!cfg.checkProto) return;
    if (!t.started || t.priorSeen || t.otherSeen)
      violate("protocol-prior-order", std::string("providePriorValue out of order for ") + t.key);
    t.priorSeen = true;
    auto& sh = mem[t.key];
    std::string pv = unwrapV(std::string(v.begin(), v.end()));
    if (!sh.interrupted) {
      if (!sh.ever || sh.sig != t.def.sig)
        violate("protocol-prior-unexpected", std::string("prior value provided to ") + t.key +
                                                 " although no prior result with the same signature exists");
      else if (pv != sh.lastValue)
        violate("protocol-prior-wrong", std::string("prior value of ") + t.key + " is '" + pv + "', last stored '" + sh.lastValue + "'");
    }
  }
  void taskProvide(TaskRec& t, TaskInterface ti, uintptr_t id, const KeyType& key, const ValueType& value) {
    step();
    t.otherSeen = true;
    std::string raw(value.begin(), value.end());
    std::string v = unwrapV(raw);
    ev(std::string("provide ") + t.key + " " + std::to_string(id) + " " + hexs(raw));
    TaskRec::Issued* is = nullptr;
    for (auto& i : t.issued) if (wireId(i.id) == id && i.mode != Mode::M) is = &i;
    if (cfg.checkProto) {
      if (!t.started || t.available) violate("protocol-provide-order", std::string("provideValue outside start..inputsAvailable for ") + t.key);
      if (!is) violate("protocol-provide-unrequested", std::string("provideValue with unrequested id for ") + t.key);
      else if (is->provided) violate("protocol-provide-twice", std::string("input ") + is->key + " provided twice to " + t.key);
      else if (!cfg.capi && keyName(is->key) != key.str()) violate("protocol-provide-key", std::string("input id/key mismatch for ") + t.key);
    }
    if (!is) return;
    is->provided = true;
    is->value = v;
    if (cfg.checkProto && !doneThisBuild.count(is->key))
      violate("protocol-provide-incomplete", std::string("input ") + is->key + " provided to " + t.key + " before it was brought up to date in this build");
    if (cfg.checkC01) {
      auto& rv = refOf(is->key);
      if (!rv.first && rv.second != v)
        violate("stale-input", std::string("task ") + t.key + " was handed '" + v + "' for input " + is->key + ", current value is '" + rv.second + "'");
    }
    if (t.def.hasReact && !t.reacted && (int)is->id == t.def.reactOn && is->id < 10 &&
        (t.def.reactPar == 2 || uv::parity(v) == t.def.reactPar)) {
      t.reacted = true;
      issue(t, ti, t.def.reactReq, 10);
    }
  }
  void taskAvailable(TaskRec& t, TaskInterface ti) {
    step();
    if (cfg.checkProto) {
      if (!t.started || t.available) violate("protocol-available-order", std::string("inputsAvailable out of order/twice for ") + t.key);
      for (auto& i : t.issued) {
        if (i.mode != Mode::M && !i.provided)
          violate("protocol-available-early", std::string("inputsAvailable for ") + t.key + " before input " + i.key + " was provided");
        if (!doneThisBuild.count(i.key))
          violate("protocol-available-incomplete", std::string("inputsAvailable for ") + t.key + " before " + i.key + " is complete");
      }
    }
    t.available = true;
    if (!cfg.capi) t.ti = ti;
    ev(std::string("available ") + t.key);
    int c = chooser ? chooser->choose(2) : 0;
    bool sync = cfg.syncDefault ? (c == 0) : (c == 1);
    if (sync) finish(t);
    else pending.push_back(&t);
  }
  void finish(TaskRec& t) {
    // discovered dependency (read directly, reported before completion)
    std::vector<std::string> vals, reads;
    for (auto& i : t.issued) if (i.mode == Mode::N) vals.push_back(i.value);
    const uv::RuleDef& d = t.def;
    if (d.hasDisc) {
      bool fire = d.discOn < 0 || d.discPar == 2;
      if (!fire)
        for (auto& i : t.issued) if ((int)i.id == d.discOn) fire = uv::parity(i.value) == d.discPar;
      if (fire) {
        for (char dk : d.discs) {
          if (uv::isLeafKey(dk)) reads.push_back(uv::leafValue(dk, ext.s[dk]));
          std::string dn = keyName(dk);
          if (cfg.capi) { llb_data_t kd{dn.size(), (const uint8_t*)dn.data()}; llb_buildengine_task_discovered_dependency(t.cti, &kd); }
          else t.ti.discoveredDependency(dn);
          issuedDeps[t.key].push_back({keyName(dk), false, false});
        }
        discoveredBy[t.key] = d.discs;
      }
    }
    std::string v = uv::isLeafKey(t.key) ? uv::leafValue(t.key, ext.s[t.key]) : uv::computeValue(d, t.key, vals, reads);
    if (!uv::isLeafKey(t.key) && d.validity == 2) { ext.o[t.key] = v; traceExt(); }
    bool force = !uv::isLeafKey(t.key) && (d.vk == 2 || d.vk == 3);
    t.completed = true;
    completedThisBuild.insert(t.key);
    completedValue[t.key] = v;
    auto& sh = mem[t.key];
    // Mirror of the engine's "changed" notion: first result, different bytes, or forced.
    if (sh.lastValue != v || force) sh.changeTick = ++tick;
    sh.lastValue = v;
    std::string wv = wrapV(v);
    ev(std::string("complete ") + t.key + " " + hexs(wv) + (force ? " force" : ""));
    if (cfg.capi) { llb_data_t vd{wv.size(), (const uint8_t*)wv.data()}; llb_buildengine_task_is_complete(t.cti, &vd, force); }
    else t.ti.complete(ValueType(wv.begin(), wv.end()), force);
  }

  // ---- hook points ---------------------------------------------------------------
  void onPoint(verif::Point p) {
    step();
    if (p == verif::Point::LoopTop) {
      while (!pending.empty()) {
        int c = chooser ? chooser->choose((int)pending.size() + 1) : 0;
        if (c == 0) break;
        deliver(c - 1);
      }
      return;
    }
    // BeforeWait / CancelDrainWait: the engine is about to block.
    if (pending.empty()) {
      if (obs) obs->stalled = true;
      violate(p == verif::Point::BeforeWait ? "stall" : "stall-in-cancel-drain",
              "engine is about to wait for a completion although no task is computing");
      throw StallEscape();
    }
    int c = chooser ? chooser->choose((int)pending.size()) : 0;
    deliver(c);
    while (!pending.empty()) {
      int m = chooser ? chooser->choose((int)pending.size() + 1) : 0;
      if (m == 0) break;
      deliver(m - 1);
    }
  }
  void deliver(int idx) {
    TaskRec* t = pending[idx];
    pending.erase(pending.begin() + idx);
    finish(*t);
  }
  struct StallEscape {};

  // ---- rule callbacks ---------------------------------------------------------------
  bool ruleValid(char k, const uv::RuleDef& d, const ValueType& value) {
    step();
    std::string raw(value.begin(), value.end());
    std::string v = unwrapV(raw);
    bool ok;
    if (uv::isLeafKey(k)) ok = v == uv::leafValue(k, ext.s[k]);
    else if (d.validity == 0) ok = true;
    else if (d.validity == 1) ok = false;
    else { auto it = ext.o.find(k); ok = it != ext.o.end() && it->second == v; }
    if (!ok) validFalse.insert(k);
    ev(std::string("valid ") + k + " " + hexs(raw) + (ok ? " yes" : " no"));
    return ok;
  }
  void ruleStatus(char k, Rule::StatusKind s) {
    step();
    ev(std::string("status ") + k + " " + std::to_string((int)s));
    if (s == Rule::StatusKind::IsScanning) return;
    doneThisBuild.insert(k);
    auto& sh = mem[k];
    sh.upTick = ++tick;
    if (s == Rule::StatusKind::IsComplete) {
      statusComplete.insert(k);
      sh.ever = true;
      sh.interrupted = false;
      auto it = running.find(k);
      if (it != running.end()) sh.sig = it->second->def.sig;
      sh.deps = issuedDeps[k];
      // With a database attached a processed completion is what a later process
      // can know: the persisted view follows it whether or not the engine chose
      // to write the record (an engine that skips the write must not thereby
      // justify the re-run it causes after a restart).
      if (cfg.useDB) {
        if (!diskBeforeComplete.count(k)) diskBeforeComplete[k] = {disk.count(k) != 0, disk.count(k) ? disk[k] : Sh()};
        disk[k] = sh;
      }
      if (cfg.checkProto && !completedThisBuild.count(k))
        violate("protocol-complete-without-completion", std::string("rule ") + k + " reported complete but its task never completed");
    } else if (cfg.checkC02 && created.count(k)) {
      violate("uptodate-after-run", std::string("rule ") + k + " reported up-to-date in a build that also executed it");
    }
  }
  Task* ruleCreateTask(char k, const uv::RuleDef& d);
  void registerTask(char k, const uv::RuleDef& d, TaskRec* rec);
  void taskGone(TaskRec* rec);

  void onSetRuleResult(const DBRecord& r) {
    char k = specKey(r.key);
    lastWritten[r.key] = r;
    disk[k] = mem[k];
    // A record rewritten with builtAt 0 is the engine's way of withdrawing the
    // "up to date" claim of a rule that completed in a build which ended before
    // the key it had discovered was brought up to date: a later process treats
    // the rule as never built (value and dependency list are kept).
    bool withdrawn = r.builtAt == 0 && unsettled(k);
    if (withdrawn) { disk[k].ever = false; withdrawnThisBuild.insert(k); }
    if (!cfg.checkPersist) return;
    if (!completedThisBuild.count(k)) {
      violate("persisted-uncompleted", "engine persisted a result for " + r.key + " whose task did not complete in this build");
      return;
    }
    if (r.value != wrapV(completedValue[k]))
      violate("persisted-wrong-value", "persisted value of " + r.key + " is '" + r.value + "', task completed with '" + completedValue[k] + "'");
    // The statement demands that what is persisted belongs to the execution that
    // produced the value: same dependencies with the same flags.  The engine
    // records a dependency when its request is taken off the queue, so two
    // requests issued together may be recorded in either order (a request whose
    // key is still being scanned is recorded later); only causal order is
    // checked: a value-dependent request after its trigger, discovered ones last.
    {
      auto a = r.deps, b = issuedDeps[k];
      auto lt = [](const DepRec& x, const DepRec& y) { return x.str() < y.str(); };
      std::vector<DepRec> sa = a, sb = b;
      std::sort(sa.begin(), sa.end(), lt);
      std::sort(sb.begin(), sb.end(), lt);
      bool ok = sa == sb;
      auto it = running.find(k);
      if (ok && it != running.end()) {
        TaskRec& t = *it->second;
        auto posOf = [&](const std::string& key, size_t from) { for (size_t i = from; i < a.size(); ++i) if (a[i].key == key) return (long)i; return -1L; };
        if (t.reacted) {
          long pt = posOf(keyName(t.def.start[t.def.reactOn].key), 0);
          long pr = -1;
          for (size_t i = 0; i < a.size(); ++i) if (a[i].key == keyName(t.def.reactReq.key)) pr = (long)i;  // last occurrence
          if (pt < 0 || pr < pt) ok = false;
        }
        size_t nreq = t.issued.size();
        if (a.size() > nreq)  // discovered dependency must come after every requested one
          for (size_t i = nreq; i < a.size(); ++i) if (a[i].orderOnly || a[i].singleUse) ok = false;
      }
      if (!ok) {
        std::string x, y;
        for (auto& d : a) x += d.str() + ",";
        for (auto& d : b) y += d.str() + ",";
        violate("persisted-wrong-deps", "persisted dependency list of " + r.key + " is [" + x + "], the execution requested [" + y + "]");
      }
    }
    if (withdrawn ? (r.computedAt == 0 || r.computedAt > engine->getCurrentEpoch())
                  : (r.builtAt != engine->getCurrentEpoch() || r.computedAt > r.builtAt || r.computedAt == 0))
      violate("persisted-bad-epochs", "persisted epochs of " + r.key + ": built " + std::to_string(r.builtAt) + " computed " +
                                          std::to_string(r.computedAt) + " current " + std::to_string(engine->getCurrentEpoch()));
  }

  // ---- one build ---------------------------------------------------------------------
  BuildObs build(const Event& ev);
  void apply(const Event& ev, BuildObs* out = nullptr);
  std::string canonicalState();
  void checkCycleReport(BuildObs& o);
};

// ---------------------------------------------------------------------------
class URule;
class UTask : public Task {
public:
  Session& s;
  Session::TaskRec rec;
  UTask(Session& s, char k, const uv::RuleDef& d) : s(s) { rec.key = k; rec.def = d; }
  ~UTask() override { s.taskGone(&rec); }
  void start(TaskInterface ti) override { s.taskStart(rec, ti); }
  void providePriorValue(TaskInterface ti, const ValueType& v) override { s.taskPrior(rec, ti, v); }
  void provideValue(TaskInterface ti, uintptr_t id, const KeyType& k, const ValueType& v) override { s.taskProvide(rec, ti, id, k, v); }
  void inputsAvailable(TaskInterface ti) override { s.taskAvailable(rec, ti); }
};

class URule : public Rule {
public:
  Session& s;
  char k;
  uv::RuleDef def;
  URule(Session& s, char k, const uv::RuleDef& d, const std::string& name)
      : Rule(KeyType(name), basic::CommandSignature(d.sig)), s(s), k(k), def(d) {}
  Task* createTask(BuildEngine&) override { return s.ruleCreateTask(k, def); }
  bool isResultValid(BuildEngine&, const ValueType& v) override { return s.ruleValid(k, def, v); }
  void updateStatus(BuildEngine&, StatusKind st) override { s.ruleStatus(k, st); }
};

inline std::unique_ptr<Rule> Session::lookupRule(const KeyType& key) {
  ev("lookup " + hexs(key.str()));
  char k = specKey(key.str());
  uv::RuleDef d;
  if (!uv::isLeafKey(k)) {
    if (!w.rules.count(k)) {
      violate("lookup-unknown-key", "engine asked for a rule for unknown key '" + key.str() + "'");
      d = uv::RuleDef();
    } else d = uv::defOf(w, ext, k);
  }
  return std::unique_ptr<Rule>(new URule(*this, k, d, key.str()));
}

inline void Session::taskGone(TaskRec* rec) {
  if (rec->available && !rec->completed)
    violate("task-destroyed-while-computing", std::string("task for ") + rec->key + " received inputsAvailable, had not reported completion, and was destroyed by the engine");
  auto it = running.find(rec->key);
  if (it != running.end() && it->second == rec) running.erase(it);
  pending.erase(std::remove(pending.begin(), pending.end(), rec), pending.end());
}

inline Task* Session::ruleCreateTask(char k, const uv::RuleDef& d) {
  auto* t = new UTask(*this, k, d);
  registerTask(k, d, &t->rec);
  return t;
}

// ---- libllbuild C API plumbing (C20) ------------------------------------------
struct CRuleCtx { Session* s; char k; uv::RuleDef def; };
inline void Session::newEngineC() {
  if (cengine) { llb_buildengine_destroy(cengine); cengine = nullptr; }
  llb_buildengine_delegate_t d{};
  d.context = this;
  d.destroy_context = nullptr;
  d.lookup_rule = [](void* ctx, const llb_data_t* key, llb_rule_t* out) {
    Session* s = static_cast<Session*>(ctx);
    std::string kn((const char*)key->data, key->length);
    s->ev("lookup " + hexs(kn));
    char k = s->specKey(kn);
    auto* rc = new CRuleCtx{s, k, uv::RuleDef()};
    if (!uv::isLeafKey(k)) {
      if (!s->w.rules.count(k)) s->violate("lookup-unknown-key", "engine asked for a rule for unknown key '" + hexs(kn) + "'");
      else rc->def = uv::defOf(s->w, s->ext, k);
    }
    out->context = rc;
    out->key = *key;
    out->create_task = [](void* c, void*) -> llb_task_t* {
      auto* rc = static_cast<CRuleCtx*>(c);
      auto* rec = new TaskRec();
      rec->key = rc->k;
      rec->def = rc->def;
      rec->owner = rc->s;
      rc->s->registerTask(rc->k, rc->def, rec);
      llb_task_delegate_t td{};
      td.context = rec;
      td.destroy_context = [](void* c) { auto* r = static_cast<TaskRec*>(c); r->owner->taskGone(r); delete r; };
      td.start = [](void* c, void*, llb_task_interface_t ti) { auto* r = static_cast<TaskRec*>(c); r->cti = ti; r->owner->taskStart(*r, TaskInterface(nullptr, nullptr)); };
      td.provide_value = [](void* c, void*, llb_task_interface_t ti, uintptr_t id, const llb_data_t* v) {
        auto* r = static_cast<TaskRec*>(c);
        r->cti = ti;
        r->owner->taskProvide(*r, TaskInterface(nullptr, nullptr), id, KeyType(), ValueType(v->data, v->data + v->length));
      };
      td.inputs_available = [](void* c, void*, llb_task_interface_t ti) { auto* r = static_cast<TaskRec*>(c); r->cti = ti; r->owner->taskAvailable(*r, TaskInterface(nullptr, nullptr)); };
      return llb_task_create(td);
    };
    out->is_result_valid = [](void* c, void*, const llb_rule_t*, const llb_data_t* v) -> bool {
      auto* rc = static_cast<CRuleCtx*>(c);
      return rc->s->ruleValid(rc->k, rc->def, ValueType(v->data, v->data + v->length));
    };
    out->update_status = [](void* c, void*, llb_rule_status_kind_t kind) {
      auto* rc = static_cast<CRuleCtx*>(c);
      rc->s->ruleStatus(rc->k, (Rule::StatusKind)kind);
    };
  };
  d.error = [](void* ctx, const char* msg) { static_cast<Session*>(ctx)->error(Twine(msg)); };
  d.cycle_detected = [](void* ctx, const llb_data_t* keys, uint64_t n) {
    Session* s = static_cast<Session*>(ctx);
    s->step();
    ++s->cycleReports;
    s->cycleReported = true;
    std::string l = "cycle";
    if (s->obs) { s->obs->cycle = true; s->obs->cycleKeys.clear(); }
    for (uint64_t i = 0; i < n; ++i) {
      std::string k((const char*)keys[i].data, keys[i].length);
      l += " " + hexs(k);
      if (s->obs) s->obs->cycleKeys.push_back(k);
    }
    s->ev(l);
  };
  cengine = llb_buildengine_create(d);
  if (cfg.useDB) {
    llb_data_t p{cfg.dbPath.size(), (const uint8_t*)cfg.dbPath.data()};
    char* err = nullptr;
    if (!llb_buildengine_attach_db(cengine, &p, cfg.clientVersion, &err)) violate("db-attach-failed", err ? err : "?");
    free(err);
  }
}

inline void Session::registerTask(char k, const uv::RuleDef& d, TaskRec* rec) {
  step();
  ev(std::string("create ") + k);
  int n = ++created[k];
  if (obs) obs->executed += k;
  running[k] = rec;
  issuedDeps[k].clear();
  mem[k].unsettledDiscovered = 0;
  if (cfg.checkC02) {
    if (n > 1) violate("multi-exec", std::string("rule ") + k + " executed " + std::to_string(n) + " times in one build");
    auto& sh = mem[k];
    bool justified = !sh.ever || sh.sig != d.sig || validFalse.count(k) || sh.interrupted || cfg.resolveForce;
    if (!justified)
      for (auto& dep : sh.deps) {
        if (dep.orderOnly || dep.singleUse) continue;
        char dk = specKey(dep.key);
        auto it = mem.find(dk);
        if (it != mem.end() && it->second.changeTick > sh.upTick) { justified = true; break; }
      }
    if (!justified)
      violate("unjustified-exec", std::string("rule ") + k + " was executed although it was built before, its signature and stored "
                                  "result are valid, no recorded dependency changed since it was last up to date, and it was not interrupted");
  }
}

inline void Session::determinedRuleNeedsToRun(Rule* rule, Rule::RunReason reason, Rule* input) {
  step();
  char k = specKey(rule->key.str());
  static const char* names[] = {"NeverBuilt", "SignatureChanged", "InvalidValue", "InputRebuilt", "Forced"};
  if (obs) {
    obs->reasons += std::string(1, k) + ":" + names[(int)reason];
    if (input) obs->reasons += std::string(":") + specKey(input->key.str());
    obs->reasons += " ";
  }
  if (!cfg.checkC02) return;
  auto& sh = mem[k];
  uint64_t sig = static_cast<URule*>(rule)->def.sig;
  bool ok = true;
  std::string why;
  switch (reason) {
  case Rule::RunReason::NeverBuilt:
    ok = !sh.ever; why = "it has a completed result"; break;
  case Rule::RunReason::SignatureChanged:
    ok = sh.ever && sh.sig != sig; why = "its signature did not change"; break;
  case Rule::RunReason::InvalidValue:
    ok = validFalse.count(k) || sh.interrupted; why = "its stored result was not declared invalid"; break;
  case Rule::RunReason::InputRebuilt: {
    ok = false; why = "that input is not a recorded non-order-only dependency that changed since the rule was last up to date";
    if (sh.interrupted) { ok = true; break; }
    if (!input) break;
    std::string ik = input->key.str();
    for (auto& dep : sh.deps)
      if (dep.key == ik && !dep.orderOnly && !dep.singleUse) {
        auto it = mem.find(specKey(ik));
        if (it != mem.end() && it->second.changeTick > sh.upTick) ok = true;
      }
    break;
  }
  case Rule::RunReason::Forced:
    ok = cfg.resolveForce; why = "cycle resolution is disabled"; break;
  }
  if (!ok)
    violate("false-reason", std::string("engine reported ") + names[(int)reason] + (input ? std::string("(") + input->key.str() + ")" : "") +
                                " for rule " + k + " but " + why);
}

static void hookTrampoline(void* ctx, verif::Point p) { static_cast<Session*>(ctx)->onPoint(p); }

inline void Session::checkCycleReport(BuildObs& o) {
  // W = wait-for relation in force: requests issued in this build + recorded
  // dependencies (before this build) of every rule.
  std::set<std::pair<std::string, std::string>> W;
  for (auto& e : waitEdges) W.insert({keyName(e.first), keyName(e.second)});
  // a key reported as discovered in this build has to be brought up to date on behalf of the reporting rule
  for (auto& kv : discoveredBy) for (char dk : kv.second) W.insert({keyName(kv.first), keyName(dk)});
  for (auto& kv : preBuildDeps)
    for (auto& d : kv.second) W.insert({keyName(kv.first), d.key});
  if (o.cycle) {
    if (cycleReports != 1) violate("cycle-reported-twice", "cycleDetected called " + std::to_string(cycleReports) + " times");
    auto& c = o.cycleKeys;
    std::string lst;
    for (auto& k : c) lst += k + " ";
    if (c.size() < 2) { violate("bad-cycle-list", "cycle list too short: " + lst); return; }
    if (c.front() != keyName(o.key)) violate("bad-cycle-list", "cycle list does not start at the requested key: " + lst);
    bool repeats = false;
    for (size_t i = 0; i + 1 < c.size(); ++i) if (c[i] == c.back()) repeats = true;
    if (!repeats) violate("bad-cycle-list", "last key of the cycle list does not repeat an earlier one: " + lst);
    for (size_t i = 0; i + 1 < c.size(); ++i)
      if (!W.count({c[i], c[i + 1]})) {
        violate("bad-cycle-list", "consecutive keys " + c[i] + " -> " + c[i + 1] + " are not a wait-for relationship: " + lst);
        break;
      }
    // A wait-for edge that exists only as a RECORDED dependency is followed by
    // the scan in recorded order, and the scan of a rule stops at the first
    // dependency found changed: an edge behind a changed, earlier-recorded,
    // non-order-only dependency is never legitimately waited on.
    for (size_t i = 0; i + 1 < c.size(); ++i) {
      char from = specKey(c[i]), to = specKey(c[i + 1]);
      if (waitEdges.count({from, to})) continue;  // requested by a task in this build
      { auto db = discoveredBy.find(from); if (db != discoveredBy.end() && db->second.find(to) != std::string::npos) continue; }  // discovered in this build
      auto pd = preBuildDeps.find(from);
      if (pd == preBuildDeps.end()) continue;
      for (auto& d : pd->second) {
        if (d.key == c[i + 1]) break;
        if (d.orderOnly || d.singleUse) continue;
        char dk = specKey(d.key);
        auto& rv = refOf(dk);
        auto pl = preBuildLast.find(dk);
        if (!rv.first && pl != preBuildLast.end() && rv.second != pl->second) {
          violate("false-cycle-through-stale-recorded-dependency", "reported cycle waits on " + c[i] + " -> " + c[i + 1] + ", a dependency recorded by an earlier build that lies BEHIND the changed input " +
                                                                   d.key + " in " + c[i] + "'s recorded order (the scan must stop at the changed input): " + lst);
          break;
        }
      }
    }
    // is W really cyclic (reachable from the root)?
    std::map<std::string, std::vector<std::string>> adj;
    for (auto& e : W) adj[e.first].push_back(e.second);
    std::map<std::string, int> color;
    std::function<bool(const std::string&)> dfs = [&](const std::string& n) {
      color[n] = 1;
      for (auto& m : adj[n]) {
        if (color[m] == 1) return true;
        if (color[m] == 0 && dfs(m)) return true;
      }
      color[n] = 2;
      return false;
    };
    if (!dfs(keyName(o.key))) violate("false-cycle", "cycle reported although neither this build's requests nor recorded dependencies contain one: " + lst);
  } else if (!o.cancelled && !o.success && o.errors.empty()) {
    violate("failed-without-report", "build failed without cancellation, error or cycle report");
  }
}

inline BuildObs Session::build(const Event& ev) {
  BuildObs o;
  o.key = ev.key;
  obs = &o;
  Chooser ch;
  ch.prefix = ev.choices;
  chooser = &ch;
  stepNo = 0;
  cancelAt = ev.cancelAt;
  cancelIssued = false;
  writeNo = 0; failWriteAt = ev.failWriteAt; writeFailed = false; diskBeforeComplete.clear();
  readNo = 0; failReadAt = ev.failReadAt; readFailed = false;
  created.clear(); validFalse.clear(); doneThisBuild.clear(); completedThisBuild.clear(); statusComplete.clear();
  running.clear(); pending.clear(); refCache.clear(); issuedDeps.clear(); completedValue.clear(); waitEdges.clear(); discoveredBy.clear(); withdrawnThisBuild.clear();
  cycleReported = false; cycleReports = 0; violationThisBuild = false;
  preBuildDeps.clear();
  preBuildLast.clear();
  for (auto& kv : mem) { preBuildDeps[kv.first] = kv.second.deps; preBuildLast[kv.first] = kv.second.lastValue; }
  ++buildNo;
  ++tick;

  auto savedHook = verif::pointHook;
  auto savedCtx = verif::pointHookContext;
  verif::pointHook = &hookTrampoline;
  verif::pointHookContext = this;
  inBuild = true;
  engineThreadState().thread = pthread_self();
  engineThreadState().inBuild = !cfg.capi;
  std::string value;
  try {
    std::string kn = keyName(ev.key);
    this->ev("build " + hexs(kn));
    if (cfg.capi) {
      llb_data_t kd{kn.size(), (const uint8_t*)kn.data()};
      llb_data_t out{0, nullptr};
      llb_buildengine_build(cengine, &kd, &out);
      value.assign((const char*)out.data, out.length);
    } else {
      const ValueType& v = engine->build(kn);
      value.assign(v.begin(), v.end());
    }
    this->ev("result " + hexs(value));
    if (!value.empty()) value = unwrapV(value);
  } catch (StallEscape&) {
    o.stalled = true;
    dead = true;
  }
  inBuild = false;
  curQueue = nullptr;   // destroyed by the engine when build() returned
  engineThreadState().inBuild = false;
  verif::pointHook = savedHook;
  verif::pointHookContext = savedCtx;
  chooser = nullptr;
  o.steps = stepNo;
  o.writes = writeNo;
  o.reads = readNo;
  o.trace = ch.trace;
  o.value = value;
  o.cancelled = cancelIssued;
  if (ch.diverged) res.count("schedule_divergence");
  if (o.stalled) { obs = nullptr; return o; }

  bool engineCancelled = cfg.capi ? false : engine->isCancelled();
  // An empty result is also what a failed build returns; a build is successful
  // when nothing cancelled it, no cycle and no error was reported (rules may
  // legitimately produce empty values).
  o.success = !o.cycle && !engineCancelled && !cancelIssued && o.errors.empty();

  // -- C05: cancellation oracles
  if (cancelIssued) {
    if (!value.empty() || !engineCancelled) violate("success-after-cancel", "build returned a value although cancelBuild() was called on the engine thread before the loop's next cancellation test");
    if (!pending.empty()) violate("returned-with-computing-tasks", "cancelled build returned while " + std::to_string(pending.size()) + " task(s) had not reported completion");
  }
  if (!pending.empty() && !cancelIssued) violate("returned-with-computing-tasks", "build returned while tasks were still computing");
  pending.clear();

  // interrupted executions
  if (!o.success) {
    for (auto& kv : created)
      if (!statusComplete.count(kv.first)) mem[kv.first].interrupted = true;
    // A rule that completed but whose discovered key was not brought up to date
    // before the build ended: its bookkeeping was interrupted, running it again
    // is justified (allowed, not demanded: the C01 oracle judges the results).
    for (auto& kv : discoveredBy)
      if (unsettled(kv.first)) {
        mem[kv.first].unsettledDiscovered = kv.second[0];
        mem[kv.first].interrupted = true;
        if (disk.count(kv.first)) { disk[kv.first].unsettledDiscovered = kv.second[0]; if (cfg.useDB) disk[kv.first].ever = false; }
      }
  }
  if (o.success && !withdrawnThisBuild.empty())
    violate("persisted-withdrawn-in-successful-build", std::string("a successful build rewrote the record of ") + *withdrawnThisBuild.begin() + " as not up to date");

  // -- C01
  if (o.success && cfg.checkC01) {
    auto& rv = refOf(ev.key);
    if (!rv.first && rv.second != value)
      violate("stale-result", std::string("build of ") + ev.key + " returned '" + value + "', a clean build computes '" + rv.second + "'");
  }
  // A build that returns success has brought the requested key up to date: its rule reported complete / up-to-date
  // in this build. (A dependency scan that waits on itself without any task leaves the rule scanning and returns
  // the stored value unverified.)
  if (o.success && (cfg.checkC07 || cfg.checkC01) && !doneThisBuild.count(ev.key))
    violate("returned-success-without-settling-requested-key", std::string("build of ") + ev.key + " returned '" + value +
                "' as a success although the rule of " + ev.key + " never reported complete or up-to-date in this build");
  if (o.success && cfg.checkC07 && refOf(ev.key).first)
    violate("missed-cycle", std::string("build of ") + ev.key + " succeeded with '" + value + "' although it requires a dependency cycle");
  // -- C07
  if (cfg.checkC07) {
    if (!o.cancelled && !engineCancelled && !writeFailed && !readFailed) {
      auto& rv = refOf(ev.key);
      if (rv.first && !o.cycle && !cfg.resolveForce && !o.success)
        violate("missed-cycle", std::string("build of ") + ev.key + " failed without reporting the dependency cycle");
    }
    if (!o.cancelled) checkCycleReport(o);
  }
  if (engineCancelled && !cancelIssued) {
    // engine cancelled itself (error path); make the engine usable again
    engine->resetForBuild();
  }
  if (cancelIssued && !cfg.capi) engine->resetForBuild();
  obs = nullptr;
  return o;
}

inline void Session::apply(const Event& ev, BuildObs* out) {
  done.push_back(ev);
  if (dead) return;
  switch (ev.kind) {
  case 's': ext.s[ev.key] = ev.val; break;
  case 't': ext.o[ev.key] = "<tampered>"; break;
  case 'r': restart(); break;
  case 'v': cfg.clientVersion += 1; disk.clear(); restart(); break;
  case 'd':
    if (ext.redefined.count(ev.key)) ext.redefined.erase(ev.key); else ext.redefined.insert(ev.key);
    restart();
    break;
  case 'b': {
    traceExt();
    BuildObs o = build(ev);
    if (out) *out = o;
    break;
  }
  }
}

// Canonical state: engine dump with rank-compressed epochs + database + external state.
inline std::string Session::canonicalState() {
  std::string d;
  if (cfg.capi) d = "capi\n"; else engine->verifDumpState(d);
  std::string dbs;
  if (cfg.useDB) {
    DBDump dd = readDatabase(cfg.dbPath, cfg.clientVersion);
    dbs = "db epoch=" + std::to_string(dd.epoch) + "\n";
    for (auto& kv : dd.recs) dbs += "db " + kv.second.str() + "\n";
    if (!dd.ok) dbs += "db-error " + dd.error + "\n";
  }
  std::string all = d + dbs;
  // collect epochs: numbers after "epoch=", "built=", "computed=", " b=", " c="
  std::vector<std::pair<size_t, size_t>> spans;
  std::set<uint64_t> vals;
  const char* tags[] = {"epoch=", "built=", "computed=", " b=", " c="};
  for (const char* tag : tags) {
    size_t p = 0, tl = strlen(tag);
    while ((p = all.find(tag, p)) != std::string::npos) {
      size_t s = p + tl, e = s;
      while (e < all.size() && isdigit((unsigned char)all[e])) ++e;
      if (e > s) { spans.push_back({s, e}); vals.insert(strtoull(all.substr(s, e - s).c_str(), nullptr, 10)); }
      p = e;
    }
  }
  std::map<uint64_t, int> rank;
  int r = 0;
  for (uint64_t v : vals) rank[v] = v == 0 ? 0 : ++r;
  std::sort(spans.begin(), spans.end());
  std::string out;
  size_t last = 0;
  for (auto& sp : spans) {
    out += all.substr(last, sp.first - last);
    out += std::to_string(rank[strtoull(all.substr(sp.first, sp.second - sp.first).c_str(), nullptr, 10)]);
    last = sp.second;
  }
  out += all.substr(last);
  // shadow facts that decide future verdicts
  std::string sh;
  for (auto& kv : mem) if (kv.second.interrupted) sh += kv.first;
  sh += "/";
  for (auto& kv : mem) if (kv.second.unsettledDiscovered) { sh += kv.first; sh += kv.second.unsettledDiscovered; }
  return out + "ext " + ext.dump() + " interrupted=" + sh + "\n";
}

}  // namespace ex

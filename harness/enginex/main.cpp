// enginex: explicit-state search over the real BuildEngine (DESIGN.md §4.2).
//
//   enginex --prop C01|C02|C03|C04|C05|C06|C07|C20 --tier quick|thorough --shard i --nshards n --out FILE
//           [--replay-spec "<mode>|<world spec>|<history>"]
//
// A state is the event history that reaches it, replayed on a fresh engine;
// states are deduplicated by a canonical dump (engine + database + external
// state, epochs rank-compressed).  Every transition calls the real engine.
#include "driver.h"

#include <deque>
#include <sys/stat.h>
#include <sys/wait.h>

using namespace ex;

#include <dlfcn.h>
#include <sys/mman.h>
static vj::Args args;
static std::string dbDir;
static char* g_current = nullptr;  // shared page: the execution in progress (for crash attribution)
static void noteCurrent(const std::string& s) { if (g_current) { strncpy(g_current, s.c_str(), 65535); g_current[65535] = 0; } }

struct Mode_ {
  std::string name;  // "mem", "db", "db+force", "db+k1", ...
  bool useDB = false, resolveForce = false, syncDefault = false;
  int keyset = 0;    // hostile key spellings (C03)
  int depth = 0;     // "+dN": explore histories of exactly this depth bound, default schedules only (request-mode family)
};
static std::map<char, std::string> keyset(int n) {
  switch (n) {
  case 1:  // spellings SQLite's numeric affinity could identify
    return {{'a', "1"}, {'b', "01"}, {'c', "1.0"}, {'d', "1e0"}, {'x', " 1"}, {'y', "+1"}, {'z', "1e3"}, {'w', "1000"}};
  case 2:  // NUL, prefixes of each other, high bytes
    return {{'a', std::string("a\0", 2)}, {'b', std::string("a\0b", 3)}, {'c', "a"}, {'d', std::string("\0", 1)}, {'x', "\xff\xfe"}, {'y', "\x80"}, {'z', std::string("\0\0", 2)}, {'w', "\xc3\xa9"}};
  case 3:  // very long, quotes, SQL-ish
    return {{'a', std::string(65536, 'k')}, {'b', std::string(65536, 'k') + "2"}, {'c', "x'y\"z"}, {'d', "%_"}, {'x', "'; DROP TABLE rule_results; --"}, {'y', "0x10"}, {'z', "16"}, {'w', "-0"}};
  case 4:  // more numeric aliases
    return {{'a', "0"}, {'b', "-0"}, {'c', "0.0"}, {'d', "00"}, {'x', "1 "}, {'y', "1"}, {'z', "0e0"}, {'w', ".0"}};
  }
  return {};
}
static bool parseMode(const std::string& s, Mode_& m) {
  m = Mode_();
  m.name = s;
  std::stringstream ss(s);
  std::string t;
  while (std::getline(ss, t, '+')) {
    if (t == "mem") m.useDB = false;
    else if (t == "db") m.useDB = true;
    else if (t == "force") m.resolveForce = true;
    else if (t == "sync") m.syncDefault = true;
    else if (t.size() == 2 && t[0] == 'k') m.keyset = t[1] - '0';
    else if (t.size() == 2 && t[0] == 'd' && t[1] >= '1' && t[1] <= '9') m.depth = t[1] - '0';
    else return false;
  }
  return true;
}

// ---------------------------------------------------------------------------
// worlds
static const char* kCurated[] = {
    // static
    "a: x y",
    "a: x; b: a y; c: a b",
    "a: x y; b: a; c: b a",
    // value-dependent dynamic requests
    "a: x ?0=1>y",
    "a: x; b: y; c: a ?0=1>b",
    "a: x; b: y; c: a ?0=0>b y",
    "a: x; b: a ?0=*>y; c: b ?0=1>a",
    // discovered dependencies
    "a: x !y",
    "a: x !y@0=1; b: a",
    "a: x; b: a !y; c: b y",
    "a: x !y %collapse; b: a",
    // two discovered dependencies: the later one can be complete while the earlier one is still being brought up to date
    "a: x !z !y; b: a",
    // the same key requested (order-only / single-use) and reported as discovered: only the discovered entry invalidates
    "a: y/M x !y; b: a",
    "a: y/S x !y; b: a",
    // order-only and single-use edges
    "a: x; b: a/M y",
    "a: x; b: a/S y",
    "a: x; b: y; c: a/M b/S x",
    // must-follow key still in flight (or already complete) when its dependent is scanned, depending on completion order
    "a: x; b: a/M; c: y ?0=*>b; d: a c",
    // single-use request ahead of a value-dependent one; the late dependency can be redefined to point back
    "t: s/S a ?1=0>b; s: x; a: y; b: z; b': t",
    // recomputed to identical value / forced change
    "a: x y %collapse; b: a",
    "a: x %force; b: a %collapse; c: b",
    "a: x y %collapse; b: a ?0=1>y",
    // output-backed and never-valid rules
    "a: x #cell; b: a",
    "a: x #never; b: a y",
    "a: x y %collapse #cell; b: a #cell",
    "a: x #never %force; b: a; c: b y",
    "a: x %void; b: a y; c: b",
    "a: x #never %void; b: a %void; c: b y",
    // redefinition across restarts
    "a: x; a': y; b: a",
    "a: x; b: a y; b': a",
    "a: x y; a': x; b: a; c: b ?0=1>a",
    // redefined to a program that requests NOTHING: the dependency list of the previous execution must not survive
    "a: x y; a': ; b: a",
    "a: x !y; a': ; b: a z",
    // cycle-capable (cycle only in some external states / only after a dynamic request)
    "a: x ?0=1>b; b: y ?0=1>a",
    "a: x ?0=0>a",
    "a: x ?0=*>b; b: y ?0=0>c; c: x ?0=1>a",
    "a: b; b: a",
    // discovered dependencies on DERIVED keys (reported, not read): recorded cycles that no request contains
    "a: x !b; b: a",
    "a: x !b; b: y !a",
    "a: x !d; d: b; b: d; b': y",
    "a: x !d; d: b; b: d; b': y; c: b",
    // a recorded cycle made of scans only (no task in it), strictly BELOW the requested key
    "a: x !b; b: y !a; c: a",
    // mixed
    "a: x ?0=1>y !z; b: a/S x; c: b a/M",
    "a: x; b: a ?0=1>y %collapse; c: b !x #cell",
    "a: x !y; b: a ?0=0>x; b': a/M y; c: b a",
    "a: x y %collapse; b: a !z@0=1 #cell; c: a/S b ?1=1>x",
};

static int curatedIndex(const std::string& spec) {
  int i = 0;
  for (auto* c : kCurated) { if (spec == c) return i; ++i; }
  return 1 << 20;
}
static bool isCurated(const std::string& spec) {
  for (auto* c : kCurated) if (spec == c) return true;
  return false;
}

static std::vector<std::string> reqLists(const std::string& keys, int maxLen) {
  std::vector<std::string> out{""};
  for (char a : keys) {
    out.push_back(std::string(" ") + a);
    if (maxLen >= 2)
      for (char b : keys)
        if (a != b) out.push_back(std::string(" ") + a + " " + b);
  }
  return out;
}
// all static programs over derived a,b,c and leaves x,y, <=2 requests each, acyclic by construction
static std::vector<std::string> staticFamily() {
  std::vector<std::string> out;
  for (auto& ra : reqLists("xy", 2))
    for (auto& rb : reqLists("xya", 2))
      for (auto& rc : reqLists("xyab", 2)) out.push_back("a:" + ra + "; b:" + rb + "; c:" + rc);
  return out;
}
// request-mode family: c requests a, b and the leaf z in every order with every combination of
// normal / single-use / must-follow modes (162 worlds); a and b each follow their own leaf
static std::vector<std::string> modesFamily() {
  std::vector<std::string> out;
  const char* modes[] = {"", "/S", "/M"};
  std::string keys = "abz";
  std::sort(keys.begin(), keys.end());
  do {
    for (int m0 = 0; m0 < 3; ++m0)
      for (int m1 = 0; m1 < 3; ++m1)
        for (int m2 = 0; m2 < 3; ++m2) {
          if (!m0 && !m1 && !m2) continue;
          out.push_back(std::string("a: x; b: y; c: ") + keys[0] + modes[m0] + " " + keys[1] + modes[m1] + " " + keys[2] + modes[m2]);
        }
  } while (std::next_permutation(keys.begin(), keys.end()));
  return out;
}
// all directed graphs on n keys (a..), static requests in ascending key order
static std::string graphWorld(int n, unsigned long long mask) {
  std::string s;
  for (int i = 0; i < n; ++i) {
    if (i) s += "; ";
    s += char('a' + i);
    s += ":";
    for (int j = 0; j < n; ++j)
      if (mask >> (i * n + j) & 1) { s += ' '; s += char('a' + j); }
  }
  return s;
}

// ---------------------------------------------------------------------------
struct RunOut {
  std::string key;       // canonical state
  BuildObs last;         // observation of the last event if it was a build
  uv::Ext ext;
  bool dead = false;
  std::vector<BuildObs> builds;
};

struct Explorer {
  const uv::World& w;
  Mode_ mode;
  vj::Result& res;
  Config cfg;
  long runs = 0, builds = 0;
  std::set<std::string> outcomes;

  Explorer(const uv::World& w, const Mode_& m, vj::Result& res) : w(w), mode(m), res(res) {
    cfg.prop = args.prop;
    cfg.useDB = m.useDB;
    cfg.resolveForce = m.resolveForce;
    cfg.syncDefault = m.syncDefault;
    cfg.dbPath = dbDir + "/build.db";
    if (m.keyset) { cfg.rename = keyset(m.keyset); cfg.hostileValues = true; }
  }

  RunOut run(const History& h, bool judgeAll = false, bool wantKey = true) {
    RunOut out;
    noteCurrent(mode.name + "|" + w.spec + "|" + historyStr(h));
    Session s(w, cfg, res);
    s.replayPrefix = mode.name + "|" + w.spec + "|";
    for (size_t i = 0; i < h.size(); ++i) {
      s.quiet = !judgeAll && i + 1 != h.size();
      BuildObs o;
      s.apply(h[i], &o);
      if (h[i].kind == 'b') { ++builds; out.builds.push_back(o); if (i + 1 == h.size()) out.last = o; }
      if (s.dead) break;
      if (cfg.useDB && h[i].kind == 'b' && !s.quiet && args.prop == "C03") checkReadBack(s);
    }
    ++runs;
    out.dead = s.dead;
    out.ext = s.ext;
    if (wantKey && !s.dead) out.key = s.canonicalState();
    return out;
  }

  // C03(2): everything written is read back identically by a fresh BuildDB.
  void checkReadBack(Session& s) {
    DBDump dd = readDatabase(cfg.dbPath);
    res.count("readbacks");
    if (!dd.ok) { s.violate("readback-open-failed", "fresh BuildDB cannot read the database: " + dd.error); return; }
    if (dd.epoch != s.lastIteration)
      s.violate("readback-epoch", "stored epoch reads back as " + std::to_string(dd.epoch) + ", written " + std::to_string(s.lastIteration));
    for (auto& kv : s.lastWritten) {
      auto it = dd.recs.find(kv.first);
      if (it == dd.recs.end()) s.violate("readback-missing", "record written for key '" + kv.first + "' is not read back");
      else if (!it->second.sameAs(kv.second))
        s.violate("readback-differs", "record reads back as [" + it->second.str() + "], written [" + kv.second.str() + "]");
    }
    for (auto& kv : dd.recs)
      if (!s.lastWritten.count(kv.first)) s.violate("readback-phantom", "database holds a record for '" + kv.first + "' that was never written");
  }

  std::vector<Event> alphabet(const uv::Ext& ext, bool withCancelFree = true) {
    std::vector<Event> out;
    for (char x : w.leaves)
      for (int v = 0; v < w.nvals; ++v)
        if (ext.s.at(x) != v) { Event e; e.kind = 's'; e.key = x; e.val = v; out.push_back(e); }
    for (char k : w.derived) {
      const uv::RuleDef& d = uv::defOf(w, ext, k);
      auto it = ext.o.find(k);
      if (d.validity == 2 && it != ext.o.end() && it->second != "<tampered>") { Event e; e.kind = 't'; e.key = k; out.push_back(e); }
    }
    for (char k : w.derived) { Event e; e.kind = 'b'; e.key = k; out.push_back(e); }
    if (args.thorough())
      for (char k : w.leaves) { Event e; e.kind = 'b'; e.key = k; out.push_back(e); }
    if (mode.useDB && args.prop == "C20") { Event v; v.kind = 'v'; out.push_back(v); }
    if (mode.useDB) {
      Event e; e.kind = 'r'; out.push_back(e);
      for (auto& kv : w.alt) { Event d; d.kind = 'd'; d.key = kv.first; out.push_back(d); }
    }
    return out;
  }

  static int deviations(const std::vector<std::pair<int, int>>& tr, size_t upto) {
    int n = 0;
    for (size_t i = 0; i < upto && i < tr.size(); ++i) if (tr[i].first != 0) ++n;
    return n;
  }

  // Enumerate schedules of the last (build) event of h with at most `bound`
  // deviations from the default choice; call fn for every execution.
  void forSchedules(History h, int bound, const std::function<void(const History&, const RunOut&)>& fn, long cap = 200000) {
    std::vector<std::vector<int>> work{h.back().choices};
    size_t baseLen = h.back().choices.size();
    long n = 0;
    while (!work.empty()) {
      std::vector<int> prefix = work.back();
      work.pop_back();
      h.back().choices = prefix;
      RunOut o = run(h);
      fn(h, o);
      if (++n >= cap) { res.exhaustive = false; res.count("schedule_cap_hit"); break; }
      auto& tr = o.last.trace;
      for (size_t i = std::max(prefix.size(), baseLen); i < tr.size(); ++i) {
        if (deviations(tr, i) + 1 > bound) continue;
        for (int alt = 1; alt < tr[i].second; ++alt) {
          std::vector<int> p;
          for (size_t j = 0; j < i; ++j) p.push_back(tr[j].first);
          p.push_back(alt);
          work.push_back(p);
        }
      }
    }
  }

  // Breadth-first search over histories.
  //  depth: number of events; devBound: in-build schedule deviations per build;
  //  maxCancels: cancelled builds per history (C05/C02).
  void bfs(int depth, int devBound, int maxCancels, bool splitDifferential) {
    std::set<std::string> seen;
    struct Node { History h; uv::Ext ext; int cancels; };
    std::deque<Node> frontier;
    {
      RunOut o = run({});
      seen.insert(o.key);
      frontier.push_back({{}, o.ext, 0});
    }
    int completed = 0;
    for (int d = 1; d <= depth; ++d) {
      std::deque<Node> next;
      for (auto& node : frontier) {
        if (args.overBudget()) { res.exhaustive = false; res.count("budget_hit"); goto done; }
        for (Event ev : alphabet(node.ext)) {
          History h = node.h;
          h.push_back(ev);
          auto visit = [&](const History& hh, const RunOut& o, int cancels) {
            res.count("transitions");
            if (o.dead) return;
            if (hh.back().kind == 'b') outcomes.insert(o.last.orderFreeSummary());
            if (seen.insert(o.key).second) next.push_back({hh, o.ext, cancels});
          };
          if (ev.kind != 'b') {
            RunOut o = run(h);
            visit(h, o, node.cancels);
            continue;
          }
          int steps = 0;
          bool first = true;
          std::vector<History> uncancelled;
          forSchedules(h, devBound, [&](const History& hh, const RunOut& o) {
            if (first) { steps = o.last.steps; first = false; }
            visit(hh, o, node.cancels);
            uncancelled.push_back(hh);
            if (splitDifferential && hh.back().choices.empty()) checkSplit(hh, o);
            if (args.prop == "C20") twin(hh);
          });
          if (node.cancels < maxCancels) {
            // cancellation at every step of every explored schedule of this build
            for (auto& hh : uncancelled) {
              if (args.prop == "C01" && !hh.back().choices.empty()) continue;  // C01: cancellation points of the default schedule only
              RunOut base = run(hh, false, false);
              for (int i = 1; i <= base.last.steps; ++i) {
                History hc = hh;
                hc.back().cancelAt = i;
                RunOut o = run(hc);
                res.count("cancel_points");
                visit(hc, o, node.cancels + 1);
              }
              // the other way a build is interrupted: a database write reports an error
              if (cfg.useDB && !cfg.capi)
                for (int i = 1; i <= base.last.writes; ++i) {
                  History hc = hh;
                  hc.back().failWriteAt = i;
                  RunOut o = run(hc);
                  res.count("db_write_error_points");
                  visit(hc, o, node.cancels + 1);
                }
              // ... or a read does (rule results are looked up lazily: the builds after a restart). The engine then
              // abandons the build by itself; C05 also cancels that build from the client at every later step.
              if (cfg.useDB && !cfg.capi)
                for (int i = 1; i <= base.last.reads; ++i) {
                  History hc = hh;
                  hc.back().failReadAt = i;
                  RunOut o = run(hc);
                  res.count("db_read_error_points");
                  visit(hc, o, node.cancels + 1);
                  if (args.prop == "C05" && !o.dead && (args.thorough() || curatedIndex(w.spec) < 17))
                    for (int k = 1; k <= o.last.steps; ++k) {
                      History hd = hc;
                      hd.back().cancelAt = k;
                      RunOut o2 = run(hd);
                      res.count("db_read_error_then_cancel_points");
                      visit(hd, o2, node.cancels + 1);
                    }
                }
            }
          }
        }
      }
      frontier.swap(next);
      completed = d;
      if (frontier.empty()) break;
    }
  done:
    res.maxOf("max_depth_completed", completed);
    res.count("states", (long long)seen.size());
    if (res.samples.size() < 4 && !frontier.empty())
      res.sample("{\"world\": " + vj::q(w.spec) + ", \"mode\": " + vj::q(mode.name) + ", \"history\": " + vj::q(historyStr(frontier.back().h)) + "}");
  }

  // Structured deep histories (beyond the BFS depth): build K, set any subset S of the leaves to 1, rebuild K and
  // interrupt that build at EVERY step (cancellation) and at every database write (error), optionally restart, put
  // back one leaf of S (or all of S), rebuild K. The last build is judged: an interrupted build must not leave behind
  // a record that a later build takes to be up to date although its task saw the state before the reversal.
  // plainOnly: no interruption at all (C07: a build that ends in a REAL cycle is the interruption)
  void abaPass(bool plainOnly = false, bool restartOnly = false) {
    std::string leaves = w.leaves;
    size_t n = leaves.size();
    if (n == 0 || n > 4) return;
    for (char K : w.derived) {
      for (unsigned S = 1; S < (1u << n); ++S) {
        if (args.overBudget()) { res.exhaustive = false; res.count("budget_hit"); return; }
        History h;
        { Event b; b.kind = 'b'; b.key = K; h.push_back(b); }
        for (size_t i = 0; i < n; ++i) if (S >> i & 1) { Event e; e.kind = 's'; e.key = leaves[i]; e.val = 1; h.push_back(e); }
        { Event b; b.kind = 'b'; b.key = K; h.push_back(b); }
        RunOut base = run(h, false, false);
        if (base.dead) continue;
        std::vector<unsigned> backs;
        for (size_t i = 0; i < n; ++i) if (S >> i & 1) backs.push_back(1u << i);
        if (backs.size() > 1) backs.push_back(S);
        int nint = plainOnly ? 0 : base.last.steps + (cfg.useDB && !cfg.capi ? base.last.writes : 0);
        for (int k = plainOnly ? 0 : 1; k <= nint; ++k) {
          History hi = h;
          if (k == 0) {}
          else if (k <= base.last.steps) hi.back().cancelAt = k; else hi.back().failWriteAt = k - base.last.steps;
          for (int restart = restartOnly ? 1 : 0; restart <= (cfg.useDB ? 1 : 0); ++restart)
            for (unsigned back : backs) {
              History hh = hi;
              if (restart) { Event r; r.kind = 'r'; hh.push_back(r); }
              for (size_t i = 0; i < n; ++i) if (back >> i & 1) { Event e; e.kind = 's'; e.key = leaves[i]; e.val = 0; hh.push_back(e); }
              { Event b; b.kind = 'b'; b.key = K; hh.push_back(b); }
              RunOut o = run(hh);
              res.count("aba_histories");
              res.count("transitions");
              if (!o.dead) outcomes.insert(o.last.orderFreeSummary());
            }
        }
      }
    }
  }

  // C03(1): the same history with a restart inserted at every build boundary
  // performs the same executions and returns the same results.
  void checkSplit(const History& h, const RunOut& single) {
    for (auto& e : h) if (e.kind == 'r' || e.kind == 'd') return;
    // With a failed or cancelled build in the history the in-memory and the
    // persisted state legitimately differ until the next successful build
    // (the interrupted state is not written), so only the RESULTS of the
    // successful builds must agree, not the executed sets.
    bool anyFailed = false;
    for (auto& b : single.builds) if (!b.success) anyFailed = true;
    History split;
    bool sawBuild = false;
    for (auto& e : h) {
      if (e.kind == 'b' && sawBuild) { Event r; r.kind = 'r'; split.push_back(r); }
      if (e.kind == 'b') sawBuild = true;
      split.push_back(e);
    }
    if (split.size() == h.size()) return;
    vj::Result scratch;  // verdicts of the split run itself are judged when BFS reaches it
    Explorer sub(w, mode, scratch);
    RunOut o = sub.run(split, false, false);
    res.count("split_differentials");
    if (o.builds.size() != single.builds.size()) return;
    for (size_t i = 0; i < o.builds.size(); ++i) {
      const BuildObs &a = single.builds[i], &b = o.builds[i];
      std::string ea = a.executed, eb = b.executed;
      std::sort(ea.begin(), ea.end());
      std::sort(eb.begin(), eb.end());
      if (anyFailed) { if (a.cancelled || b.cancelled || !a.success || !b.success) continue; ea = eb = ""; }
      if (a.success != b.success || a.value != b.value || ea != eb) {
        res.violate(args.prop + ".restart-split-differs",
                    "build #" + std::to_string(i + 1) + " in one engine: " + a.orderFreeSummary() + "; with a restart at every build boundary: " +
                        b.orderFreeSummary() + " | world: " + w.spec + " | history: " + historyStr(h),
                    mode.name + "|" + w.spec + "|" + historyStr(split));
        return;
      }
    }
  }

  // C20: the same history through the C++ interface and through the libllbuild
  // C interface must produce the same client-visible event sequence and the
  // same persisted state.
  void twin(const History& h) {
    std::vector<std::string> logs[2];
    std::string dumps[2];
    for (int side = 0; side < 2; ++side) {
      vj::Result scratch;
      Config c = cfg;
      c.capi = side == 1;
      c.logEvents = true;
      c.checkC02 = false; c.checkProto = false; c.checkPersist = false; c.checkC07 = false; c.checkC01 = side == 1;
      c.dbPath = dbDir + (side ? "/c.db" : "/cxx.db");
      {
        Session s(w, c, scratch);
        for (auto& ev : h) { s.apply(ev); if (s.dead) break; }
        logs[side] = s.elog;
        if (c.useDB) {
          DBDump dd = readDatabase(c.dbPath, s.cfg.clientVersion);
          dumps[side] = "epoch=" + std::to_string(dd.epoch) + (dd.ok ? "" : " ERROR " + dd.error) + "\n";
          for (auto& kv : dd.recs) dumps[side] += Session::hexs(kv.second.str()) + "\n";
        }
      }
      for (auto& v : scratch.violations)
        res.violate(args.prop + ".c-api-" + v.cls.substr(v.cls.find('.') + 1), "through the C API: " + v.what, "twin|" + mode.name + "|" + w.spec + "|" + historyStr(h));
    }
    res.count("twin_runs");
    res.count("twin_events", (long long)logs[0].size());
    size_t i = 0;
    while (i < logs[0].size() && i < logs[1].size() && logs[0][i] == logs[1][i]) ++i;
    if (i < logs[0].size() || i < logs[1].size()) {
      std::string a = i < logs[0].size() ? logs[0][i] : "<end>", b = i < logs[1].size() ? logs[1][i] : "<end>";
      std::string prev = i ? logs[0][i - 1] : "<start>";
      // classify by the kind of the first differing event and whether a forced change is involved
      std::string kind = a.substr(0, a.find(' '));
      bool forced = false;
      for (size_t j = 0; j < i; ++j) if (logs[0][j].find(" force") != std::string::npos) forced = true;
      std::string cls = args.prop + (forced ? ".event-log-differs-after-forced-change" : ".event-log-differs-at-" + kind);
      res.violate(cls, "event #" + std::to_string(i) + ": C++ interface '" + a + "', C interface '" + b + "' (previous event '" + prev + "') | world: " + w.spec + " | history: " + historyStr(h),
                  "twin|" + mode.name + "|" + w.spec + "|" + historyStr(h));
    } else if (dumps[0] != dumps[1]) {
      res.violate(args.prop + ".persisted-state-differs", "database after the history differs between the two interfaces | world: " + w.spec + " | history: " + historyStr(h),
                  "twin|" + mode.name + "|" + w.spec + "|" + historyStr(h));
    }
  }

  // The statement demands the same values and executed sets whatever the
  // completion order. The recorded order of requests issued TOGETHER may
  // legitimately depend on timing (a request whose key is still being scanned is
  // recorded when it is resumed), so dependency lists are compared as multisets.
  static std::string sortDepLists(const std::string& state) {
    std::string out;
    std::stringstream ss(state);
    std::string line;
    while (std::getline(ss, line)) {
      auto p = line.find("deps=");
      if (p != std::string::npos) {
        std::string head = line.substr(0, p + 5), rest = line.substr(p + 5);
        std::vector<std::string> items;
        std::stringstream is(rest);
        std::string it;
        while (std::getline(is, it, ',')) if (!it.empty()) items.push_back(it);
        std::sort(items.begin(), items.end());
        line = head;
        for (auto& x : items) line += x + ",";
      }
      out += line + "\n";
    }
    return out;
  }

  // C06 (order): all schedules of the last build of each prefix yield the same outcome and state.
  void allSchedules(const History& h, long cap) {
    std::string firstKey, firstSummary, firstSched;
    bool have = false;
    long n = 0;
    forSchedules(h, 1 << 20, [&](const History& hh, const RunOut& o) {
      ++n;
      res.count("transitions");
      if (o.dead) return;
      std::string sum = o.last.orderFreeSummary();
      outcomes.insert(sum);
      std::string okey = sortDepLists(o.key);
      if (!have) { have = true; firstKey = okey; firstSummary = sum; firstSched = historyStr(hh); return; }
      if (n == 7) res.sample("{\"world\": " + vj::q(w.spec) + ", \"mode\": " + vj::q(mode.name) + ", \"schedule\": " + vj::q(historyStr(hh)) + ", \"outcome\": " + vj::q(sum) + "}");
      if (sum != firstSummary || okey != firstKey) {
        res.violate(args.prop + ".outcome-differs",
                    "schedule {" + historyStr(hh) + "} gives " + sum + (okey != firstKey ? " (different engine state)" : "") +
                        "; schedule {" + firstSched + "} gives " + firstSummary + " | world: " + w.spec,
                    mode.name + "|" + w.spec + "|" + historyStr(hh));
      }
    }, cap);
    res.count("schedules", n);
    res.maxOf("max_schedules_per_build", n);
  }
};

// ---------------------------------------------------------------------------
static void versionMatrix(const uv::World& w, vj::Result& res);
static void capiVersionMatrix(const uv::World& w, vj::Result& res);
static void lockMatrix(const uv::World& w, vj::Result& res);

static void exploreWorld(const std::string& spec, const std::string& modeName, vj::Result& res) {
  uv::World w;
  std::string err;
  if (modeName.compare(0, 7, "@graphs") != 0 && !uv::parseWorld(spec, w, &err)) { fprintf(stderr, "bad world: %s\n", err.c_str()); exit(3); }
  if (modeName.compare(0, 7, "@graphs") == 0) {
    // "@graphs <n> <lo> <hi> <maxdeg>": all directed graphs on n keys with masks in [lo,hi)
    int n = 0, maxdeg = 99;
    unsigned long long lo = 0, hi = 0;
    sscanf(modeName.c_str(), "@graphs %d %llu %llu %d", &n, &lo, &hi, &maxdeg);
    for (unsigned long long mask = lo; mask < hi; ++mask) {
      bool ok = true;
      for (int i = 0; i < n && ok; ++i) if (__builtin_popcountll((mask >> (i * n)) & ((1ull << n) - 1)) > maxdeg) ok = false;
      if (!ok) continue;
      if (args.overBudget()) { res.exhaustive = false; res.count("budget_hit"); break; }
      exploreWorld(graphWorld(n, mask), "mem", res);
    }
    return;
  }
  if (modeName == "@matrix") { versionMatrix(w, res); return; }
  if (modeName == "@capiver") { capiVersionMatrix(w, res); return; }
  if (modeName == "@lock") { lockMatrix(w, res); return; }
  Mode_ m;
  if (!parseMode(modeName, m)) { fprintf(stderr, "bad mode %s\n", modeName.c_str()); exit(3); }
  Explorer ex(w, m, res);
  const std::string& p = args.prop;
  bool T = args.thorough();
  if (p == "C01") {
    ex.cfg.checkC02 = false; ex.cfg.checkProto = false; ex.cfg.checkPersist = false; ex.cfg.checkC07 = false;
    // "After any sequence of earlier builds" includes builds that failed or were
    // cancelled half-way: in database mode one cancelled build per history is part
    // of the space (without a database C05 covers the same-engine case).
    bool withCancel = m.useDB && m.keyset == 0 && !m.syncDefault;
    if (!T) {
      // quick tier: only the first 15 curated worlds carry a cancelled build (all of them in thorough)
      int idx = -1;
      for (int i = 0; i < (int)(sizeof(kCurated) / sizeof(kCurated[0])); ++i) if (spec == kCurated[i]) idx = i;
      if (idx < 0 || idx >= 15) withCancel = false;
    }
    if (m.depth) ex.bfs(m.depth + (T ? 1 : 0), 0, 0, false);
    else {
      ex.bfs(T ? 5 : 4, 1, withCancel ? 1 : 0, false);
      if (!m.syncDefault && m.keyset == 0 && isCurated(spec)) ex.abaPass();
    }
  } else if (p == "C02") {
    ex.cfg.checkC01 = false; ex.cfg.checkProto = false; ex.cfg.checkC07 = false; ex.cfg.checkPersist = false;
    if (m.depth) ex.bfs(m.depth + (T ? 1 : 0), 0, 0, false);
    else ex.bfs(T ? 5 : 4, T ? 1 : 0, 1, false);
  } else if (p == "C03") {
    ex.cfg.checkC01 = m.keyset != 0; ex.cfg.checkC02 = false; ex.cfg.checkProto = false; ex.cfg.checkC07 = false;
    {
      int idx = -1;
      for (int i = 0; i < (int)(sizeof(kCurated) / sizeof(kCurated[0])); ++i) if (spec == kCurated[i]) idx = i;
      bool withCancel = m.keyset == 0 && idx >= 0 && (T || idx < 10);
      ex.bfs(m.keyset ? (T ? 4 : 3) : (T ? 5 : 4), 0, withCancel ? 1 : 0, true);
    }
  } else if (p == "C04") {
    // graceful interruption followed by the death of the process: build K, change leaves, rebuild K interrupted at
    // EVERY step / failed write, new process on that database, any of the leaves put back, rebuild K
    ex.cfg.checkC02 = false; ex.cfg.checkProto = false; ex.cfg.checkC07 = false;
    ex.abaPass(false, /*restartOnly=*/true);
  } else if (p == "C05") {
    ex.cfg.checkC02 = false; ex.cfg.checkProto = false; ex.cfg.checkC07 = false;
    ex.bfs(T ? 5 : 4, T ? 1 : 0, 1, false);
    ex.abaPass();
  } else if (p == "C20") {
    ex.cfg.checkC02 = false; ex.cfg.checkProto = false; ex.cfg.checkC07 = false; ex.cfg.checkPersist = false;
    ex.cfg.hostileValues = true;
    // keys with NUL, 0xFF and a numeric-looking spelling
    ex.cfg.rename = {{'a', std::string("a\0z", 3)}, {'b', std::string("\xff b")}, {'c', "01"}, {'x', std::string("x\0", 2)}, {'y', std::string("\0", 1)}, {'z', "1"}};
    ex.bfs(T ? 5 : 4, T ? 1 : 0, 0, false);
  } else if (p == "C07") {
    ex.cfg.checkC01 = false; ex.cfg.checkC02 = false; ex.cfg.checkProto = false; ex.cfg.checkPersist = false;
    ex.bfs(modeName.compare(0, 7, "@graphs") == 0 || spec.find("'") == std::string::npos ? (T ? 4 : 3) : (T ? 5 : 4), 1, 0, false);
    // cycles that come and go with the leaves: build, set any subset of the leaves, build (possibly a real cycle), put
    // leaves back, build again - the failed build must not leave a false cycle (or a missed one) behind
    if (modeName.compare(0, 7, "@graphs") != 0 && isCurated(spec)) ex.abaPass(/*plainOnly=*/true);
  } else if (p == "C06") {
    ex.cfg.checkC02 = false; ex.cfg.checkPersist = false;
    // prefixes: every history of depth <= 2 (default schedules), then all schedules of a final build
    std::vector<History> prefixes{{}};
    uv::Ext e0;
    {
      RunOut o = ex.run({});
      e0 = o.ext;
    }
    std::vector<std::pair<History, uv::Ext>> level{{{}, e0}};
    int pd = T ? 3 : 2;
    if (!T && w.derived.size() + w.leaves.size() > 5) pd = 1;  // the widest worlds: shorter prefixes in the quick tier
    std::set<std::string> seen;
    for (int d = 0; d <= pd; ++d) {
      std::vector<std::pair<History, uv::Ext>> next;
      for (auto& pr : level) {
        for (Event ev : ex.alphabet(pr.second)) {
          History h = pr.first;
          h.push_back(ev);
          if (ev.kind == 'b') ex.allSchedules(h, T ? 200000 : 20000);
          if (ev.kind == 'b' && m.useDB) {
            // a database write error at every write of the build, under every delivery schedule with <= 1 deviation:
            // the build has to return (no wait that nothing can satisfy), the protocol oracles stay on
            RunOut base = ex.run(h, false, false);
            for (int i = 1; i <= base.last.writes; ++i) {
              History hf = h;
              hf.back().failWriteAt = i;
              ex.forSchedules(hf, 1, [&](const History&, const RunOut&) { res.count("db_write_error_schedules"); });
            }
          }
          if (d < pd) {
            RunOut o = ex.run(h);
            if (!o.dead && seen.insert(o.key).second) next.push_back({h, o.ext});
          }
        }
        if (args.overBudget()) { res.exhaustive = false; break; }
      }
      level.swap(next);
    }
    // Regardless of the prefix depth: build, change EVERY leaf, then all schedules
    // of the rebuild (several inputs recomputing concurrently is where the order
    // of completions matters most).
    for (char root : w.derived) {
      for (char first : w.derived) {
        if (args.overBudget()) { res.exhaustive = false; break; }
        History h;
        Event b0; b0.kind = 'b'; b0.key = first; h.push_back(b0);
        for (char x : w.leaves) { Event e; e.kind = 's'; e.key = x; e.val = 1; h.push_back(e); }
        Event b1; b1.kind = 'b'; b1.key = root; h.push_back(b1);
        ex.allSchedules(h, T ? 200000 : 20000);
      }
    }
    res.count("states", (long long)seen.size() + 1);
  }
  res.count("executions", ex.runs);
  res.count("builds", ex.builds);
  res.count("worlds");
  res.count("distinct_outcomes", (long long)ex.outcomes.size());
}

// ---- C03 (4): schema/client version matrix and database lock -------------------
static std::string sh(const std::string& cmd) {
  std::string out;
  FILE* p = popen(cmd.c_str(), "r");
  if (!p) return "";
  char buf[512];
  while (fgets(buf, sizeof buf, p)) out += buf;
  pclose(p);
  while (!out.empty() && isspace((unsigned char)out.back())) out.pop_back();
  return out;
}
static std::string fileHash(const std::string& path) { return sh("md5sum '" + path + "' 2>/dev/null | cut -d' ' -f1"); }

// C20: "database attachment with a schema version" has its documented effect through both interfaces: a database written
// with client version v1 by one interface and attached with v2 by the other (or the same) is reused iff v1 == v2.
static void capiVersionMatrix(const uv::World& w, vj::Result& res) {
  std::string path = dbDir + "/capiver.db";
  History h1, h2;
  parseHistory("b b, s x 1, b b", h1);
  parseHistory("s x 1, b b", h2);  // a new session starts from the initial external state
  const uint32_t kV[] = {0, 1, 2, 0x7FFFFFFEu, 0x7FFFFFFFu, 0x80000000u, 0x9E3779B9u, 0xFFFFFFFFu};
  for (int writer = 0; writer < 2; ++writer)
    for (int reader = 0; reader < 2; ++reader)
      for (uint32_t v1 : kV)
        for (uint32_t v2 : kV) {
          auto cfgFor = [&](int capi, uint32_t v, bool keep) {
            Config c;
            c.prop = "C20";
            c.useDB = true; c.dbPath = path; c.clientVersion = v; c.capi = capi != 0; c.keepDB = keep;
            c.checkC02 = false; c.checkProto = false; c.checkC07 = false; c.checkPersist = false;
            return c;
          };
          std::string first, second;
          {
            vj::Result scratch;
            Session s(w, cfgFor(writer, v1, false), scratch);
            for (auto& ev : h1) { BuildObs o; s.apply(ev, &o); if (ev.kind == 'b') first = o.orderFreeSummary(); }
          }
          {
            Session s(w, cfgFor(reader, v2, true), res);
            s.replayPrefix = "@capiver|" + w.spec + "|";
            for (auto& ev : h2) { BuildObs o; s.apply(ev, &o); if (ev.kind == 'b') second = o.orderFreeSummary(); }
          }
          res.count("capi_version_cells");
          res.count("executions");
          // reuse: nothing executes; discarded: every rule executes again
          bool reused = second.find("{}") != std::string::npos;
          char what[256];
          snprintf(what, sizeof what, "database written through the %s interface with client version 0x%X, attached through the %s interface with 0x%X: the build %s (%s)",
                   writer ? "C" : "C++", v1, reader ? "C" : "C++", v2, reused ? "reused the stored results" : "executed rules again", second.c_str());
          std::string spec = "@capiver|" + w.spec + "|" + std::to_string(writer) + "," + std::to_string(reader) + "," + std::to_string(v1) + "," + std::to_string(v2);
          if ((v1 == v2) != reused)
            res.violate(v1 == v2 ? "C20.matching-schema-version-not-reused" : "C20.different-schema-version-reused", what, spec);
        }
}

static void versionMatrix(const uv::World& w, vj::Result& res) {
  std::string path = dbDir + "/matrix.db";
  History h;
  parseHistory("b b, s x 1, b b", h);
  // schema version the code under test writes: read from a database it just created
  int S = -1;
  {
    vj::Result scratch;
    Config c;
    c.useDB = true; c.dbPath = path; c.clientVersion = 1;
    c.checkC02 = false; c.checkProto = false; c.checkC07 = false; c.checkPersist = false;
    Session s(w, c, scratch);
    for (auto& ev : h) s.apply(ev);
  }
  S = atoi(sh("sqlite3 '" + path + "' 'SELECT version FROM info;'").c_str());
  // client versions: small ones and the boundaries of the signed 32-bit column they are stored in
  const uint32_t kClient[] = {0, 1, 2, 0x7FFFFFFFu, 0x80000000u, 0xFFFFFFFFu};
  for (int stored = 0; stored < 4; ++stored)        // 0: no info table, 1: S-1, 2: S, 3: S+1
    for (uint32_t c : kClient)
      for (uint32_t c2 : kClient)
        for (int recreate = 0; recreate < 2; ++recreate) {
          ::unlink(path.c_str());
          {
            vj::Result scratch;
            Config cf;
            cf.useDB = true; cf.dbPath = path; cf.clientVersion = c;
            cf.checkC02 = false; cf.checkProto = false; cf.checkC07 = false; cf.checkPersist = false;
            Session s(w, cf, scratch);
            for (auto& ev : h) s.apply(ev);
          }
          if (stored == 0) sh("sqlite3 '" + path + "' 'DROP TABLE info;'");
          else if (stored != 2) sh("sqlite3 '" + path + "' 'UPDATE info SET version=" + std::to_string(S + stored - 2) + ";'");
          DBDump before = stored == 0 ? DBDump() : DBDump();
          std::string rows = sh("sqlite3 '" + path + "' 'SELECT count(*) FROM rule_results;'");
          std::string hashBefore = fileHash(path);
          bool same = stored == 2 && c == c2;
          std::string err;
          auto db = createSQLiteBuildDB(path, c2, recreate != 0, &err);
          KeyTable kt;
          db->attachDelegate(&kt);
          bool ok = false;
          uint64_t epoch = db->getCurrentEpoch(&ok, &err);
          std::vector<KeyType> keys;
          std::vector<Result> results;
          std::string err2;
          bool ok2 = ok && db->getKeysWithResult(keys, results, &err2);
          db.reset();
          std::string what = "stored (schema " + std::string(stored == 0 ? "none" : std::to_string(S + stored - 2)) + ", client " + std::to_string(c) + ") opened with client " +
                             std::to_string(c2) + (recreate ? " recreate" : " no-recreate");
          std::string spec = "@matrix|" + w.spec + "|" + std::to_string(stored) + "," + std::to_string(c) + "," + std::to_string(c2) + "," + std::to_string(recreate);
          res.count("version_matrix_cells");
          if (same) {
            if (!ok || !ok2 || keys.size() != (size_t)atoi(rows.c_str()) || epoch != 2)
              res.violate("C03.matching-version-not-intact", what + ": contents not intact (ok=" + std::to_string(ok) + " keys=" + std::to_string(keys.size()) + " epoch=" + std::to_string(epoch) + ") " + err, spec);
          } else if (recreate) {
            if (!ok || !ok2 || !keys.empty() || epoch != 0)
              res.violate("C03.mismatched-version-interpreted", what + ": expected an empty recreated database, got ok=" + std::to_string(ok) + " keys=" + std::to_string(keys.size()) + " epoch=" + std::to_string(epoch) + " " + err, spec);
          } else {
            if (ok) res.violate("C03.mismatched-version-accepted", what + ": opened without error (epoch " + std::to_string(epoch) + ", " + std::to_string(keys.size()) + " keys)", spec);
            if (fileHash(path) != hashBefore) res.violate("C03.mismatched-version-file-modified", what + ": rejected but the file was modified", spec);
          }
        }
}

static void lockMatrix(const uv::World& w, vj::Result& res) {
  // While engine A is inside a build (at every step), engine B on the same file
  // must fail with an error and write nothing; A's build must be unaffected.
  std::string path = dbDir + "/lock.db";
  History h;
  parseHistory("b b, s x 1", h);
  Event last;
  last.kind = 'b';
  last.key = 'b';
  int steps = 0;
  for (int probeAt = 0;; ++probeAt) {
    vj::Result scratch;
    Config c;
    c.useDB = true; c.dbPath = path;
    c.checkC02 = false; c.checkProto = false; c.checkC07 = false;
    Session a(w, c, scratch);
    for (auto& ev : h) a.apply(ev);
    std::string bReport;
    bool probed = false;
    if (probeAt > 0) {
      a.probeAt = probeAt;
      a.probe = [&]() {
        probed = true;
        std::string hashBefore = fileHash(path) + fileHash(path + "-journal");
        vj::Result sb;
        Config cb = c;
        cb.keepDB = true;
        cb.checkC01 = false; cb.checkPersist = false;
        {
          Session b(w, cb, sb);
          b.ext = a.ext;
          BuildObs ob;
          Event eb;
          eb.kind = 'b';
          eb.key = 'b';
          b.apply(eb, &ob);
          bool attachFailed = false;
          for (auto& v : sb.violations) if (v.cls.find("db-attach-failed") != std::string::npos) attachFailed = true;
          if (ob.success) bReport += "second engine's build succeeded while the first build held the database; ";
          else if (ob.errors.empty() && !attachFailed) bReport += "second engine's build failed without an error; ";
        }
        if (fileHash(path) + fileHash(path + "-journal") != hashBefore) bReport += "second engine modified the database or its journal; ";
      };
    }
    BuildObs oa;
    a.apply(last, &oa);
    if (probeAt == 0) { steps = oa.steps; continue; }
    res.count("lock_probes");
    std::string spec = "@lock|" + w.spec + "|" + std::to_string(probeAt);
    if (!probed) res.violate("C03.harness-probe-missed", "probe step not reached", spec);
    if (!bReport.empty()) res.violate("C03.second-engine-not-locked-out", bReport + "(probe at step " + std::to_string(probeAt) + " of the first engine's build)", spec);
    if (!oa.success) res.violate("C03.first-build-disturbed", "the first engine's build failed after a second engine tried to use the database: " + (oa.errors.empty() ? "" : oa.errors[0]), spec);
    for (auto& v : scratch.violations) res.violate("C03.first-build-disturbed-" + v.cls.substr(v.cls.find('.') + 1), v.what, spec);
    if (probeAt >= steps) break;
  }
}

// A condition wait on the explorer thread inside a build can never return: every
// completion is delivered by this same thread at the notification points, so
// blocking here means the engine went to sleep although the completion it is
// waiting for has already been reported (lost wake-up) - or was never going to
// be.  Verdict, not a harness hang: mark the shared page and leave the child.
static void blockedInWait() {
  if (g_current) {
    std::string cur = g_current;
    std::string m = "BLOCKED:" + cur;
    strncpy(g_current, m.c_str(), 65535);
  }
  _exit(77);
}
extern "C" int pthread_cond_wait(pthread_cond_t* c, pthread_mutex_t* m) {
  static auto real = (int (*)(pthread_cond_t*, pthread_mutex_t*))dlsym(RTLD_NEXT, "pthread_cond_wait");
  auto& st = engineThreadState();
  if (st.inBuild && pthread_equal(st.thread, pthread_self())) blockedInWait();
  return real(c, m);
}
extern "C" int pthread_cond_clockwait(pthread_cond_t* c, pthread_mutex_t* m, clockid_t clk, const struct timespec* ts) {
  static auto real = (int (*)(pthread_cond_t*, pthread_mutex_t*, clockid_t, const struct timespec*))dlsym(RTLD_NEXT, "pthread_cond_clockwait");
  auto& st = engineThreadState();
  if (st.inBuild && pthread_equal(st.thread, pthread_self())) blockedInWait();
  return real(c, m, clk, ts);
}
extern "C" int pthread_cond_timedwait(pthread_cond_t* c, pthread_mutex_t* m, const struct timespec* ts) {
  static auto real = (int (*)(pthread_cond_t*, pthread_mutex_t*, const struct timespec*))dlsym(RTLD_NEXT, "pthread_cond_timedwait");
  auto& st = engineThreadState();
  if (st.inBuild && pthread_equal(st.thread, pthread_self())) blockedInWait();
  return real(c, m, ts);
}

// SQLite's busy handler sleeps up to 5 s when the database is locked: virtualised.
extern "C" int usleep(useconds_t) { return 0; }
extern "C" unsigned int sleep(unsigned int) { return 0; }

int main(int argc, char** argv) {
  args.parse(argc, argv);
  dbDir = "/dev/shm/verif-enginex-" + std::to_string(getpid());
  mkdir(dbDir.c_str(), 0700);
  vj::Result res;
  res.strings["rule"] =
      "worlds (rule programs) x breadth-first search over event histories {set leaf, tamper cell, build key, restart, redefine} x "
      "in-build schedules (sync/deferred completion, delivery order) within a deviation bound x cancellation points; a case is one "
      "history executed on a fresh real engine; distinct = distinct canonical state (engine dump + database + external state)";

  if (args.replaySpec.compare(0, 5, "twin|") == 0) args.replaySpec = args.replaySpec.substr(5), args.extra = "twin";
  if (!args.replaySpec.empty()) {
    // "<mode>|<world>|<history>"
    auto a = args.replaySpec.find('|');
    auto b = args.replaySpec.find('|', a + 1);
    std::string mode = args.replaySpec.substr(0, a), world = args.replaySpec.substr(a + 1, b - a - 1), hist = args.replaySpec.substr(b + 1);
    if (!mode.empty() && mode[0] == '@' && mode.compare(0, 7, "@graphs") != 0) {
      // the version / lock matrices are small: a replay re-runs the whole matrix and reports the cells that fail
      exploreWorld(world, mode, res);
      for (auto& v : res.violations) printf("violation %s: %s [%s]\n", v.cls.c_str(), v.what.c_str(), v.spec.c_str());
      res.write(args.out);
      std::string cmd = "rm -rf " + dbDir;
      if (system(cmd.c_str()) != 0) {}
      return res.violations.empty() ? 0 : 1;
    }
    uv::World w;
    std::string err;
    Mode_ m;
    History h;
    if (!uv::parseWorld(world, w, &err) || !parseMode(mode, m) || !parseHistory(hist, h)) { fprintf(stderr, "bad replay spec %s\n", err.c_str()); return 3; }
    Explorer ex(w, m, res);
    if (args.extra == "twin") {
      ex.cfg.checkC02 = false; ex.cfg.checkProto = false; ex.cfg.checkC07 = false; ex.cfg.checkPersist = false;
      ex.cfg.hostileValues = true;
      ex.cfg.rename = {{'a', std::string("a\0z", 3)}, {'b', std::string("\xff b")}, {'c', "01"}, {'x', std::string("x\0", 2)}, {'y', std::string("\0", 1)}, {'z', "1"}};
      ex.twin(h);
    }
    RunOut o = ex.run(h, /*judgeAll=*/true);
    printf("replayed: %s\nfinal state:\n%s\n", historyStr(h).c_str(), o.key.c_str());
    for (auto& b : o.builds) printf("  build %c: %s reasons: %s steps=%d\n", b.key, b.orderFreeSummary().c_str(), b.reasons.c_str(), b.steps);
    res.count("executions", 1);
    res.write(args.out);
    for (auto& v : res.violations) printf("violation %s: %s\n", v.cls.c_str(), v.what.c_str());
    std::string cmd = "rm -rf " + dbDir;
    (void)system(cmd.c_str());
    return res.violations.empty() ? 0 : 1;
  }

  // work list: (world, mode)
  std::vector<std::pair<std::string, std::string>> work;
  const std::string& p = args.prop;
  bool T = args.thorough();
  std::vector<std::string> worlds(std::begin(kCurated), std::end(kCurated));
  if (p == "C07") {
    // all directed graphs on n keys
    // all directed graphs (self-loops included) on up to 4 keys; thorough adds 5 keys with out-degree <= 2
    for (int n = 1; n <= 4; ++n) {
      unsigned long long total = 1ull << (n * n), step = 512;
      for (unsigned long long lo = 0; lo < total; lo += step)
        work.push_back({"", "@graphs " + std::to_string(n) + " " + std::to_string(lo) + " " + std::to_string(std::min(total, lo + step)) + " 99"});
    }
    if (T) {
      unsigned long long total = 1ull << 25, step = 1ull << 14;
      for (unsigned long long lo = 0; lo < total; lo += step)
        work.push_back({"", "@graphs 5 " + std::to_string(lo) + " " + std::to_string(lo + step) + " 2"});
    }
    for (auto& wd : worlds) { work.push_back({wd, "mem"}); work.push_back({wd, "db"}); if (T) work.push_back({wd, "db+force"}); }
  } else if (p == "C06") {
    for (auto& wd : worlds) { work.push_back({wd, "mem"}); work.push_back({wd, "db"}); }
  } else if (p == "C04") {
    for (auto& wd : worlds) work.push_back({wd, "db"});
  } else if (p == "C20") {
    // the sub-family expressible through core.h: no single-use requests, no signatures / redefinition
    for (auto& wd : worlds) {
      if (wd.find("/S") != std::string::npos || wd.find('\'') != std::string::npos) continue;
      work.push_back({wd, "mem"});
      work.push_back({wd, "db"});
    }
    work.push_back({"a: x; b: a y", "@capiver"});
  } else if (p == "C03") {
    for (auto& wd : worlds) work.push_back({wd, "db"});
    // (3) byte-string keys and values: hostile spellings of every key
    const char* kw[] = {"a: x y; b: a; c: b a", "a: x; b: y; c: a ?0=1>b", "a: x !y; b: a z", "a: x; b: a/S y; c: b a/M w", "a: x y %collapse; b: a; c: b z; d: c a w"};
    for (int ks = 1; ks <= 4; ++ks)
      for (auto* wd : kw) work.push_back({wd, "db+k" + std::to_string(ks)});
    // (4) version and lock matrix
    work.push_back({"a: x; b: a y", "@matrix"});
    work.push_back({"a: x; b: a y", "@lock"});
  } else {
    for (auto& wd : worlds) { work.push_back({wd, "mem"}); work.push_back({wd, "db"}); }
    if (p == "C01") {
      for (auto& wd : worlds) work.push_back({wd, "mem+sync"});
      auto fam = staticFamily();
      size_t stride = T ? 1 : 17;
      for (size_t i = (size_t)(args.seed % stride); i < fam.size(); i += stride) work.push_back({fam[i], "mem"});
    }
    if (p == "C01" || p == "C02")
      for (auto& wd : modesFamily()) { work.push_back({wd, "mem+d3"}); work.push_back({wd, "db+d3"}); }
    if (p == "C01") {
      // keys are byte strings: hostile spellings of every key (NUL inside, one key a prefix of another up to a NUL, 0xFF),
      // the stored dependency names have to come back from the database unharmed
      const char* kw[] = {"a: x y; b: a; c: b a", "a: x; b: y; c: a ?0=1>b", "a: x !y; b: a z", "a: x; b: a/S y; c: b a/M w"};
      for (int ks = 1; ks <= 4; ++ks)
        for (auto* wd : kw) work.push_back({wd, "db+k" + std::to_string(ks) + "+d3"});
    }
  }

  g_current = (char*)mmap(nullptr, 65536, PROT_READ | PROT_WRITE, MAP_SHARED | MAP_ANONYMOUS, -1, 0);
  for (size_t i = 0; i < work.size(); ++i) {
    if ((int)(i % args.nshards) != args.shard) continue;
    if (args.overBudget()) { res.exhaustive = false; res.count("worlds_skipped_budget"); continue; }
    // one child per world: a crash of the code under test is an observed outcome
    std::string tmp = dbDir + "/item.out";
    g_current[0] = 0;
    pid_t pid = fork();
    if (pid == 0) {
      vj::Result r;
      exploreWorld(work[i].first, work[i].second, r);
      FILE* f = fopen(tmp.c_str(), "w");
      for (auto& kv : r.counters) fprintf(f, "C\t%s\t%lld\n", kv.first.c_str(), kv.second);
      for (auto& sm : r.samples) fprintf(f, "S\t%s\n", sm.c_str());
      for (auto& v : r.violations) fprintf(f, "V\t%s\t%s\t%s\n", vj::esc(v.cls).c_str(), vj::esc(v.what).c_str(), vj::esc(v.spec).c_str());
      fprintf(f, "X\t%d\n", r.exhaustive ? 1 : 0);
      fclose(f);
      _exit(0);
    }
    int st = 0;
    waitpid(pid, &st, 0);
    if (WIFEXITED(st) && WEXITSTATUS(st) == 77 && strncmp(g_current, "BLOCKED:", 8) == 0) {
      std::string cur = g_current + 8;
      res.violate(args.prop + ".blocked-in-wait", "the engine thread blocked in a condition wait inside build() although every completion had been delivered (lost wake-up / wait that nothing can satisfy) while executing: " + cur, cur);
      res.exhaustive = false;
      continue;
    }
    if (!WIFEXITED(st) || WEXITSTATUS(st) != 0) {
      std::string cur = g_current;
      res.violate(args.prop + ".crash", "the process crashed (" + (WIFSIGNALED(st) ? "signal " + std::to_string(WTERMSIG(st)) : "exit " + std::to_string(WEXITSTATUS(st))) +
                                            ") while executing: " + cur, cur);
      res.exhaustive = false;
      continue;
    }
    FILE* f = fopen(tmp.c_str(), "r");
    if (!f) { fprintf(stderr, "enginex: missing item output\n"); return 3; }
    char* line = nullptr;
    size_t cap = 0;
    ssize_t n;
    auto unesc = [](const std::string& e) {
      std::string o;
      for (size_t i = 0; i < e.size(); ++i) {
        if (e[i] != '\\' || i + 1 >= e.size()) { o += e[i]; continue; }
        char c = e[++i];
        if (c == 'n') o += '\n'; else if (c == 't') o += '\t'; else if (c == 'r') o += '\r';
        else if (c == 'u' && i + 4 < e.size()) { o += (char)strtol(e.substr(i + 1, 4).c_str(), nullptr, 16); i += 4; }
        else o += c;
      }
      return o;
    };
    while ((n = getline(&line, &cap, f)) > 0) {
      std::string l(line, (size_t)n);
      if (!l.empty() && l.back() == '\n') l.pop_back();
      std::vector<std::string> parts;
      size_t p0 = 0;
      for (size_t t; (t = l.find('\t', p0)) != std::string::npos; p0 = t + 1) parts.push_back(l.substr(p0, t - p0));
      parts.push_back(l.substr(p0));
      if (parts[0] == "C" && parts.size() == 3) {
        if (parts[1].compare(0, 4, "max_") == 0) res.maxOf(parts[1], atoll(parts[2].c_str())); else res.count(parts[1], atoll(parts[2].c_str()));
      } else if (parts[0] == "S" && parts.size() >= 2) res.sample(l.substr(2));
      else if (parts[0] == "V" && parts.size() == 4) res.violate(unesc(parts[1]), unesc(parts[2]), unesc(parts[3]));
      else if (parts[0] == "X" && parts[1] == "0") res.exhaustive = false;
    }
    free(line);
    fclose(f);
  }
  // model_checking evidence keys
  res.counters["traces_validated_against_impl"] = res.counters["executions"];
  res.counters["evaluations"] = res.counters["executions"];
  res.counters["distinct_nontrivial"] = res.counters["states"];
  res.write(args.out);
  std::string cmd = "rm -rf " + dbDir;
  (void)system(cmd.c_str());
  return res.violations.empty() ? 0 : 1;
}

// enginex: explicit-state search over the real BuildEngine (DESIGN.md §4.2).
//
//   enginex --prop C01|C02|C03|C05|C06|C07 --tier quick|thorough --shard i --nshards n --out FILE
//           [--replay-spec "<mode>|<world spec>|<history>"]
//
// A state is the event history that reaches it, replayed on a fresh engine;
// states are deduplicated by a canonical dump (engine + database + external
// state, epochs rank-compressed).  Every transition calls the real engine.
#include "driver.h"

#include <deque>
#include <sys/stat.h>
#include <sys/wait.h>

using namespace ex;

static vj::Args args;
static std::string dbDir;

struct Mode_ {
  std::string name;  // "mem", "db", "db+force", ...
  bool useDB = false, resolveForce = false, syncDefault = false;
};
static bool parseMode(const std::string& s, Mode_& m) {
  m = Mode_();
  m.name = s;
  std::stringstream ss(s);
  std::string t;
  while (std::getline(ss, t, '+')) {
    if (t == "mem") m.useDB = false;
    else if (t == "db") m.useDB = true;
    else if (t == "force") m.resolveForce = true;
    else if (t == "sync") m.syncDefault = true;
    else return false;
  }
  return true;
}

// ---------------------------------------------------------------------------
// worlds
static const char* kCurated[] = {
    // static
    "a: x y",
    "a: x; b: a y; c: a b",
    "a: x y; b: a; c: b a",
    // value-dependent dynamic requests
    "a: x ?0=1>y",
    "a: x; b: y; c: a ?0=1>b",
    "a: x; b: y; c: a ?0=0>b y",
    "a: x; b: a ?0=*>y; c: b ?0=1>a",
    // discovered dependencies
    "a: x !y",
    "a: x !y@0=1; b: a",
    "a: x; b: a !y; c: b y",
    // order-only and single-use edges
    "a: x; b: a/M y",
    "a: x; b: a/S y",
    "a: x; b: y; c: a/M b/S x",
    // recomputed to identical value / forced change
    "a: x y %collapse; b: a",
    "a: x %force; b: a %collapse; c: b",
    "a: x y %collapse; b: a ?0=1>y",
    // output-backed and never-valid rules
    "a: x #cell; b: a",
    "a: x #never; b: a y",
    "a: x y %collapse #cell; b: a #cell",
    // redefinition across restarts
    "a: x; a': y; b: a",
    "a: x; b: a y; b': a",
    "a: x y; a': x; b: a; c: b ?0=1>a",
    // cycle-capable (cycle only in some external states / only after a dynamic request)
    "a: x ?0=1>b; b: y ?0=1>a",
    "a: x ?0=0>a",
    "a: x ?0=*>b; b: y ?0=0>c; c: x ?0=1>a",
    "a: b; b: a",
    // mixed
    "a: x ?0=1>y !z; b: a/S x; c: b a/M",
    "a: x; b: a ?0=1>y %collapse; c: b !x #cell",
    "a: x !y; b: a ?0=0>x; b': a/M y; c: b a",
    "a: x y %collapse; b: a !z@0=1 #cell; c: a/S b ?1=1>x",
};

static std::vector<std::string> reqLists(const std::string& keys, int maxLen) {
  std::vector<std::string> out{""};
  for (char a : keys) {
    out.push_back(std::string(" ") + a);
    if (maxLen >= 2)
      for (char b : keys)
        if (a != b) out.push_back(std::string(" ") + a + " " + b);
  }
  return out;
}
// all static programs over derived a,b,c and leaves x,y, <=2 requests each, acyclic by construction
static std::vector<std::string> staticFamily() {
  std::vector<std::string> out;
  for (auto& ra : reqLists("xy", 2))
    for (auto& rb : reqLists("xya", 2))
      for (auto& rc : reqLists("xyab", 2)) out.push_back("a:" + ra + "; b:" + rb + "; c:" + rc);
  return out;
}
// all directed graphs on n keys (a..), static requests in ascending key order
static std::string graphWorld(int n, unsigned long long mask) {
  std::string s;
  for (int i = 0; i < n; ++i) {
    if (i) s += "; ";
    s += char('a' + i);
    s += ":";
    for (int j = 0; j < n; ++j)
      if (mask >> (i * n + j) & 1) { s += ' '; s += char('a' + j); }
  }
  return s;
}

// ---------------------------------------------------------------------------
struct RunOut {
  std::string key;       // canonical state
  BuildObs last;         // observation of the last event if it was a build
  uv::Ext ext;
  bool dead = false;
  std::vector<BuildObs> builds;
};

struct Explorer {
  const uv::World& w;
  Mode_ mode;
  vj::Result& res;
  Config cfg;
  long runs = 0, builds = 0;
  std::set<std::string> outcomes;

  Explorer(const uv::World& w, const Mode_& m, vj::Result& res) : w(w), mode(m), res(res) {
    cfg.prop = args.prop;
    cfg.useDB = m.useDB;
    cfg.resolveForce = m.resolveForce;
    cfg.syncDefault = m.syncDefault;
    cfg.dbPath = dbDir + "/build.db";
  }

  RunOut run(const History& h, bool judgeAll = false, bool wantKey = true) {
    RunOut out;
    Session s(w, cfg, res);
    s.replayPrefix = mode.name + "|" + w.spec + "|";
    for (size_t i = 0; i < h.size(); ++i) {
      s.quiet = !judgeAll && i + 1 != h.size();
      BuildObs o;
      s.apply(h[i], &o);
      if (h[i].kind == 'b') { ++builds; out.builds.push_back(o); if (i + 1 == h.size()) out.last = o; }
      if (s.dead) break;
      if (cfg.useDB && h[i].kind == 'b' && !s.quiet && args.prop == "C03") checkReadBack(s);
    }
    ++runs;
    out.dead = s.dead;
    out.ext = s.ext;
    if (wantKey && !s.dead) out.key = s.canonicalState();
    return out;
  }

  // C03(2): everything written is read back identically by a fresh BuildDB.
  void checkReadBack(Session& s) {
    DBDump dd = readDatabase(cfg.dbPath);
    res.count("readbacks");
    if (!dd.ok) { s.violate("readback-open-failed", "fresh BuildDB cannot read the database: " + dd.error); return; }
    if (dd.epoch != s.lastIteration)
      s.violate("readback-epoch", "stored epoch reads back as " + std::to_string(dd.epoch) + ", written " + std::to_string(s.lastIteration));
    for (auto& kv : s.lastWritten) {
      auto it = dd.recs.find(kv.first);
      if (it == dd.recs.end()) s.violate("readback-missing", "record written for key '" + kv.first + "' is not read back");
      else if (!it->second.sameAs(kv.second))
        s.violate("readback-differs", "record reads back as [" + it->second.str() + "], written [" + kv.second.str() + "]");
    }
    for (auto& kv : dd.recs)
      if (!s.lastWritten.count(kv.first)) s.violate("readback-phantom", "database holds a record for '" + kv.first + "' that was never written");
  }

  std::vector<Event> alphabet(const uv::Ext& ext, bool withCancelFree = true) {
    std::vector<Event> out;
    for (char x : w.leaves)
      for (int v = 0; v < w.nvals; ++v)
        if (ext.s.at(x) != v) { Event e; e.kind = 's'; e.key = x; e.val = v; out.push_back(e); }
    for (char k : w.derived) {
      const uv::RuleDef& d = uv::defOf(w, ext, k);
      auto it = ext.o.find(k);
      if (d.validity == 2 && it != ext.o.end() && it->second != "<tampered>") { Event e; e.kind = 't'; e.key = k; out.push_back(e); }
    }
    for (char k : w.derived) { Event e; e.kind = 'b'; e.key = k; out.push_back(e); }
    if (args.thorough())
      for (char k : w.leaves) { Event e; e.kind = 'b'; e.key = k; out.push_back(e); }
    if (mode.useDB) {
      Event e; e.kind = 'r'; out.push_back(e);
      for (auto& kv : w.alt) { Event d; d.kind = 'd'; d.key = kv.first; out.push_back(d); }
    }
    return out;
  }

  static int deviations(const std::vector<std::pair<int, int>>& tr, size_t upto) {
    int n = 0;
    for (size_t i = 0; i < upto && i < tr.size(); ++i) if (tr[i].first != 0) ++n;
    return n;
  }

  // Enumerate schedules of the last (build) event of h with at most `bound`
  // deviations from the default choice; call fn for every execution.
  void forSchedules(History h, int bound, const std::function<void(const History&, const RunOut&)>& fn, long cap = 200000) {
    std::vector<std::vector<int>> work{h.back().choices};
    size_t baseLen = h.back().choices.size();
    long n = 0;
    while (!work.empty()) {
      std::vector<int> prefix = work.back();
      work.pop_back();
      h.back().choices = prefix;
      RunOut o = run(h);
      fn(h, o);
      if (++n >= cap) { res.exhaustive = false; res.count("schedule_cap_hit"); break; }
      auto& tr = o.last.trace;
      for (size_t i = std::max(prefix.size(), baseLen); i < tr.size(); ++i) {
        if (deviations(tr, i) + 1 > bound) continue;
        for (int alt = 1; alt < tr[i].second; ++alt) {
          std::vector<int> p;
          for (size_t j = 0; j < i; ++j) p.push_back(tr[j].first);
          p.push_back(alt);
          work.push_back(p);
        }
      }
    }
  }

  // Breadth-first search over histories.
  //  depth: number of events; devBound: in-build schedule deviations per build;
  //  maxCancels: cancelled builds per history (C05/C02).
  void bfs(int depth, int devBound, int maxCancels, bool splitDifferential) {
    std::set<std::string> seen;
    struct Node { History h; uv::Ext ext; int cancels; };
    std::deque<Node> frontier;
    {
      RunOut o = run({});
      seen.insert(o.key);
      frontier.push_back({{}, o.ext, 0});
    }
    int completed = 0;
    for (int d = 1; d <= depth; ++d) {
      std::deque<Node> next;
      for (auto& node : frontier) {
        if (args.overBudget()) { res.exhaustive = false; res.count("budget_hit"); goto done; }
        for (Event ev : alphabet(node.ext)) {
          History h = node.h;
          h.push_back(ev);
          auto visit = [&](const History& hh, const RunOut& o, int cancels) {
            res.count("transitions");
            if (o.dead) return;
            if (hh.back().kind == 'b') outcomes.insert(o.last.orderFreeSummary());
            if (seen.insert(o.key).second) next.push_back({hh, o.ext, cancels});
          };
          if (ev.kind != 'b') {
            RunOut o = run(h);
            visit(h, o, node.cancels);
            continue;
          }
          int steps = 0;
          bool first = true;
          std::vector<History> uncancelled;
          forSchedules(h, devBound, [&](const History& hh, const RunOut& o) {
            if (first) { steps = o.last.steps; first = false; }
            visit(hh, o, node.cancels);
            uncancelled.push_back(hh);
            if (splitDifferential && hh.back().choices.empty()) checkSplit(hh, o);
          });
          if (node.cancels < maxCancels) {
            // cancellation at every step of every explored schedule of this build
            for (auto& hh : uncancelled) {
              RunOut base = run(hh, false, false);
              for (int i = 1; i <= base.last.steps; ++i) {
                History hc = hh;
                hc.back().cancelAt = i;
                RunOut o = run(hc);
                res.count("cancel_points");
                visit(hc, o, node.cancels + 1);
              }
            }
          }
        }
      }
      frontier.swap(next);
      completed = d;
      if (frontier.empty()) break;
    }
  done:
    res.maxOf("max_depth_completed", completed);
    res.count("states", (long long)seen.size());
    if (res.samples.size() < 4 && !frontier.empty())
      res.sample("{\"world\": " + vj::q(w.spec) + ", \"mode\": " + vj::q(mode.name) + ", \"history\": " + vj::q(historyStr(frontier.back().h)) + "}");
  }

  // C03(1): the same history with a restart inserted at every build boundary
  // performs the same executions and returns the same results.
  void checkSplit(const History& h, const RunOut& single) {
    for (auto& e : h) if (e.kind == 'r' || e.kind == 'd') return;
    for (auto& b : single.builds) if (!b.success) return;
    History split;
    bool sawBuild = false;
    for (auto& e : h) {
      if (e.kind == 'b' && sawBuild) { Event r; r.kind = 'r'; split.push_back(r); }
      if (e.kind == 'b') sawBuild = true;
      split.push_back(e);
    }
    if (split.size() == h.size()) return;
    vj::Result scratch;  // verdicts of the split run itself are judged when BFS reaches it
    Explorer sub(w, mode, scratch);
    RunOut o = sub.run(split, false, false);
    res.count("split_differentials");
    if (o.builds.size() != single.builds.size()) return;
    for (size_t i = 0; i < o.builds.size(); ++i) {
      const BuildObs &a = single.builds[i], &b = o.builds[i];
      std::string ea = a.executed, eb = b.executed;
      std::sort(ea.begin(), ea.end());
      std::sort(eb.begin(), eb.end());
      if (a.success != b.success || a.value != b.value || ea != eb) {
        res.violate(args.prop + ".restart-split-differs",
                    "build #" + std::to_string(i + 1) + " in one engine: " + a.orderFreeSummary() + "; with a restart at every build boundary: " +
                        b.orderFreeSummary() + " | world: " + w.spec + " | history: " + historyStr(h),
                    mode.name + "|" + w.spec + "|" + historyStr(split));
        return;
      }
    }
  }

  // C06 (order): all schedules of the last build of each prefix yield the same outcome and state.
  void allSchedules(const History& h, long cap) {
    std::string firstKey, firstSummary, firstSched;
    bool have = false;
    long n = 0;
    forSchedules(h, 1 << 20, [&](const History& hh, const RunOut& o) {
      ++n;
      res.count("transitions");
      if (o.dead) return;
      std::string sum = o.last.orderFreeSummary();
      outcomes.insert(sum);
      if (!have) { have = true; firstKey = o.key; firstSummary = sum; firstSched = historyStr(hh); return; }
      if (n == 7) res.sample("{\"world\": " + vj::q(w.spec) + ", \"mode\": " + vj::q(mode.name) + ", \"schedule\": " + vj::q(historyStr(hh)) + ", \"outcome\": " + vj::q(sum) + "}");
      if (sum != firstSummary || o.key != firstKey) {
        res.violate(args.prop + ".outcome-differs",
                    "schedule {" + historyStr(hh) + "} gives " + sum + (o.key != firstKey ? " (different engine state)" : "") +
                        "; schedule {" + firstSched + "} gives " + firstSummary + " | world: " + w.spec,
                    mode.name + "|" + w.spec + "|" + historyStr(hh));
      }
    }, cap);
    res.count("schedules", n);
    res.maxOf("max_schedules_per_build", n);
  }
};

// ---------------------------------------------------------------------------
static void exploreWorld(const std::string& spec, const std::string& modeName, vj::Result& res) {
  uv::World w;
  std::string err;
  if (!uv::parseWorld(spec, w, &err)) { fprintf(stderr, "bad world: %s\n", err.c_str()); exit(3); }
  Mode_ m;
  if (!parseMode(modeName, m)) { fprintf(stderr, "bad mode %s\n", modeName.c_str()); exit(3); }
  Explorer ex(w, m, res);
  const std::string& p = args.prop;
  bool T = args.thorough();
  if (p == "C01") {
    ex.cfg.checkC02 = false; ex.cfg.checkProto = false; ex.cfg.checkPersist = false; ex.cfg.checkC07 = false;
    ex.bfs(T ? 5 : 4, 1, 0, false);
  } else if (p == "C02") {
    ex.cfg.checkC01 = false; ex.cfg.checkProto = false; ex.cfg.checkC07 = false; ex.cfg.checkPersist = false;
    ex.bfs(T ? 5 : 4, T ? 1 : 0, 1, false);
  } else if (p == "C03") {
    ex.cfg.checkC01 = false; ex.cfg.checkC02 = false; ex.cfg.checkProto = false; ex.cfg.checkC07 = false;
    ex.bfs(T ? 5 : 4, 0, 0, true);
  } else if (p == "C05") {
    ex.cfg.checkC02 = false; ex.cfg.checkProto = false; ex.cfg.checkC07 = false;
    ex.bfs(T ? 5 : 4, T ? 1 : 0, 1, false);
  } else if (p == "C07") {
    ex.cfg.checkC01 = false; ex.cfg.checkC02 = false; ex.cfg.checkProto = false; ex.cfg.checkPersist = false;
    ex.bfs(T ? 4 : 3, 1, 0, false);
  } else if (p == "C06") {
    ex.cfg.checkC02 = false; ex.cfg.checkPersist = false;
    // prefixes: every history of depth <= 2 (default schedules), then all schedules of a final build
    std::vector<History> prefixes{{}};
    uv::Ext e0;
    {
      RunOut o = ex.run({});
      e0 = o.ext;
    }
    std::vector<std::pair<History, uv::Ext>> level{{{}, e0}};
    int pd = T ? 3 : 2;
    std::set<std::string> seen;
    for (int d = 0; d <= pd; ++d) {
      std::vector<std::pair<History, uv::Ext>> next;
      for (auto& pr : level) {
        for (Event ev : ex.alphabet(pr.second)) {
          History h = pr.first;
          h.push_back(ev);
          if (ev.kind == 'b') ex.allSchedules(h, T ? 200000 : 20000);
          if (d < pd) {
            RunOut o = ex.run(h);
            if (!o.dead && seen.insert(o.key).second) next.push_back({h, o.ext});
          }
        }
        if (args.overBudget()) { res.exhaustive = false; break; }
      }
      level.swap(next);
    }
    res.count("states", (long long)seen.size() + 1);
  }
  res.count("executions", ex.runs);
  res.count("builds", ex.builds);
  res.count("worlds");
  res.count("distinct_outcomes", (long long)ex.outcomes.size());
}

int main(int argc, char** argv) {
  args.parse(argc, argv);
  dbDir = "/dev/shm/verif-enginex-" + std::to_string(getpid());
  mkdir(dbDir.c_str(), 0700);
  vj::Result res;
  res.strings["rule"] =
      "worlds (rule programs) x breadth-first search over event histories {set leaf, tamper cell, build key, restart, redefine} x "
      "in-build schedules (sync/deferred completion, delivery order) within a deviation bound x cancellation points; a case is one "
      "history executed on a fresh real engine; distinct = distinct canonical state (engine dump + database + external state)";

  if (!args.replaySpec.empty()) {
    // "<mode>|<world>|<history>"
    auto a = args.replaySpec.find('|');
    auto b = args.replaySpec.find('|', a + 1);
    std::string mode = args.replaySpec.substr(0, a), world = args.replaySpec.substr(a + 1, b - a - 1), hist = args.replaySpec.substr(b + 1);
    uv::World w;
    std::string err;
    Mode_ m;
    History h;
    if (!uv::parseWorld(world, w, &err) || !parseMode(mode, m) || !parseHistory(hist, h)) { fprintf(stderr, "bad replay spec %s\n", err.c_str()); return 3; }
    Explorer ex(w, m, res);
    RunOut o = ex.run(h, /*judgeAll=*/true);
    printf("replayed: %s\nfinal state:\n%s\n", historyStr(h).c_str(), o.key.c_str());
    for (auto& b : o.builds) printf("  build %c: %s reasons: %s steps=%d\n", b.key, b.orderFreeSummary().c_str(), b.reasons.c_str(), b.steps);
    res.count("executions", 1);
    res.write(args.out);
    for (auto& v : res.violations) printf("violation %s: %s\n", v.cls.c_str(), v.what.c_str());
    std::string cmd = "rm -rf " + dbDir;
    (void)system(cmd.c_str());
    return res.violations.empty() ? 0 : 1;
  }

  // work list: (world, mode)
  std::vector<std::pair<std::string, std::string>> work;
  const std::string& p = args.prop;
  bool T = args.thorough();
  std::vector<std::string> worlds(std::begin(kCurated), std::end(kCurated));
  if (p == "C07") {
    // all directed graphs on n keys
    int nmax = T ? 4 : 3;
    for (int n = 1; n <= nmax; ++n)
      for (unsigned long long mask = 0; mask < (1ull << (n * n)); ++mask) work.push_back({graphWorld(n, mask), "mem"});
    if (!T) {
      // quick: every 16th graph on 4 keys, offset by the seed (the full set is the thorough tier)
      for (unsigned long long mask = (unsigned long long)(args.seed % 16); mask < (1ull << 16); mask += 16) work.push_back({graphWorld(4, mask), "mem"});
    }
    for (auto& wd : worlds) { work.push_back({wd, "mem"}); work.push_back({wd, "db"}); if (T) work.push_back({wd, "db+force"}); }
  } else if (p == "C06") {
    for (auto& wd : worlds) { work.push_back({wd, "mem"}); work.push_back({wd, "db"}); }
  } else if (p == "C03") {
    for (auto& wd : worlds) work.push_back({wd, "db"});
  } else {
    for (auto& wd : worlds) { work.push_back({wd, "mem"}); work.push_back({wd, "db"}); }
    if (p == "C01") {
      for (auto& wd : worlds) work.push_back({wd, "mem+sync"});
      auto fam = staticFamily();
      size_t stride = T ? 1 : 17;
      for (size_t i = (size_t)(args.seed % stride); i < fam.size(); i += stride) work.push_back({fam[i], "mem"});
    }
  }

  for (size_t i = 0; i < work.size(); ++i) {
    if ((int)(i % args.nshards) != args.shard) continue;
    if (args.overBudget()) { res.exhaustive = false; res.count("worlds_skipped_budget"); continue; }
    exploreWorld(work[i].first, work[i].second, res);
  }
  // model_checking evidence keys
  res.counters["traces_validated_against_impl"] = res.counters["executions"];
  res.counters["evaluations"] = res.counters["executions"];
  res.counters["distinct_nontrivial"] = res.counters["states"];
  res.write(args.out);
  std::string cmd = "rm -rf " + dbDir;
  (void)system(cmd.c_str());
  return res.violations.empty() ? 0 : 1;
}

/* vcmd: the deterministic "compiler" used by the worldx explorer (DESIGN.md 4.5).
 *
 *   vcmd cat TAG [-m] [-d DEPS] [-i DEPS] [-x EXTRA]... OUT... -- IN...
 *       payload = TAG '(' contents(IN1) ',' contents(IN2) ... [';' EXTRA '=' contents(EXTRA)]... ')'
 *       written to every OUT.  OUT ending in '/' is a directory output: the tree
 *       is removed, recreated and the payload written to OUT/f.  An IN that is a
 *       directory contributes a canonical recursive listing
 *       '{' name '=' contents ',' ... '}' (symlinks: '@' target).  A missing IN
 *       is an error (exit 1) unless -m (then it contributes '!').
 *       -x EXTRA : an undeclared input; contents appended after ';' ('!' if
 *                  missing).  -d / -i write a Makefile / dependency-info style
 *                  dependency file naming every EXTRA (-d and -i may be repeated).
 *       -L       : every file OUT is made a symbolic link to OUT.data, which receives the payload
 *       -p       : partition: with N dependency files the k-th names only the
 *                  EXTRAs whose index is congruent to k modulo N
 *       -s       : directory inputs contribute their STRUCTURE only: '{' name ',' ... '}'
 *                  (nested directories recursively), no file contents
 *       -n WORD  : ignored (lets a description vary its argument list without
 *                  changing what the command does)
 *   vcmd lsr DIR OUT      write the canonical recursive listing of DIR to OUT
 *
 * Side effects shared with the driver (all in the sandbox root = nearest
 * ancestor of the cwd containing `.vclock`, at most 6 levels up):
 *   exec.log : one line "TAG\n" appended (O_APPEND, single write) when the
 *              command starts; this is how the driver observes what ran.
 *   .vclock  : flock-protected decimal counter; every output is stamped with
 *              mtime = 1_000_000_000 s + counter * 1 ms (the logical clock).
 *   .vctl    : (or $VCMD_CTL) control file, NOT part of the description:
 *              lines "TAG KIND [ARG]" with KIND in
 *                fail-before      exit 1 before writing anything
 *                fail-after       write all outputs, then exit 1
 *                kill             SIGKILL self before writing
 *                kill-after       SIGKILL self after writing outputs
 *                delay MS         sleep MS milliseconds, then continue normally
 *                sig N            raise signal N (default disposition, no core file) before writing
 *                sig-after N      raise signal N after writing outputs
 *                need PATH        exit 1 (before writing) if PATH does not exist
 *                gate             open FIFO .gate.ready for writing, then FIFO
 *                                 .gate.go for reading (blocks until the driver
 *                                 releases), then continue normally
 * Exit codes: 0 ok, 1 deliberate/IO failure, 2 usage.
 */
#define _GNU_SOURCE
#include <dirent.h>
#include <sys/resource.h>
#include <errno.h>
#include <fcntl.h>
#include <signal.h>
#include <stdio.h>
#include <stdlib.h>
#include <string.h>
#include <sys/file.h>
#include <sys/stat.h>
#include <sys/types.h>
#include <unistd.h>

#define BASE_SEC 1000000000LL

static char root[64] = "";
static int names_only = 0;

struct buf { char* p; size_t n, cap; };
static void bput(struct buf* b, const char* s, size_t n) {
  if (b->n + n + 1 > b->cap) {
    b->cap = (b->n + n + 1) * 2 + 64;
    b->p = realloc(b->p, b->cap);
    if (!b->p) _exit(1);
  }
  memcpy(b->p + b->n, s, n);
  b->n += n;
  b->p[b->n] = 0;
}
static void bputs(struct buf* b, const char* s) { bput(b, s, strlen(s)); }

static void die(const char* what, const char* arg) {
  dprintf(2, "vcmd: %s: %s: %s\n", what, arg ? arg : "", strerror(errno));
  _exit(1);
}

static void rootpath(char* out, size_t n, const char* name) { snprintf(out, n, "%s%s", root, name); }

static void find_root(void) {
  char p[96];
  struct stat st;
  for (int i = 0; i < 6; ++i) {
    snprintf(p, sizeof p, "%s.vclock", root);
    if (stat(p, &st) == 0) return;
    strcat(root, "../");
  }
  root[0] = 0; /* no clock: operate in the cwd */
}

static long long tick(void) {
  char p[96], b[32];
  rootpath(p, sizeof p, ".vclock");
  int fd = open(p, O_RDWR | O_CREAT, 0644);
  if (fd < 0) die("open", p);
  if (flock(fd, LOCK_EX) != 0) die("flock", p);
  ssize_t r = pread(fd, b, sizeof b - 1, 0);
  long long v = 0;
  if (r > 0) { b[r] = 0; v = atoll(b); }
  ++v;
  int n = snprintf(b, sizeof b, "%019lld\n", v);
  if (pwrite(fd, b, n, 0) != n) die("pwrite", p);
  flock(fd, LOCK_UN);
  close(fd);
  return v;
}

static void stamp(const char* path) {
  long long t = tick();
  struct timespec ts[2];
  ts[0].tv_sec = ts[1].tv_sec = BASE_SEC + t / 1000;
  ts[0].tv_nsec = ts[1].tv_nsec = (t % 1000) * 1000000L;
  if (utimensat(AT_FDCWD, path, ts, AT_SYMLINK_NOFOLLOW) != 0) die("utimensat", path);
}

/* returns 0 if missing */
static int slurp(const char* path, struct buf* out);

static int cmpstr(const void* a, const void* b) { return strcmp(*(char* const*)a, *(char* const*)b); }

static void listing(const char* dir, struct buf* out) {
  DIR* d = opendir(dir);
  if (!d) die("opendir", dir);
  char* names[256];
  int n = 0;
  struct dirent* e;
  while ((e = readdir(d))) {
    if (!strcmp(e->d_name, ".") || !strcmp(e->d_name, "..")) continue;
    if (n < 256) names[n++] = strdup(e->d_name);
  }
  closedir(d);
  qsort(names, n, sizeof names[0], cmpstr);
  bputs(out, "{");
  for (int i = 0; i < n; ++i) {
    char p[512];
    snprintf(p, sizeof p, "%s/%s", dir, names[i]);
    if (i) bputs(out, ",");
    bputs(out, names[i]);
    struct stat st;
    if (names_only) {
      if (lstat(p, &st) == 0 && S_ISDIR(st.st_mode)) { bputs(out, "="); listing(p, out); }
      free(names[i]);
      continue;
    }
    bputs(out, "=");
    if (lstat(p, &st) != 0) { bputs(out, "!"); continue; }
    if (S_ISLNK(st.st_mode)) {
      char t[256];
      ssize_t r = readlink(p, t, sizeof t - 1);
      if (r < 0) r = 0;
      t[r] = 0;
      bputs(out, "@");
      bputs(out, t);
    } else if (S_ISDIR(st.st_mode)) {
      listing(p, out);
    } else {
      slurp(p, out);
    }
    free(names[i]);
  }
  bputs(out, "}");
}

static int slurp(const char* path, struct buf* out) {
  struct stat st;
  char p[512];
  size_t l = strlen(path);
  snprintf(p, sizeof p, "%s", path);
  while (l > 1 && p[l - 1] == '/') p[--l] = 0;
  if (stat(p, &st) != 0) return 0;
  if (S_ISDIR(st.st_mode)) { listing(p, out); return 1; }
  int fd = open(p, O_RDONLY);
  if (fd < 0) return 0;
  char b[4096];
  ssize_t r;
  while ((r = read(fd, b, sizeof b)) > 0) bput(out, b, r);
  close(fd);
  return 1;
}

static void rmtree(const char* dir) {
  DIR* d = opendir(dir);
  if (!d) { unlink(dir); return; }
  struct dirent* e;
  while ((e = readdir(d))) {
    if (!strcmp(e->d_name, ".") || !strcmp(e->d_name, "..")) continue;
    char p[512];
    snprintf(p, sizeof p, "%s/%s", dir, e->d_name);
    struct stat st;
    if (lstat(p, &st) == 0 && S_ISDIR(st.st_mode)) rmtree(p); else unlink(p);
  }
  closedir(d);
  rmdir(dir);
}

static void write_file(const char* path, const char* data, size_t n) {
  struct stat lst;
  /* never write through a symlink left behind by an earlier description */
  if (lstat(path, &lst) == 0 && S_ISLNK(lst.st_mode)) unlink(path);
  int fd = open(path, O_WRONLY | O_CREAT | O_TRUNC, 0644);
  if (fd < 0) die("cannot write output", path);
  size_t off = 0;
  while (off < n) {
    ssize_t w = write(fd, data + off, n - off);
    if (w < 0) die("write", path);
    off += w;
  }
  close(fd);
  stamp(path);
}

static int link_outputs = 0;
static void write_output(const char* out, const struct buf* payload) {
  size_t l = strlen(out);
  if (l && out[l - 1] == '/') {
    char d[512], f[520];
    snprintf(d, sizeof d, "%s", out);
    while (l > 1 && d[l - 1] == '/') d[--l] = 0;
    struct stat st;
    if (lstat(d, &st) == 0) {
      if (S_ISDIR(st.st_mode)) rmtree(d);
      /* a non-directory in the way is left alone: mkdir fails below */
    }
    if (mkdir(d, 0755) != 0) die("cannot create output directory", d);
    snprintf(f, sizeof f, "%s/f", d);
    write_file(f, payload->p ? payload->p : "", payload->n);
    stamp(d);
  } else if (link_outputs) {
    /* -L: the payload goes to OUT.data and OUT is (re)made a symbolic link to it: reading OUT gives the payload */
    char data[520];
    snprintf(data, sizeof data, "%s.data", out);
    write_file(data, payload->p ? payload->p : "", payload->n);
    const char* base = strrchr(data, '/');
    base = base ? base + 1 : data;
    struct stat st;
    /* a directory in the way is left alone, as for a plain output: symlink fails below */
    if (lstat(out, &st) == 0 && !S_ISDIR(st.st_mode)) unlink(out);
    if (symlink(base, out) != 0) die("cannot create output link", out);
  } else {
    write_file(out, payload->p ? payload->p : "", payload->n);
  }
}

/* control file lookup: returns kind (static buffer) or NULL; *arg receives ARG */
static const char* control(const char* tag, char** arg) {
  static struct buf c;
  char p[96];
  const char* env = getenv("VCMD_CTL");
  if (env && *env) snprintf(p, sizeof p, "%s", env); else rootpath(p, sizeof p, ".vctl");
  c.n = 0;
  int fd = open(p, O_RDONLY);
  if (fd < 0) return NULL;
  char b[1024];
  ssize_t r;
  while ((r = read(fd, b, sizeof b)) > 0) bput(&c, b, r);
  close(fd);
  if (!c.p) return NULL;
  char* save = NULL;
  for (char* line = strtok_r(c.p, "\n", &save); line; line = strtok_r(NULL, "\n", &save)) {
    char* s2 = NULL;
    char* t = strtok_r(line, " ", &s2);
    if (!t || strcmp(t, tag)) continue;
    char* k = strtok_r(NULL, " ", &s2);
    if (!k) continue;
    *arg = strtok_r(NULL, " ", &s2);
    return k;
  }
  return NULL;
}

static void logstart(const char* tag) {
  char p[96], line[256];
  rootpath(p, sizeof p, "exec.log");
  int fd = open(p, O_WRONLY | O_CREAT | O_APPEND, 0644);
  if (fd < 0) die("open", p);
  int n = snprintf(line, sizeof line, "%s\n", tag);
  if (write(fd, line, n) != n) die("write", p);
  close(fd);
}

int main(int argc, char** argv) {
  if (argc < 2) return 2;
  find_root();
  if (!strcmp(argv[1], "lsr")) {
    if (argc != 4) return 2;
    struct buf b = {0};
    if (!slurp(argv[2], &b)) bputs(&b, "!");
    write_file(argv[3], b.p, b.n);
    return 0;
  }
  if (strcmp(argv[1], "cat") || argc < 3) return 2;
  const char* tag = argv[2];
  int allow_missing = 0;
  const char *deps_make[4] = {0}, *deps_info[4] = {0};
  int ndeps = 0, ninfo = 0, partition = 0;
  const char* extras[16];
  int nextra = 0;
  int i = 3;
  for (; i < argc; ++i) {
    if (!strcmp(argv[i], "-m")) allow_missing = 1;
    else if (!strcmp(argv[i], "-s")) names_only = 1;
    else if (!strcmp(argv[i], "-d") && i + 1 < argc) { if (ndeps < 4) deps_make[ndeps++] = argv[++i]; else ++i; }
    else if (!strcmp(argv[i], "-n") && i + 1 < argc) ++i;
    else if (!strcmp(argv[i], "-i") && i + 1 < argc) { if (ninfo < 4) deps_info[ninfo++] = argv[++i]; else ++i; }
    else if (!strcmp(argv[i], "-p")) partition = 1;
    else if (!strcmp(argv[i], "-L")) link_outputs = 1;
    else if (!strcmp(argv[i], "-x") && i + 1 < argc) { if (nextra < 16) extras[nextra++] = argv[++i]; }
    else break;
  }
  int out0 = i, sep = -1;
  for (; i < argc; ++i) if (!strcmp(argv[i], "--")) { sep = i; break; }
  if (sep < 0) sep = argc;

  logstart(tag);

  char* carg = NULL;
  const char* kind = control(tag, &carg);
  int fail_after = 0, kill_after = 0, sig_after = 0;
  if (kind) {
    if (!strcmp(kind, "sig") || !strcmp(kind, "sig-after")) {
      struct rlimit rl = {0, 0};
      setrlimit(RLIMIT_CORE, &rl);
      int signo = carg ? atoi(carg) : SIGTERM;
      signal(signo, SIG_DFL);
      if (!strcmp(kind, "sig")) { raise(signo); pause(); }
      sig_after = signo;
    }
    if (!strcmp(kind, "fail-before")) { dprintf(2, "vcmd: %s: directed failure\n", tag); return 1; }
    if (!strcmp(kind, "kill")) { raise(SIGKILL); pause(); }
    if (!strcmp(kind, "need")) {
      struct stat st;
      if (!carg || stat(carg, &st) != 0) { dprintf(2, "vcmd: %s: required file %s is missing\n", tag, carg ? carg : "?"); return 1; }
    }
    if (!strcmp(kind, "gate")) {
      char p[96];
      rootpath(p, sizeof p, ".gate.ready");
      int fd = open(p, O_WRONLY);
      if (fd >= 0) { if (write(fd, "r", 1) < 0) {} close(fd); }
      rootpath(p, sizeof p, ".gate.go");
      fd = open(p, O_RDONLY);
      if (fd >= 0) { char c; while (read(fd, &c, 1) > 0) {} close(fd); }
    }
    if (!strcmp(kind, "fail-after")) fail_after = 1;
    if (!strcmp(kind, "kill-after")) kill_after = 1;
    if (!strcmp(kind, "delay")) usleep((carg ? atoi(carg) : 100) * 1000);  /* still running while other commands finish */
  }

  struct buf payload = {0};
  bputs(&payload, tag);
  bputs(&payload, "(");
  for (int k = sep + 1, first = 1; k < argc; ++k, first = 0) {
    if (!first) bputs(&payload, ",");
    if (!slurp(argv[k], &payload)) {
      if (!allow_missing) { dprintf(2, "vcmd: %s: missing input %s\n", tag, argv[k]); return 1; }
      bputs(&payload, "!");
    }
  }
  for (int k = 0; k < nextra; ++k) {
    bputs(&payload, ";");
    bputs(&payload, extras[k]);
    bputs(&payload, "=");
    if (!slurp(extras[k], &payload)) bputs(&payload, "!");
  }
  bputs(&payload, ")");

  for (int k = out0; k < sep; ++k) write_output(argv[k], &payload);

  for (int dm = 0; dm < ndeps; ++dm) {
    struct buf d = {0};
    bputs(&d, out0 < sep ? argv[out0] : "x");
    bputs(&d, ":");
    for (int k = 0; k < nextra; ++k) {
      if (partition && k % ndeps != dm) continue;
      bputs(&d, " ");
      for (const char* c = extras[k]; *c; ++c) {
        if (*c == ' ' || *c == '#' || *c == '\\') bput(&d, "\\", 1);
        if (*c == '$') bput(&d, "$", 1);
        bput(&d, c, 1);
      }
    }
    bputs(&d, "\n");
    write_file(deps_make[dm], d.p, d.n);
  }
  for (int di = 0; di < ninfo; ++di) {
    struct buf d = {0};
    bput(&d, "\0vcmd\0", 6);
    for (int k = 0; k < nextra; ++k) {
      if (partition && k % ninfo != di) continue;
      bput(&d, "\x10", 1);
      bput(&d, extras[k], strlen(extras[k]) + 1);
    }
    write_file(deps_info[di], d.p, d.n);
  }

  if (kill_after) { raise(SIGKILL); pause(); }
  if (sig_after) { raise(sig_after); pause(); }
  if (fail_after) { dprintf(2, "vcmd: %s: directed failure after writing outputs\n", tag); return 1; }
  return 0;
}

#!/usr/bin/python3
"""worldx: bounded-exhaustive exploration of on-disk histories through the real
`llbuild buildsystem build` tool (DESIGN.md 4.5).  Decides C08, C09 and C10.

  worldx.py --prop C08|C09|C10 --tier quick|thorough --shard I --nshards N --out FILE
            --seed S --budget SEC [--replay-spec SPEC]

Replay specs
  C08|<family>|<mode>|<history>          e.g.  C08|chain|serial|b:all e:s1 b:all
                                         <family>@device-agnostic / <family>@checksum-only: the same family with that
                                         `file-system:` mode in the client section of every description
  C09a|<family>|<mode>|<history>         null build after the history
  C09b|<pair id>|<mode>                  definition D -> D' end to end
  C09c|<pair id>                         in-process signatures of D and D'
  C09d|<def id>                          signature stability across processes
  C10|<family>|<mode>|<fail set>|<kind>|<k>|<retry>
  C10i|<family>|<mode>|<gated command>|<k>     SIGINT while the gated command runs
A trailing " #<class>" (added to every recorded spec) restricts the replay's verdict to that violation class.
History events: e:<src> rewrite a source (same size), a:<src> append to it,
x:<node> delete an output, w:<node> overwrite it with garbage, D:<variant>
switch the description, b:<target> build.
"""
import itertools
import os
import re
import sys
import time
import traceback

sys.dont_write_bytecode = True
sys.path.insert(0, os.path.dirname(os.path.abspath(__file__)))
import wx  # noqa: E402
from wx import Sandbox, CleanOracle, Result, Args, HarnessError, is_virtual  # noqa: E402
import families as F  # noqa: E402
import defs  # noqa: E402
import c10  # noqa: E402

ORACLE = CleanOracle()
c10.ORACLE = ORACLE

A_COMMON = [
    "commands are `vcmd cat` invocations: deterministic functions of the files they read; all file times come from the "
    "logical clock (base 1e9 s + counter*1 ms), so every edit is stat-observable and times are causally ordered",
    "every build runs in a new llbuild process against build.db in the sandbox (a database restart at every build boundary)",
    "the reference evaluator is cross-checked against a real clean build (fresh directory, --no-db) once per "
    "(description, target, source state); a disagreement aborts the run as a harness error",
]


# --------------------------------------------------------------------------
class World:
    def __init__(self, fam, mode):
        self.fam = fam
        self.mode = mode
        self.sb = Sandbox()
        self.cur = 0
        for p, c in fam.init.items():
            self.sb.write(p, c)
        self.sb.write("build.llbuild", fam.descs[0].yaml())
        # bookkeeping for the "re-run only with a cause" oracle (C09)
        self.step = 0
        self.touch = {}       # path -> step of the last modification (driver edit or command execution)
        self.lastrun = {}     # command name -> (step, definition text) of its last execution in a successful build
        self.build_log = []   # (step, desc, rc)

    @property
    def desc(self):
        return self.fam.descs[self.cur]

    def close(self):
        self.sb.destroy()

    def edit(self, ev):
        """Apply a non-build event. Returns False if it was an unobservable no-op."""
        kind, arg = ev.split(":", 1)
        sb = self.sb
        self.step += 1
        if kind in "eaxw":
            self.touch[arg.rstrip("/")] = self.step
        if kind == "e":
            cur = sb.lread(arg)
            m = re.match(r"^(.*):(\d)$", cur or "")
            if m and m.group(1) == arg:
                sb.write(arg, "%s:%d" % (arg, (int(m.group(2)) + 1) % 10))
            else:
                sb.write(arg, arg + ":0")
            return True
        if kind == "a":
            cur = sb.lread(arg)
            if cur is None or cur.startswith("@") or cur.startswith("{"):
                sb.write(arg, arg + ":0")
            else:
                sb.write(arg, cur + "+")
            return True
        if kind == "x":
            return sb.delete(arg)
        if kind == "w":
            if arg.endswith("/"):
                d = arg.rstrip("/")
                if not os.path.isdir(sb.p(d)):
                    return False
                cur = sb.lread(d + "/f")
                sb.write(d + "/f", "#" * max(1, len(cur or "")))
                return True
            cur = sb.lread(arg)
            if cur is not None and cur.startswith("{"):
                return False
            sb.write(arg, "#" * max(1, len(cur or "")))
            return True
        if kind == "D":
            self.cur = self.fam.by_id[arg]
            sb.write("build.llbuild", self.desc.yaml())
            return True
        raise HarnessError("bad event " + ev)

    def build(self, target, judge=True):
        """Run a build of TARGET; returns an observation dict."""
        desc = self.desc
        ex = ORACLE.expect(desc, self.sb, target) if judge else None
        rc, out, ran = self.sb.build(target, self.mode)
        self.step += 1
        obs = {"rc": rc, "out": out, "ran": ran, "expect": ex, "wrong": [], "target": target, "desc": desc}
        tag2cmd = {c.tag: c for c in desc.cmds}
        ran_cmds = [tag2cmd[t] for t in ran if t in tag2cmd]
        for c in ran_cmds:
            for o in c.file_outs():
                self.touch[o.rstrip("/")] = self.step
        obs["unjustified"] = [c.name for c in ran_cmds if not self.justified(desc, c)] if rc == 0 else []
        self.build_log.append((self.step, desc, rc))
        if rc == 0:
            for c in ran_cmds:
                self.lastrun[c.name] = (self.step, definition_text(desc, c))
        if judge and rc == 0 and ex.ok:
            for path, want in ex.outputs.items():
                got = wx.observe(self.sb, path, ex.kinds[path])
                if got != want:
                    obs["wrong"].append((path, ex.kinds[path], want, got))
        return obs

    def touched_since(self, path, step0):
        p = path.rstrip("/")
        for q, s in self.touch.items():
            if s > step0 and (q == p or q.startswith(p + "/") or p.startswith(q + "/")):
                return True
        return False

    def justified(self, desc, c):
        """Is there a cause (per C09's statement) for C having executed in the build that just ran?"""
        if c.always() or c.name in desc.consumers_closure({x.name for x in desc.cmds if x.always()}):
            return True
        lr = self.lastrun.get(c.name)
        if lr is None:
            return True
        step0, defn0 = lr
        if defn0 != definition_text(desc, c):
            return True
        for s, d, rc in self.build_log:
            if s > step0:
                if rc != 0:
                    return True      # a failed/cancelled build in between: no claim
                if not any(x.name == c.name for x in d.cmds) or definition_text(d, d.cmd(c.name)) != defn0:
                    return True      # the definition was different or absent in an intermediate build
        paths = [n for n in c.ins if not is_virtual(n)] + list(c.extras) + c.file_outs()
        if c.tool == "symlink" or any(desc.producer(n) is not None and desc.producer(n).tool == "symlink" for n in c.ins):
            return True
        return any(self.touched_since(p, step0) for p in paths)

    def run(self, history, judge_last_only=True):
        """Replay HISTORY (list of events). Returns list of build observations."""
        obs = []
        n = len(history)
        for i, ev in enumerate(history):
            if ev.startswith("b:"):
                last = (i == n - 1)
                obs.append(self.build(ev[2:], judge=(last or not judge_last_only)))
            else:
                self.edit(ev)
        return obs


def definition_text(desc, c):
    """Everything the description says about command C and the nodes it names."""
    nodes = sorted((n, sorted(desc.nodes.get(n, {}).items())) for n in c.ins + c.outs)
    return repr((c.name, c.tool, c.ins, c.outs, c.args() if c.tool == "shell" else None, sorted(c.attrs.items()),
                 c.contents, c.deps, c.env, nodes))


# --------------------------------------------------------------------------
# history enumeration (normal form: within a segment between builds at most one
# event per path and at most one describe, in a fixed order)
def segment_choices(fam, k, cur, appends):
    slots = fam.slots(appends)
    dslot = ("D", ["D:" + d.id for i, d in enumerate(fam.descs) if i != cur])
    allslots = slots + ([dslot] if dslot[1] else [])
    for combo in itertools.combinations(range(len(allslots)), k):
        for evs in itertools.product(*[allslots[i][1] for i in combo]):
            yield list(evs)


def histories(fam, depth, appends=False):
    """All normal-form histories of exactly DEPTH events that end in a build."""
    def rec(remaining, cur):
        if remaining == 0:
            yield []
            return
        for k in range(0, remaining):
            for seg in segment_choices(fam, k, cur, appends):
                ncur = cur
                for e in seg:
                    if e.startswith("D:"):
                        ncur = fam.by_id[e[2:]]
                for t in fam.targets:
                    for rest in rec(remaining - k - 1, ncur):
                        yield seg + ["b:" + t] + rest
    return rec(depth, 0)


def work_items(phases, modes):
    """phases: list of (families, min depth, max depth, appends).  Yields
    (index, family, mode, history), simplest first within a phase."""
    idx = 0
    for fams, dmin, dmax, appends in phases:
        for d in range(dmin, dmax + 1):
            for fam in fams:
                for h in histories(fam, d, appends):
                    for mode in modes:
                        yield idx, fam, mode, h
                        idx += 1


def spec_of(prefix, fam, mode, history):
    return "%s|%s|%s|%s" % (prefix, fam.id, mode, " ".join(history))


# --------------------------------------------------------------------------
# C08
def upstream_nodes(desc, path):
    """PATH and every node it (transitively) depends on in DESC."""
    seen, todo = set(), [path]
    while todo:
        n = todo.pop()
        if n in seen:
            continue
        seen.add(n)
        p = desc.producer(n)
        if p is not None:
            todo += p.ins + p.extras
    return seen


def classify_c08(fam, desc, history, wrong):
    """Named matchers for the shapes seen so far; anything else lands in C08.other-..."""
    path, kind, want, got = wrong[0]
    up = upstream_nodes(desc, path)
    # events since the previous build
    seg = []
    for ev in reversed(history[:-1]):
        if ev.startswith("b:"):
            break
        seg.append(ev)
    kinds = sorted({e[0] for e in seg})
    # D10: a node with explicit `type: directory` upstream of the wrong output, and a file below it was edited
    typedir = [n for n, a in desc.nodes.items() if a.get("type") == "directory" and n in up]
    if typedir and any(e[0] in "ea" and any(e[2:].startswith(n.rstrip("/") + "/") for n in typedir) for e in history):
        return "C08.explicit-type-directory-node-treated-as-plain"
    # a file inside a produced directory upstream was overwritten in place and the garbage is still there
    if any(e.startswith("w:") and e.endswith("/") and e[2:] in up for e in history) and got is not None and "#" in got:
        return "C08.tampered-file-inside-produced-directory-not-restored"
    # a node upstream was a directory-structure node in one visited description and a directory-tree node in another
    visited = [fam.descs[0]] + [fam.descs[fam.by_id[e[2:]]] for e in history if e.startswith("D:")]

    def nkind(d, n):
        a = d.nodes.get(n, {})
        if a.get("is-directory-structure") == "true" or a.get("type") == "directory-structure":
            return "structure"
        return "tree" if d.node_is_dirlike(n) else ("virtual" if is_virtual(n) else "plain")
    for n in up:
        ks = {nkind(d, n) for d in visited if n in d.all_nodes()}
        if len(ks & {"structure", "tree", "virtual"}) > 1:
            return "C08.node-type-switch-between-non-plain-types-not-noticed"
    # the wrong output belongs to (or is downstream of) a command declared allow-modified-outputs
    amo = {c.name for c in desc.cmds if c.attrs.get("allow-modified-outputs") == "true"}
    if amo:
        down = amo | desc.consumers_closure(amo)
        p = desc.producer(path)
        if p is not None and p.name in down:
            return "C08.allow-modified-outputs-command-not-rerun-on-input-change"
    shape = "first-build" if sum(1 for e in history if e.startswith("b:")) == 1 else "after-" + ("".join(kinds) or "nothing")
    what = "missing" if got is None else "stale-or-wrong"
    # (the named matchers above describe defects that do not depend on the client file-system mode; anything else
    # found under a non-default mode is kept apart from the default mode's catch-all)
    return "C08.other-%s-%s-%s%s" % (what, kind, shape, "-fs-" + fam.fs if fam.fs else "")


def classes_of(prefix, fam, mode, h, null_check):
    """Violation classes produced by one history (scratch result)."""
    if not h or not h[-1].startswith("b:"):
        return set()
    tmp = Result()
    one_history(tmp, prefix, fam, mode, h, null_check)
    return {v["class"] for v in tmp.violations}


def minimise(prefix, fam, mode, h, null_check, cls):
    """Greedy one-event deletion (and --serial instead of -j4) preserving violation class CLS."""
    if mode != "serial" and cls in classes_of(prefix, fam, "serial", h, null_check):
        mode = "serial"
    changed = True
    while changed:
        changed = False
        for i in range(len(h) - 1):
            cand = h[:i] + h[i + 1:]
            # a D: event must name a description different from the current one: drop ill-formed candidates
            cur, ok = "base", True
            for e in cand:
                if e.startswith("D:"):
                    ok = ok and e[2:] != cur
                    cur = e[2:]
            if ok and cls in classes_of(prefix, fam, mode, cand, null_check):
                h = cand
                changed = True
                break
    return mode, h


def run_histories(args, res, phases, modes, null_check=False, base_idx=0):
    prefix = "C09a" if null_check else "C08"
    for idx, fam, mode, h in work_items(phases, modes):
        if (base_idx + idx + args.seed) % args.nshards != args.shard:
            continue
        if args.over_budget():
            res.exhaustive = False
            break
        before = dict(res.per_class)
        nv = len(res.violations)
        one_history(res, prefix, fam, mode, h, null_check)
        # the first time this shard meets a class, shrink the history so that the reported case is a smallest one
        for v in res.violations[nv:]:
            if before.get(v["class"], 0) == 0:
                m2, h2 = minimise(prefix, fam, mode, h, null_check, v["class"])
                if (m2, h2) != (mode, h):
                    tmp = Result()
                    one_history(tmp, prefix, fam, m2, h2, null_check)
                    for t in tmp.violations:
                        if t["class"] == v["class"]:
                            v["what"], v["replay"] = t["what"], t["replay"]
                            break
    res.count("clean_build_crosschecks", ORACLE.checks)
    ORACLE.checks = 0


def one_history(res, prefix, fam, mode, h, null_check, verbose=False):
    w = World(fam, mode)
    try:
        obs = w.run(h)
        last = obs[-1]
        res.count("evaluations")
        if fam.fs:
            res.count("evaluations_file_system_" + fam.fs.replace("-", "_"))
        res.count("builds", len(obs))
        nb = len(obs)
        if last["rc"] == 0:
            res.count("successful_final_builds")
        else:
            res.count("failed_final_builds")
            if last["expect"].ok:
                res.count("final_build_failed_where_clean_build_succeeds")
        if nb >= 2 and last["ran"]:
            res.count("distinct_nontrivial")
        if last["ran"]:
            res.count("final_builds_that_executed_something")
        res.count("commands_executed_in_final_builds", len(last["ran"]))
        res.max_of("max_history_len", len(h))
        endkey = (fam.id, w.cur, tuple(sorted((p, w.sb.lread(p)) for p in
                                              set(x for d in fam.descs for x in d.all_nodes() if not is_virtual(x)))))
        res.distinct("distinct_end_states_per_shard", endkey)
        spec = spec_of(prefix, fam, mode, h)
        if verbose:
            print("history:", " ".join(h))
            for o in obs:
                print("  build %r rc=%d ran=%s" % (o["target"], o["rc"], o["ran"]))
            print(last["out"])
        if not null_check:
            if last["rc"] == 0 and not last["expect"].ok:
                res.violate("C08.success-where-clean-build-fails" + ("-fs-" + fam.fs if fam.fs else ""),
                            "%s [%s] %s: build succeeded although a clean build fails (%s)" % (
                                fam.id, mode, " ".join(h), last["expect"].why), spec)
            elif last["wrong"]:
                path, kind, want, got = last["wrong"][0]
                cls = classify_c08(fam, last["desc"], h, last["wrong"])
                res.violate(cls, "%s [%s] history '%s': after a successful build of '%s' (description %s) output %s is %r, "
                            "clean build gives %r; commands run by that build: %s" % (
                                fam.id, mode, " ".join(h), last["target"], last["desc"].id, path, got, want,
                                ",".join(last["ran"]) or "none"), spec)
            if len(res.samples) < 4 and nb >= 2 and last["ran"] and last["rc"] == 0:
                res.sample({"family": fam.id, "mode": mode, "history": " ".join(h), "ran_in_last_build": last["ran"],
                            "outputs": last["expect"].outputs})
        else:
            if last["unjustified"]:
                res.violate(classify_c09_rerun(fam, last["desc"], h, last["unjustified"]),
                            "%s [%s] history '%s': the last build re-executed %s although neither its definition nor any "
                            "of its declared/discovered inputs or outputs changed since it last ran (build ran: %s)" % (
                                fam.id, mode, " ".join(h), ",".join(last["unjustified"]), ",".join(last["ran"])), spec)
            if last["rc"] == 0:
                res.count("rerun_cause_checks", len(last["ran"]))
            if last["rc"] == 0 and last["expect"].ok and not last["wrong"]:
                desc = last["desc"]
                o2 = w.build(last["target"], judge=False)
                res.count("builds")
                res.count("null_builds")
                allowed = {c.name for c in desc.cmds if c.always()}
                allowed |= desc.consumers_closure(allowed)
                tag2name = {c.tag: c.name for c in desc.cmds}
                extra = [t for t in o2["ran"] if tag2name.get(t, t) not in allowed]
                if any(tag2name.get(t, t) in allowed for t in o2["ran"]):
                    res.count("null_builds_running_only_excepted_commands")
                if verbose:
                    print("  null build rc=%d ran=%s" % (o2["rc"], o2["ran"]))
                    print(o2["out"])
                if extra:
                    res.violate(classify_c09a(fam, desc, h, extra),
                                "%s [%s] history '%s': an immediate second build of '%s' re-executed %s" % (
                                    fam.id, mode, " ".join(h), last["target"], ",".join(extra)), spec)
                if o2["rc"] != 0:
                    res.violate("C09.null-build-fails", "%s [%s] history '%s': the immediate second build failed:\n%s" % (
                        fam.id, mode, " ".join(h), o2["out"][-300:]), spec)
                if len(res.samples) < 4 and nb >= 2 and last["ran"]:
                    res.sample({"family": fam.id, "mode": mode, "history": " ".join(h),
                                "ran_in_last_build": last["ran"], "ran_in_null_build": o2["ran"]})
            else:
                res.count("null_check_skipped_final_build_not_clean")
    finally:
        w.close()


def classify_c09_rerun(fam, desc, history, names):
    seg = []
    for ev in reversed(history[:-1]):
        if ev.startswith("b:"):
            break
        seg.append(ev)
    kinds = "".join(sorted({e[0] for e in seg})) or "nothing"
    return "C09.rerun-without-cause-%s-after-%s" % (fam.id, kinds)


def classify_c09a(fam, desc, history, extra):
    return "C09.null-build-reruns-%s" % fam.id


# --------------------------------------------------------------------------
# C09 (b): definition D -> D' end to end; (c) in-process signatures; (d) stability across processes
def pair_by_id(pid):
    for p in defs.all_pairs():
        if p.id == pid:
            return p
    raise HarnessError("unknown pair " + pid)


def attr_slug(attr):
    return re.sub(r"[^a-z0-9]+", "-", attr.lower()).strip("-")


def run_pair_e2e(res, pair, mode, verbose=False):
    sb = Sandbox()
    try:
        for p, c in pair.files.items():
            sb.write(p, c)
        sb.write("build.llbuild", defs.render(pair.a, pair.target))
        rc1, out1, ran1 = sb.build("all", mode)
        rc1b, out1b, ran1b = sb.build("all", mode)
        aood = pair.a.get("attrs", {}).get("always-out-of-date") == "true"
        if rc1 != 0 or (ran1b and not aood):
            raise HarnessError("pair %s: base definition does not build cleanly / null build not empty: rc=%d ran=%s then %s\n%s" % (
                pair.id, rc1, ran1, ran1b, out1))
        sb.write("build.llbuild", defs.render(pair.b, pair.target_b))
        rc2, out2, ran2 = sb.build("all", mode)
        res.count("evaluations")
        res.count("builds", 3)
        res.count("definition_pairs_end_to_end")
        spec = "C09b|%s|%s" % (pair.id, mode)
        if verbose:
            print(defs.render(pair.a, pair.target))
            print(defs.render(pair.b, pair.target_b))
            print("D: rc=%d ran=%s; null: ran=%s; D': rc=%d ran=%s\n%s" % (rc1, ran1, ran1b, rc2, ran2, out2))
        if pair.observe is not None:
            got = sb.lread(pair.observe[0])
            if pair.observe[1] == "DIR":
                got = "DIR" if os.path.isdir(sb.p(pair.observe[0])) else got
            reexec = (got == pair.observe[1])
        else:
            reexec = bool(ran2)
        if reexec:
            res.count("definition_changes_that_reexecuted")
        if len(res.samples) < 5:
            res.sample({"pair": pair.id, "attribute": pair.attr, "mode": mode, "ran_with_D": ran1, "ran_with_D2": ran2,
                        "signature_relevant": pair.relevant})
        if pair.relevant and not reexec:
            res.violate(pair.cls or "C09.no-rerun-after-%s-change" % attr_slug(pair.attr),
                        "pair %s [%s]: the definition changed in `%s` (signature-relevant) but the next build did not "
                        "re-execute the command (ran: %s; exit status %d%s)" % (
                            pair.id, mode, pair.attr, ran2 or "nothing", rc2,
                            "; " + out2.strip().splitlines()[-1][:200] if rc2 and out2.strip() else ""), spec)
        if not pair.relevant and reexec:
            res.violate("C09.rerun-after-%s-change" % attr_slug(pair.attr),
                        "pair %s [%s]: only `%s` changed (not signature-relevant) but the next build re-executed %s" % (
                            pair.id, mode, pair.attr, ran2), spec)
    finally:
        sb.destroy()


def sigx_run(lines):
    import subprocess
    r = subprocess.run([wx.SIGX], input="".join(lines).encode(), stdout=subprocess.PIPE, stderr=subprocess.PIPE, timeout=60)
    if r.returncode != 0:
        raise HarnessError("sigx failed: " + r.stderr.decode()[-500:])
    out = {}
    for ln in r.stdout.decode().splitlines():
        f = ln.split("\t")
        if f[1] == "E":
            raise HarnessError("sigx could not load %s: %s" % (f[0], r.stderr.decode()[-500:]))
        out[(os.path.basename(f[0]), f[1], f[2])] = f[3]
    return out, r.stdout


def pair_manifest(sb, pair):
    lines = []
    for side, d in (("a", pair.a), ("b", pair.b)):
        fn = "%s.%s.llbuild" % (pair.id, side)
        sb.write(fn, defs.render(d, pair.target if side == "a" else pair.target_b))
        nodes = list(d.get("outputs", []))[:1] + (["n"] if pair.id.startswith("node.") else [])
        lines.append("\t".join([sb.p(fn)] + nodes) + "\n")
    return lines


def run_pair_sig(res, pair, verbose=False):
    sb = Sandbox()
    try:
        sigs, raw = sigx_run(pair_manifest(sb, pair))
        res.count("evaluations")
        res.count("definition_pairs_in_process")
        if pair.id.startswith("node."):
            sa = sigs[(pair.id + ".a.llbuild", "N", "n")]
            sb_ = sigs[(pair.id + ".b.llbuild", "N", "n")]
        else:
            sa = sigs[(pair.id + ".a.llbuild", "C", pair.a["name"])]
            sb_ = sigs[(pair.id + ".b.llbuild", "C", pair.b["name"])]
        if verbose:
            print(raw.decode())
        res.distinct("distinct_signatures_per_shard", sa)
        res.distinct("distinct_signatures_per_shard", sb_)
        if pair.relevant and sa == sb_:
            res.violate(pair.cls or "C09.signature-collision-%s" % attr_slug(pair.attr),
                        "pair %s: definitions differing only in `%s` have the same signature %s" % (pair.id, pair.attr, sa),
                        "C09c|%s" % pair.id)
        elif pair.relevant:
            res.count("pairs_with_different_signatures")
    finally:
        sb.destroy()


def run_sig_stability(res, verbose=False):
    sb = Sandbox()
    try:
        lines = []
        for pair in defs.all_pairs():
            lines += pair_manifest(sb, pair)
        s1, raw1 = sigx_run(lines)
        s2, raw2 = sigx_run(lines)
        res.count("evaluations")
        res.count("signatures_compared_across_processes", len(s1))
        for k in sorted(s1):
            if s1[k] != s2.get(k):
                res.violate("C09.signature-differs-between-processes",
                            "%s %s: signature %s in one process, %s in another" % (k[0], k[2], s1[k], s2.get(k)),
                            "C09d|%s" % k[0].rsplit(".", 2)[0])
        if verbose:
            print("compared %d signatures from two processes" % len(s1))
    finally:
        sb.destroy()


def run_c09_defs(args, res):
    """Returns the number of work items consumed."""
    items = []
    for pair in defs.all_pairs():
        if pair.e2e:
            for mode in ("serial", "par"):
                items.append(("b", pair, mode))
    for pair in defs.all_pairs():
        items.append(("c", pair, None))
    items.append(("d", None, None))
    for idx, (kind, pair, mode) in enumerate(items):
        if (idx + args.seed) % args.nshards != args.shard:
            continue
        if args.over_budget():
            res.exhaustive = False
            break
        if kind == "b":
            run_pair_e2e(res, pair, mode)
        elif kind == "c":
            run_pair_sig(res, pair)
        else:
            run_sig_stability(res)
    return len(items)


# --------------------------------------------------------------------------
def phases_for(prop, tier):
    allf = F.all_families()
    quickf = [f for f in allf if f.quick]
    deepf = [f for f in allf if f.quick or f.deep]
    if prop == "C08":
        fsq = F.fs_families(F.FS_QUICK)
        if tier == "quick":
            return ([(allf, 1, 3, False), (quickf, 4, 4, False), (fsq, 1, 3, False)],
                    "histories of <= 3 events for all %d families plus histories of exactly 4 events for the %d quick families; "
                    "and, with `file-system: device-agnostic` and with `file-system: checksum-only` in the client section of "
                    "every description (same histories, same oracle, clean-build cross-check in the same mode), histories of "
                    "<= 3 events for the %d families %s" % (len(allf), len(quickf), len(F.FS_QUICK), ", ".join(F.FS_QUICK)))
        fsall = F.fs_families()
        return ([(allf, 1, 4, True), (deepf, 5, 5, False), (fsall, 1, 3, True), (fsq, 4, 4, False)],
                "histories of <= 4 events (with both same-size rewrites e: and appends a: of sources) for all %d families, "
                "plus histories of exactly 5 events (e: only) for the %d deep families; and, with `file-system: "
                "device-agnostic` and with `file-system: checksum-only` in the client section of every description (same "
                "histories, same oracle, clean-build cross-check in the same mode), histories of <= 3 events (e: and a:) for "
                "all %d families plus histories of exactly 4 events (e: only) for the %d families %s" % (
                    len(allf), len(deepf), len(allf), len(F.FS_QUICK), ", ".join(F.FS_QUICK)))
    if prop == "C09":
        if tier == "quick":
            return [(allf, 1, 3, False)], "histories of <= 3 events for all %d families" % len(allf)
        return ([(allf, 1, 4, False), (deepf, 5, 5, False)],
                "histories of <= 4 events for all %d families plus histories of exactly 5 events for the %d deep families" % (
                    len(allf), len(deepf)))
    raise HarnessError("no phases for " + prop)


def find_family(fid):
    base, _, fs = fid.partition("@")
    if fs and fs not in F.FS_MODES:
        raise HarnessError("unknown file-system mode in family " + fid)
    for f in F.all_families():
        if f.id == base:
            return f.with_fs(fs) if fs else f
    raise HarnessError("unknown family " + fid)


def replay(args, res):
    spec, _, only = args.replay.partition(" #")
    try:
        replay_spec(spec, res)
    finally:
        if only:
            res.violations = [v for v in res.violations if v["class"] == only]


def replay_spec(spec, res):
    parts = spec.split("|")
    kind = parts[0]
    if kind in ("C08", "C09a"):
        fam = find_family(parts[1])
        h = parts[3].split(" ") if parts[3] else []
        one_history(res, kind, fam, parts[2], h, kind == "C09a", verbose=True)
    elif kind == "C09b":
        run_pair_e2e(res, pair_by_id(parts[1]), parts[2], verbose=True)
    elif kind == "C09c":
        run_pair_sig(res, pair_by_id(parts[1]), verbose=True)
    elif kind == "C09d":
        run_sig_stability(res, verbose=True)
    elif kind in ("C10", "C10i"):
        c10.replay(res, parts)
    else:
        raise HarnessError("unknown replay spec " + spec)


HIST_RULE = ("normal-form histories over {e: rewrite source (same size), a: append to source, x: delete output, "
             "w: overwrite output with garbage, D: switch to a description variant, b: build a target} that end in a build "
             "(within a segment between builds at most one event per file and one D:, in fixed order), x {--serial, -j4}; "
             "each history is replayed from scratch in a fresh sandbox and its LAST build is judged (earlier builds are "
             "judged as the last build of the shorter history); ")


def main():
    args = Args(sys.argv)
    res = Result()
    res.assumptions = list(A_COMMON)
    try:
        if not os.path.exists(wx.LLBUILD) or not os.path.exists(wx.VCMD):
            raise HarnessError("missing %s or %s" % (wx.LLBUILD, wx.VCMD))
        if args.replay:
            replay(args, res)
        elif args.prop == "C08":
            phases, text = phases_for("C08", args.tier)
            run_histories(args, res, phases, ["serial", "par"])
            res.strings["rule"] = (HIST_RULE + text + "; evaluations = histories executed; distinct_nontrivial = histories "
                                   "with >= 2 builds whose last build executed at least one command")
            res.counters["bound_depth"] = max(p[2] for p in phases)
            res.assumptions.append("events within one segment commute (llbuild compares file times for equality only), so "
                                   "one order per set of events is explored; a second event on the same file within a "
                                   "segment is subsumed by the later one")
        elif args.prop == "C09":
            n = run_c09_defs(args, res)
            phases, text = phases_for("C09", args.tier)
            run_histories(args, res, phases, ["serial", "par"], null_check=True, base_idx=n)
            res.strings["rule"] = (
                "(b) every definition pair D -> D' differing in exactly one attribute (%d pairs; shell, phony, mkdir, symlink), "
                "built end to end with D, then D' x {--serial,-j4}; (c) the same pairs through Command::getSignature() / "
                "BuildNode::getSignature() in process (sigx); (d) all signatures computed in two separate processes; (a) " % (
                    len(defs.all_pairs())) + HIST_RULE + text +
                ": the last build must re-execute only commands with a cause (definition changed, an input/output touched since "
                "they last ran), and an immediate further build in a new process must execute nothing but always-out-of-date "
                "commands and their consumers; evaluations = histories + pair checks executed; distinct_nontrivial = histories "
                "with >= 2 builds whose last build executed at least one command")
            res.counters["bound_depth"] = max(p[2] for p in phases)
            res.assumptions.append("events within one segment commute (llbuild compares file times for equality only), so "
                                   "one order per set of events is explored")
            res.assumptions.append("the 're-run only with a cause' oracle makes no claim about a command after a failed build, after "
                                   "a build whose description lacked or redefined it, or when it reads through a symlink node")
        elif args.prop == "C10":
            c10.run(args, res)
        else:
            raise HarnessError("unknown property " + args.prop)
    except HarnessError as e:
        print("HARNESS ERROR: %s" % e, file=sys.stderr)
        traceback.print_exc()
        wx.cleanup()
        return 3
    except Exception:
        traceback.print_exc()
        wx.cleanup()
        return 3
    wx.cleanup()
    res.write(args.out)
    if args.replay:
        print("replay: %d violation(s)" % len(res.violations))
        for v in res.violations:
            print("  %s: %s" % (v["class"], v["what"]))
    return 1 if res.violations else 0


if __name__ == "__main__":
    sys.exit(main())

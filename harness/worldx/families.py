"""Description families for the worldx explorer: each family is a base
description, a finite list of variants of it (command added / removed / rewired /
args changed / an input becomes produced / a produced node becomes an input), the
initial source files, the edit alphabet and the targets that may be built."""
from wx import Cmd, Desc, retag, remove, add, rewire, replace


class Family:
    def __init__(self, fid, descs, sources, tamper, targets, init=None, quick=False, note="", deep=False):
        self.id = fid
        self.descs = descs                  # descs[0] is the base
        self.by_id = {d.id: i for i, d in enumerate(descs)}
        self.sources = sources              # files edited by e:
        self.tamper = tamper                # nodes subject to x: (delete) and w: (overwrite)
        self.targets = targets
        self.init = init if init is not None else {s: s + ":0" for s in sources}
        self.quick = quick
        self.deep = deep                    # explored one level deeper in the thorough tier
        self.note = note
        self.fs = None                      # client file-system mode of every description (None: default, key absent)

    def with_fs(self, mode):
        """The same family with `file-system: MODE` in the client section of every description; id `<family>@<mode>`."""
        descs = []
        for d in self.descs:
            n = d.copy(d.id)
            n.fs = mode
            descs.append(n)
        f = Family(self.id + "@" + mode, descs, list(self.sources), list(self.tamper), list(self.targets),
                   dict(self.init), self.quick, self.note, self.deep)
        f.fs = mode
        return f

    def slots(self, appends=False):
        """Edit slots: list of (path, [events on that path])."""
        out = []
        for s in self.sources:
            out.append((s, ["e:" + s] + (["a:" + s] if appends else [])))
        for o in self.tamper:
            if o.startswith("!"):          # delete only (mkdir directories)
                out.append((o[1:], ["x:" + o[1:]]))
            else:
                out.append((o, ["x:" + o, "w:" + o]))
        return out


def fam_chain():
    b = Desc("base", [Cmd("C1", ["s1"], ["o1"]), Cmd("C2", ["o1", "s2"], ["o2"])],
             {"all": ["o2"], "mid": ["o1"]})
    v = [b,
         retag(b, "tag-C1", "C1"),                                   # args changed
         remove(b, "rm-C1", "C1"),                                   # produced node becomes an input
         rewire(b, "rewire-C2", "C2", "o1", "s1"),                   # rewired
         add(b, "prod-s2", Cmd("P", ["s1"], ["s2"]))]                # an input becomes produced
    return Family("chain", v, ["s1", "s2"], ["o1", "o2"], ["all", "mid"], quick=True)


def fam_diamond():
    b = Desc("base", [Cmd("C1", ["s1"], ["o1"]), Cmd("C2", ["o1"], ["o2"]), Cmd("C3", ["o1", "s2"], ["o3"]),
                      Cmd("C4", ["o2", "o3"], ["o4"])], {"all": ["o4"], "left": ["o2"]})
    v = [b,
         retag(b, "tag-C2", "C2"),
         remove(b, "rm-C3", "C3"),
         add(b, "add-C5", Cmd("C5", ["o2", "s2"], ["o5"]), {"all": ["o5"]}),
         rewire(b, "rewire-C4", "C4", "o3", "s2")]
    return Family("diamond", v, ["s1", "s2"], ["o1", "o3", "o4"], ["all", "left"], quick=True)


def fam_multi():
    b = Desc("base", [Cmd("C1", ["s1"], ["o1", "o2"]), Cmd("C2", ["o1"], ["o3"]), Cmd("C3", ["o2", "s2"], ["o4"])],
             {"all": ["o3", "o4"], "one": ["o3"]})
    v = [b,
         retag(b, "tag-C1", "C1"),
         replace(b, "swap-outs", Cmd("C1", ["s1"], ["o2", "o1"])),           # output order changed
         replace(b, "drop-o2", Cmd("C1", ["s1"], ["o1"])),                   # o2 becomes an input
         replace(b, "split", Cmd("C1", ["s1"], ["o1"])).copy("split")]
    v[4].cmds.append(Cmd("C1b", ["s1"], ["o2"]))                              # o2 gets another producer
    return Family("multi", v, ["s1", "s2"], ["o1", "o2", "o4"], ["all", "one"], quick=True)


def fam_virt():
    b = Desc("base", [Cmd("C1", ["s1"], ["o1", "<v1>"]),
                      Cmd("C2", ["<v1>", "s2"], ["o2"]),
                      Cmd("ALL", ["o1", "o2"], ["<all>"], tool="phony")],
             {"all": ["<all>"], "two": ["o2"]})
    v = [b,
         retag(b, "tag-C1", "C1"),
         replace(b, "read-o1", Cmd("C2", ["o1", "s2"], ["o2"])),             # virtual edge becomes a file edge
         replace(b, "v-phony", Cmd("C1", ["s1"], ["o1"])).copy("v-phony"),
         remove(b, "rm-C1", "C1")]
    v[3].cmds.append(Cmd("G", ["o1"], ["<v1>"], tool="phony"))                # <v1> now produced by a phony gate
    return Family("virt", v, ["s1", "s2"], ["o1", "o2"], ["all", "two"], quick=True)


def fam_dir():
    b = Desc("base", [Cmd("C1", ["s1"], ["d1/"]), Cmd("C2", ["d1/", "s2"], ["o2"]), Cmd("C3", ["sd/"], ["o3"])],
             {"all": ["o2", "o3"], "three": ["o3"]})
    v = [b,
         retag(b, "tag-C1", "C1"),
         remove(b, "rm-C1", "C1"),                                           # d1/ becomes an input directory
         rewire(b, "rewire-C3", "C3", "sd/", "d1/")]
    return Family("dir", v, ["s1", "s2", "sd/a"], ["d1/", "o2", "o3"], ["all", "three"],
                  init={"s1": "s1:0", "s2": "s2:0", "sd/a": "sd/a:0", "sd/b": "sd/b:0"}, quick=True)


def fam_tools():
    b = Desc("base", [Cmd("M", [], ["m1"], tool="mkdir"),
                      Cmd("C1", ["s1", "m1"], ["m1/o1"], reads=["s1"]),
                      Cmd("L", [], ["l1"], tool="symlink", contents="s2"),
                      Cmd("C2", ["l1", "s2", "m1/o1"], ["o2"], reads=["l1", "m1/o1"])],
             {"all": ["o2"], "link": ["l1"]})
    v = [b,
         retag(b, "tag-C1", "C1"),
         replace(b, "relink", Cmd("L", [], ["l1"], tool="symlink", contents="s1")).copy("relink"),
         # without the mkdir command nothing may declare the directory as a (plain) input: C1 itself changes it
         replace(remove(b, "rm-M", "M"), "rm-M", Cmd("C1", ["s1"], ["m1/o1"]))]
    v[2] = replace(v[2], "relink", Cmd("C2", ["l1", "s1", "m1/o1"], ["o2"], reads=["l1", "m1/o1"]))
    return Family("tools", v, ["s1", "s2"], ["!m1", "l1", "m1/o1", "o2"], ["all", "link"], quick=True)


def fam_typedir():
    # explicit `type: directory` on a directory node (DESIGN D10: BuildNode.cpp maps it to Plain)
    b = Desc("base", [Cmd("C1", ["sd/"], ["o1"]), Cmd("C2", ["o1", "s1"], ["o2"])], {"all": ["o2"]},
             nodes={"sd/": {"type": "directory"}})
    v = [b, retag(b, "tag-C1", "C1")]
    return Family("typedir", v, ["s1", "sd/a"], ["o1"], ["all"],
                  init={"s1": "s1:0", "sd/a": "sd/a:0", "sd/b": "sd/b:0"}, quick=True)


def fam_isdir():
    # the deprecated spelling `is-directory: true`, which does work.  (On a node WITHOUT trailing slash it makes
    # every build fail with a cycle node 'sd' -> directory-tree-signature 'sd' -> directory-contents 'sd' -> node 'sd',
    # so only the slash form is usable.)
    b = Desc("base", [Cmd("C1", ["sd/"], ["o1"]), Cmd("C2", ["o1", "s1"], ["o2"])], {"all": ["o2"]},
             nodes={"sd/": {"is-directory": "true"}})
    v = [b, retag(b, "tag-C1", "C1")]
    return Family("isdir", v, ["s1", "sd/a"], ["o1"], ["all"],
                  init={"s1": "s1:0", "sd/a": "sd/a:0", "sd/b": "sd/b:0"})


def fam_aood():
    b = Desc("base", [Cmd("C1", ["s1"], ["o1"], attrs={"always-out-of-date": "true"}),
                      Cmd("C2", ["o1", "s2"], ["o2"]), Cmd("C3", ["s2"], ["o3"])], {"all": ["o2", "o3"]})
    v = [b, retag(b, "tag-C2", "C2"),
         replace(b, "not-aood", Cmd("C1", ["s1"], ["o1"]))]
    return Family("aood", v, ["s1", "s2"], ["o1", "o2"], ["all"])


def fam_allowmissing():
    b = Desc("base", [Cmd("C1", ["s1", "s2"], ["o1"], attrs={"allow-missing-inputs": "true"}),
                      Cmd("C2", ["o1"], ["o2"])], {"all": ["o2"]})
    v = [b, retag(b, "tag-C1", "C1"),
         replace(b, "strict", Cmd("C1", ["s1", "s2"], ["o1"]))]
    # s2 is subject to deletion as well
    return Family("allowmissing", v, ["s1"], ["s2", "o1"], ["all"])


def fam_deps():
    # discovered dependency: C1 reads s2 without declaring it and reports it in a Makefile-style deps file
    b = Desc("base", [Cmd("C1", ["s1"], ["o1"], extras=["s2"], deps=("o1.d", "makefile")),
                      Cmd("C2", ["o1"], ["o2"])], {"all": ["o2"]})
    v = [b, retag(b, "tag-C1", "C1"),
         replace(b, "declared", Cmd("C1", ["s1", "s2"], ["o1"])),
         replace(b, "depinfo", Cmd("C1", ["s1"], ["o1"], extras=["s2"], deps=("o1.d", "dependency-info")))]
    return Family("deps", v, ["s1", "s2"], ["o1", "o2"], ["all"])


def fam_deps2():
    # several dependency files, each naming a different undeclared input (every file has to be read)
    b = Desc("base", [Cmd("C1", ["s1"], ["o1"], extras=["s2", "s3"], deps=(["o1.d", "o1b.d"], "makefile")),
                      Cmd("C2", ["o1"], ["o2"])], {"all": ["o2"]})
    v = [b, replace(b, "depinfo2", Cmd("C1", ["s1"], ["o1"], extras=["s2", "s3"], deps=(["o1.d", "o1b.d"], "dependency-info"))),
         replace(b, "one-file", Cmd("C1", ["s1"], ["o1"], extras=["s2", "s3"], deps=("o1.d", "makefile")))]
    return Family("deps2", v, ["s2", "s3"], ["o1"], ["all"], init={"s1": "s1:0", "s2": "s2:0", "s3": "s3:0"}, quick=True)


def fam_linkout():
    # a shell command whose output is a symbolic link (to a file it writes next to it): outputs are recorded and
    # validated through stat(), which follows the link
    L = {"x-link-outputs": "1"}
    b = Desc("base", [Cmd("C1", ["s1"], ["o1"], attrs=L), Cmd("C2", ["o1", "s2"], ["o2"])], {"all": ["o2"], "mid": ["o1"]})
    v = [b, retag(b, "tag-C1", "C1"), replace(b, "plain", Cmd("C1", ["s1"], ["o1"])),
         replace(b, "both", Cmd("C2", ["o1", "s2"], ["o2"], attrs=L))]
    return Family("linkout", v, ["s1", "s2"], ["o1", "o2"], ["all", "mid"], quick=True)


def fam_prodtree():
    # a command owns the directory `t1` under a PLAIN node name; another command takes the directory tree `t1/`:
    # the only link between the two nodes is the listing rule's request for the node of the directory itself
    D = {"x-dir-out": ["t1"]}
    b = Desc("base", [Cmd("C1", ["s1"], ["t1"], attrs=D), Cmd("C2", ["t1/"], ["o2"])], {"all": ["o2", "t1"], "use": ["o2"]})
    sw = b.copy("tree-first")
    sw.targets = {"all": ["t1", "o2"], "use": ["o2"]}
    v = [b, sw, retag(b, "tag-C1", "C1")]
    return Family("prodtree", v, ["s1"], ["o2"], ["all", "use"], quick=True)


def fam_deepdir():
    # a directory-tree input with a file two levels down: an in-place edit there changes no directory's own stat record
    b = Desc("base", [Cmd("C1", ["sd/"], ["o1"]), Cmd("C2", ["o1", "s2"], ["o2"])], {"all": ["o2"], "mid": ["o1"]})
    v = [b, retag(b, "tag-C1", "C1")]
    return Family("deepdir", v, ["sd/sub/c", "sd/a", "s2"], ["o1"], ["all", "mid"],
                  init={"s2": "s2:0", "sd/a": "sd/a:0", "sd/sub/c": "sd/sub/c:0", "sd/sub/deep/e": "sd/sub/deep/e:0"}, quick=True)


def fam_chain3():
    b = Desc("base", [Cmd("C1", ["s1"], ["o1"]), Cmd("C2", ["o1"], ["o2"]), Cmd("C3", ["o2", "s2"], ["o3"])],
             {"all": ["o3"], "mid": ["o2"]})
    v = [b, retag(b, "tag-C2", "C2"), remove(b, "rm-C2", "C2"), rewire(b, "rewire-C3", "C3", "o2", "o1"),
         add(b, "prod-s2", Cmd("P", ["o1"], ["s2"]))]
    return Family("chain3", v, ["s1", "s2"], ["o1", "o2", "o3"], ["all", "mid"])


def fam_fanin():
    b = Desc("base", [Cmd("C1", ["s1"], ["o1"]), Cmd("C2", ["s2"], ["o2"]), Cmd("C3", ["o1", "o2"], ["o3"])],
             {"all": ["o3"], "a": ["o1"], "b": ["o2"]})
    v = [b, retag(b, "tag-C3", "C3"), remove(b, "rm-C2", "C2"), rewire(b, "rewire-C3", "C3", "o2", "s2"),
         replace(b, "swap-ins", Cmd("C3", ["o2", "o1"], ["o3"]))]
    return Family("fanin", v, ["s1", "s2"], ["o1", "o2", "o3"], ["all", "a"])


def fam_fanout():
    b = Desc("base", [Cmd("C1", ["s1", "s2"], ["o1"]), Cmd("C2", ["o1"], ["o2"]), Cmd("C3", ["o1"], ["o3"]),
                      Cmd("ALL", ["o2", "o3"], ["<all>"], tool="phony")], {"all": ["<all>"], "two": ["o2"]})
    v = [b, retag(b, "tag-C1", "C1"), remove(b, "rm-C3", "C3").copy("rm-C3"), rewire(b, "rewire-C2", "C2", "o1", "s1")]
    v[2].cmds = [c if c.name != "ALL" else Cmd("ALL", ["o2"], ["<all>"], tool="phony") for c in v[2].cmds]
    return Family("fanout", v, ["s1", "s2"], ["o1", "o2", "o3"], ["all", "two"])


def fam_phonyfile():
    # phony used for grouping file inputs; shell commands ordered after it through the virtual node (which
    # carries no value: every file a command reads is declared as well)
    b = Desc("base", [Cmd("C1", ["s1"], ["o1"]), Cmd("G", ["o1", "s2"], ["<g>"], tool="phony"),
                      Cmd("C2", ["<g>", "s1"], ["o2"]),
                      Cmd("C3", ["<g>", "o1"], ["o3"])], {"all": ["o2", "o3"], "g": ["<g>"]})
    v = [b, retag(b, "tag-C1", "C1"), replace(b, "declare", Cmd("C2", ["<g>", "o1", "s2"], ["o2"])),
         remove(b, "rm-G", "G")]
    return Family("phonyfile", v, ["s1", "s2"], ["o1", "o2"], ["all", "g"])


def fam_dirchain():
    b = Desc("base", [Cmd("C1", ["s1"], ["d1/"]), Cmd("C2", ["d1/"], ["d2/"]), Cmd("C3", ["d2/", "s2"], ["o3"])],
             {"all": ["o3"], "mid": ["d2/"]})
    v = [b, retag(b, "tag-C2", "C2"), remove(b, "rm-C2", "C2"),
         replace(b, "file-out", Cmd("C2", ["d1/"], ["o2"])).copy("file-out")]
    v[3] = rewire(v[3], "file-out", "C3", "d2/", "o2")
    return Family("dirchain", v, ["s1", "s2"], ["d1/", "d2/", "o3"], ["all", "mid"])


def fam_dirmulti():
    # a command with a directory output and a file output, consumed separately
    b = Desc("base", [Cmd("C1", ["s1"], ["d1/", "o1"]), Cmd("C2", ["d1/"], ["o2"]), Cmd("C3", ["o1", "s2"], ["o3"])],
             {"all": ["o2", "o3"], "two": ["o2"]})
    v = [b, retag(b, "tag-C1", "C1"), replace(b, "drop-dir", Cmd("C1", ["s1"], ["o1"])),
         replace(b, "swap", Cmd("C1", ["s1"], ["o1", "d1/"]))]
    return Family("dirmulti", v, ["s1", "s2"], ["d1/", "o1", "o2"], ["all", "two"])


def fam_srcdir2():
    # two consumers of the same source directory, one through the tree, one through a single file in it
    b = Desc("base", [Cmd("C1", ["sd/"], ["o1"]), Cmd("C2", ["sd/a"], ["o2"]), Cmd("C3", ["o1", "o2"], ["o3"])],
             {"all": ["o3"], "two": ["o2"]})
    v = [b, retag(b, "tag-C1", "C1"), rewire(b, "rewire-C2", "C2", "sd/a", "sd/b"),
         # a structure node does not track file contents: the files are declared individually as well
         replace(b, "structure", Cmd("C1", ["sd/", "sd/a", "sd/b"], ["o1"], reads=["sd/"]))]
    v[3].nodes = {"sd/": {"is-directory-structure": "true"}}
    return Family("srcdir2", v, ["sd/a", "sd/b"], ["o1", "o2", "!sd/b"], ["all", "two"],
                  init={"sd/a": "sd/a:0", "sd/b": "sd/b:0"})


def fam_nodetype():
    # the same node switches between directory-structure and directory-tree (DESIGN D8: BuildNode::getSignature
    # passes the type through combine(bool), so the two non-plain types have one signature)
    b = Desc("base", [Cmd("C1", ["sd/"], ["o1"], names_only=True)], {"all": ["o1"]},
             nodes={"sd/": {"is-directory-structure": "true"}})
    v = [b, Desc("tree", [Cmd("C1", ["sd/"], ["o1"])], {"all": ["o1"]}),
         Desc("tree-names", [Cmd("C1", ["sd/"], ["o1"], names_only=True)], {"all": ["o1"]})]
    return Family("nodetype", v, ["sd/a"], ["o1", "!sd/b"], ["all"], init={"sd/a": "sd/a:0", "sd/b": "sd/b:0"}, deep=True)


def fam_mkdirs():
    b = Desc("base", [Cmd("M1", [], ["m1"], tool="mkdir"), Cmd("M2", ["m1"], ["m1/m2"], tool="mkdir"),
                      Cmd("C1", ["s1", "m1/m2"], ["m1/m2/o1"], reads=["s1"]),
                      Cmd("C2", ["m1/m2/o1", "s2"], ["o2"])], {"all": ["o2"], "dirs": ["m1/m2"]})
    v = [b, retag(b, "tag-C1", "C1"),
         replace(remove(b, "rm-M2", "M2"), "rm-M2", Cmd("C1", ["s1", "m1"], ["m1/m2/o1"], reads=["s1"]))]
    return Family("mkdirs", v, ["s1", "s2"], ["!m1", "!m1/m2", "m1/m2/o1", "o2"], ["all", "dirs"])


def fam_links():
    # symlink to a produced file; the consumer declares both the link and its target
    b = Desc("base", [Cmd("C1", ["s1"], ["o1"]), Cmd("L", ["o1"], ["l1"], tool="symlink", contents="o1"),
                      Cmd("C2", ["l1", "o1"], ["o2"], reads=["l1"])], {"all": ["o2"], "link": ["l1"]})
    v = [b, retag(b, "tag-C1", "C1"),
         replace(b, "retarget", Cmd("L", ["o1"], ["l1"], tool="symlink", contents="s2")).copy("retarget"),
         replace(b, "shell-link", Cmd("L", ["o1"], ["l1"])).copy("shell-link")]
    v[2] = replace(v[2], "retarget", Cmd("C2", ["l1", "s2"], ["o2"], reads=["l1"]))
    return Family("links", v, ["s1", "s2"], ["o1", "l1", "o2"], ["all", "link"])


def fam_archive():
    # the `archive` tool (`ar cr`): members added, dropped and reordered by description edits; the archive is a leaf
    # of the graph (nothing here reads the binary file)
    b = Desc("base", [Cmd("C1", ["s1"], ["a.o"]), Cmd("C2", ["s2"], ["b.o"]),
                      Cmd("AR", ["a.o", "b.o"], ["lib.a"], tool="archive")], {"all": ["lib.a"], "obj": ["a.o"]})
    v = [b, retag(b, "tag-C1", "C1"),
         replace(b, "drop-member", Cmd("AR", ["a.o"], ["lib.a"], tool="archive")),
         replace(b, "swap-members", Cmd("AR", ["b.o", "a.o"], ["lib.a"], tool="archive")),
         replace(b, "src-member", Cmd("AR", ["a.o", "b.o", "s1"], ["lib.a"], tool="archive"))]
    return Family("archive", v, ["s1", "s2"], ["lib.a", "a.o"], ["all", "obj"], quick=True)


def fam_twoprod():
    # two independent producers feeding one consumer, plus a second target sharing C1
    b = Desc("base", [Cmd("C1", ["s1"], ["o1"]), Cmd("C2", ["s1", "s2"], ["o2"]), Cmd("C3", ["o1", "o2"], ["o3"]),
                      Cmd("C4", ["o1"], ["o4"])], {"all": ["o3"], "other": ["o4"]})
    v = [b, retag(b, "tag-C1", "C1"), rewire(b, "rewire-C4", "C4", "o1", "o2"), remove(b, "rm-C1", "C1")]
    return Family("twoprod", v, ["s1", "s2"], ["o1", "o2", "o4"], ["all", "other"])


def fam_selfgen():
    # an input becomes produced and back, with the producer depending on another produced node
    b = Desc("base", [Cmd("C1", ["s1"], ["o1"]), Cmd("C2", ["s2"], ["o2"])], {"all": ["o1", "o2"]})
    v = [b, add(b, "gen-s2", Cmd("G", ["o1"], ["s2"])), add(b, "gen-s1", Cmd("G", ["s2"], ["s1"])),
         retag(b, "tag-C2", "C2")]
    return Family("selfgen", v, ["s1", "s2"], ["o1", "o2"], ["all"])


def fam_virtchain():
    b = Desc("base", [Cmd("C1", ["s1"], ["<a>"]), Cmd("C2", ["<a>", "s2"], ["o2"]),
                      Cmd("C3", ["o2"], ["<b>"]), Cmd("C4", ["<b>", "s1"], ["o4"])],
             {"all": ["o4"], "b": ["<b>"]})
    v = [b, retag(b, "tag-C1", "C1"), remove(b, "rm-C1", "C1"), retag(b, "tag-C2", "C2"),
         replace(b, "a-file", Cmd("C1", ["s1"], ["oa"])).copy("a-file")]
    v[4] = replace(v[4], "a-file", Cmd("C2", ["oa", "s2"], ["o2"]))
    return Family("virtchain", v, ["s1", "s2"], ["o2", "o4"], ["all", "b"])


def fam_multi3():
    b = Desc("base", [Cmd("C1", ["s1", "s2"], ["o1", "o2", "<v>"]), Cmd("C2", ["o1", "<v>"], ["o3"]),
                      Cmd("C3", ["o2"], ["o4"])], {"all": ["o3", "o4"], "four": ["o4"]})
    v = [b, retag(b, "tag-C1", "C1"), replace(b, "no-v", Cmd("C1", ["s1", "s2"], ["o1", "o2"])),
         replace(b, "move-in-out", Cmd("C1", ["s1"], ["s2", "o1", "o2", "<v>"]))]
    return Family("multi3", v, ["s1", "s2"], ["o1", "o2", "o3"], ["all", "four"])


def fam_modout():
    b = Desc("base", [Cmd("C1", ["s1"], ["o1"], attrs={"allow-modified-outputs": "true"}),
                      Cmd("C2", ["o1", "s2"], ["o2"])], {"all": ["o2"]})
    v = [b, retag(b, "tag-C1", "C1")]
    return Family("modout", v, ["s1", "s2"], ["o2"], ["all"],
                  note="o1 is declared modifiable, so tampering with it is outside the statement; only o2 is tampered")


def fam_default():
    # default target ("" built without naming it is exercised through the `default:` key)
    b = Desc("base", [Cmd("C1", ["s1"], ["o1"]), Cmd("C2", ["o1", "s2"], ["o2"]), Cmd("C3", ["s2"], ["o3"])],
             {"": ["o2"], "x": ["o3", "o1"]}, default="")
    v = [b, retag(b, "tag-C1", "C1"), remove(b, "rm-C1", "C1")]
    return Family("default", v, ["s1", "s2"], ["o1", "o2"], ["", "x"])


def all_families():
    fs = [fam_chain(), fam_diamond(), fam_multi(), fam_virt(), fam_dir(), fam_tools(), fam_typedir(),
          fam_isdir(), fam_aood(), fam_allowmissing(), fam_deps(), fam_deps2(), fam_linkout(), fam_prodtree(), fam_deepdir(), fam_archive(), fam_chain3(), fam_fanin(), fam_fanout(),
          fam_phonyfile(), fam_dirchain(), fam_dirmulti(), fam_srcdir2(), fam_mkdirs(), fam_links(),
          fam_twoprod(), fam_selfgen(), fam_nodetype(), fam_virtchain(), fam_multi3(), fam_modout(), fam_default()]
    return fs


FS_MODES = ("device-agnostic", "checksum-only")
# families explored under the non-default file-system modes already in the quick tier: a plain chain, directory-tree
# and directory-structure inputs, directory outputs, the mkdir and symlink tools
FS_QUICK = ("chain", "dir", "tools", "srcdir2", "links", "mkdirs")


def fs_families(only=None):
    """Every family (or those named in ONLY) under each non-default client file-system mode."""
    return [f.with_fs(m) for f in all_families() if only is None or f.id in only for m in FS_MODES]


def families(tier):
    fs = all_families()
    return [f for f in fs if f.quick] if tier == "quick" else fs

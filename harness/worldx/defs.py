"""Command-definition pairs for C09 (b)/(c)/(d): a base definition D and every
D' that differs from it in exactly one attribute.

A definition is a dict rendered directly to YAML (not through wx.Cmd, because
here the argument list must stay fixed while declared inputs/outputs vary):
  name, tool, inputs, outputs, args, env [(k,v)], deps [paths], deps_style,
  attrs {k: v}, contents (symlink), nodes {node: {attr: v}}
"""
import copy
import json
import wx


def yq(s):
    return json.dumps(s)


def render(d, target_nodes):
    L = ["client:", "  name: basic", "targets:", "  %s: [%s]" % (yq("all"), ", ".join(yq(n) for n in target_nodes))]
    if d.get("nodes"):
        L.append("nodes:")
        for n, attrs in d["nodes"].items():
            L.append("  %s:" % yq(n))
            for k, v in attrs.items():
                L.append("    %s: %s" % (k, v))
    L += ["commands:", "  %s:" % yq(d["name"]), "    tool: %s" % d["tool"]]
    if "description" in d:
        L.append("    description: %s" % yq(d["description"]))
    L.append("    inputs: [%s]" % ", ".join(yq(n) for n in d.get("inputs", [])))
    L.append("    outputs: [%s]" % ", ".join(yq(n) for n in d.get("outputs", [])))
    if "args" in d:
        L.append("    args: [%s]" % ", ".join(yq(x) for x in d["args"]))
    if d.get("env") is not None:
        L.append("    env:")
        for k, v in d["env"]:
            L.append("      %s: %s" % (yq(k), yq(v)))
    if d.get("deps"):
        L.append("    deps: [%s]" % ", ".join(yq(x) for x in d["deps"]))
    if d.get("deps_style"):
        L.append("    deps-style: %s" % d["deps_style"])
    if "contents" in d:
        L.append("    contents: %s" % yq(d["contents"]))
    for k, v in d.get("attrs", {}).items():
        L.append("    %s: %s" % (k, v if v in ("true", "false") else yq(v)))
    return "\n".join(L) + "\n"


def base_shell():
    return {
        "name": "T", "tool": "shell",
        "inputs": ["s1", "s2", "<vi>"], "outputs": ["o1", "o2", "<vo>"],
        # the argument list is independent of the declared inputs/outputs: vcmd always reads s1 and writes o1 o2 o3
        "args": [wx.VCMD, "cat", "T", "-n", "ab", "-n", "c", "-d", "o1.d", "-d", "o2.d", "o1", "o2", "o3", "--", "s1"],
        "env": [("K1", "V1"), ("AB", "C")],
        "deps": ["o1.d"], "deps_style": "makefile",
        "attrs": {},
    }


def mut(d, **kw):
    n = copy.deepcopy(d)
    for k, v in kw.items():
        if k.startswith("attr_"):
            key = k[5:].replace("_", "-")
            if v is None:
                n["attrs"].pop(key, None)
            else:
                n["attrs"][key] = v
        else:
            n[k] = v
    return n


def setarg(d, i, v):
    n = copy.deepcopy(d)
    n["args"][i] = v
    return n


class Pair:
    def __init__(self, pid, attr, a, b, relevant=True, e2e=True, cls=None, target=None, files=None, observe=None,
                 target_b=None):
        self.id = pid
        self.attr = attr              # attribute that differs
        self.a = a
        self.b = b
        self.relevant = relevant      # signature-relevant => must re-execute / signatures must differ
        self.e2e = e2e                # run the end-to-end check (needs D to build successfully)
        self.cls = cls                # narrow class for an expected collision
        self.target = target or ["o1"]
        self.target_b = target_b or self.target
        self.files = files or {"s1": "s1:0", "s2": "s2:0", "s3": "s3:0", "m": "m:0", "sub/s1": "sub/s1:0"}
        self.observe = observe        # for tools invisible in exec.log: (path, expected lread after D')


def shell_pairs():
    B = base_shell()
    P = []

    def add(pid, attr, b, a=None, **kw):
        P.append(Pair("shell." + pid, attr, a if a is not None else B, b, **kw))

    add("name", "name", mut(B, name="U"))
    add("arg-program", "args", setarg(B, 0, wx.VCMD.replace("/vcmd", "/./vcmd")))
    add("arg-tag", "args", setarg(B, 2, "T'"))
    add("arg-4", "args", setarg(B, 4, "abx"))
    add("arg-6", "args", setarg(B, 6, "cx"))
    nb = copy.deepcopy(B)
    nb["args"][4], nb["args"][6] = "a", "bc"
    add("arg-boundary", "args", nb)
    nb = copy.deepcopy(B)
    nb["args"][3:3] = ["-n", "z"]
    add("arg-added", "args", nb)
    nb = copy.deepcopy(B)
    del nb["args"][3:5]
    add("arg-removed", "args", nb)
    add("env-key", "env", mut(B, env=[("K9", "V1"), ("AB", "C")]))
    add("env-value", "env", mut(B, env=[("K1", "V9"), ("AB", "C")]))
    add("env-kv-boundary", "env", mut(B, env=[("K1", "V1"), ("A", "BC")]))
    add("env-entry-removed", "env", mut(B, env=[("K1", "V1")]))
    add("env-entry-added", "env", mut(B, env=[("K1", "V1"), ("AB", "C"), ("Z", "1")]))
    add("env-pair-boundary", "env", mut(B, env=[("K1", "V1AB"), ("C", "")]), e2e=False)
    add("input-0", "inputs", mut(B, inputs=["s3", "s2", "<vi>"]))
    add("input-1", "inputs", mut(B, inputs=["s1", "s3", "<vi>"]))
    add("input-virtual", "inputs", mut(B, inputs=["s1", "s2", "<vj>"]))
    add("input-removed", "inputs", mut(B, inputs=["s1", "<vi>"]))
    add("input-added", "inputs", mut(B, inputs=["s1", "s2", "<vi>", "s3"]))
    add("output-1", "outputs", mut(B, outputs=["o1", "o3", "<vo>"]))
    add("output-virtual", "outputs", mut(B, outputs=["o1", "o2", "<vp>"]))
    add("output-removed", "outputs", mut(B, outputs=["o1", "<vo>"]))
    add("output-added", "outputs", mut(B, outputs=["o1", "o2", "<vo>", "o3"]))
    # moving a node between the END of the input list and the START of the output list
    io_f = mut(B, inputs=["s1", "m"], outputs=["o1"])
    add("io-boundary-file", "inputs|outputs", mut(B, inputs=["s1"], outputs=["m", "o1"]), a=io_f,
        cls="C09.signature-input-output-boundary")
    io_v = mut(B, inputs=["s1", "<x>"], outputs=["<y>"])
    add("io-boundary-virtual", "inputs|outputs", mut(B, inputs=["s1"], outputs=["<x>", "<y>"]), a=io_v,
        cls="C09.signature-input-output-boundary", target=["<y>"])
    add("io-boundary-virtual-rev", "inputs|outputs", io_v, a=mut(B, inputs=["s1"], outputs=["<x>", "<y>"]),
        cls="C09.signature-input-output-boundary", target=["<y>"])
    add("deps-path", "deps", mut(B, deps=["o2.d"]))
    add("deps-added", "deps", mut(B, deps=["o1.d", "o2.d"]))
    mk2 = mut(B, deps_style="makefile-ignoring-subsequent-outputs")
    add("deps-style-mk-di", "deps-style", mut(B, deps_style="dependency-info"), cls="C09.signature-deps-style-collision")
    add("deps-style-mk-mk2", "deps-style", mk2, cls="C09.signature-deps-style-collision")
    add("deps-style-mk2-mk", "deps-style", B, a=mk2, cls="C09.signature-deps-style-collision")
    add("deps-style-mk2-di", "deps-style", mut(B, deps_style="dependency-info"), a=mk2,
        cls="C09.signature-deps-style-collision")
    nodeps = mut(B, deps=None, deps_style=None)
    add("deps-none-mk", "deps", B, a=nodeps)
    add("deps-style-unused-mk", "deps-style", mut(nodeps, deps_style="makefile"), a=nodeps)
    add("inherit-env", "inherit-env", mut(B, attr_inherit_env="false"))
    add("can-safely-interrupt", "can-safely-interrupt", mut(B, attr_can_safely_interrupt="false"))
    add("allow-missing-inputs", "allow-missing-inputs", mut(B, attr_allow_missing_inputs="true"))
    add("allow-modified-outputs", "allow-modified-outputs", mut(B, attr_allow_modified_outputs="true"))
    add("always-out-of-date", "always-out-of-date", mut(B, attr_always_out_of_date="true"))
    sa = mut(B, attr_signature="sigA")
    add("signature-added", "signature", sa)
    add("signature-changed", "signature", mut(B, attr_signature="sigB"), a=sa)
    add("signature-removed", "signature", B, a=sa)
    # not signature-relevant: must NOT re-execute
    add("description", "description", mut(B, description="y"), a=mut(B, description="x"), relevant=False)
    add("description-added", "description", mut(B, description="y"), relevant=False)
    add("working-directory", "working-directory", mut(B, attr_working_directory="sub"), relevant=False)
    # with an explicit signature the built-in strategy (args, env, deps...) is replaced (docs/buildsystem.rst)
    add("sig-fixed-arg", "args (explicit signature)", setarg(sa, 4, "abx"), a=sa, relevant=False)
    add("sig-fixed-env", "env (explicit signature)", mut(sa, env=[("K1", "V9"), ("AB", "C")]), a=sa, relevant=False)
    # ... but only the built-in strategy for args/env/deps: name, declared inputs/outputs and flags stay part of it
    add("sig-fixed-name", "name (explicit signature)", mut(sa, name="U"), a=sa)
    add("sig-fixed-input-added", "inputs (explicit signature)", mut(sa, inputs=["s1", "s2", "<vi>", "s3"]), a=sa)
    add("sig-fixed-input-0", "inputs (explicit signature)", mut(sa, inputs=["s3", "s2", "<vi>"]), a=sa)
    add("sig-fixed-output-added", "outputs (explicit signature)", mut(sa, outputs=["o1", "o2", "<vo>", "o3"]), a=sa)
    add("sig-fixed-allow-missing-inputs", "allow-missing-inputs (explicit signature)", mut(sa, attr_allow_missing_inputs="true"), a=sa)
    add("sig-fixed-always-out-of-date", "always-out-of-date (explicit signature)", mut(sa, attr_always_out_of_date="true"), a=sa)
    # a minimal command (one file input, one file output, no deps) under each flag: with
    # allow-modified-outputs the engine-side "update if outputs exist" shortcut is reachable
    S = {"name": "T", "tool": "shell", "inputs": ["s1"], "outputs": ["o1"],
         "args": [wx.VCMD, "cat", "T", "o1", "--", "s1"], "env": [("K1", "V1")], "attrs": {}}
    for flag in (None, "allow-modified-outputs", "allow-missing-inputs"):
        SF = mut(S, **{"attr_" + flag.replace("-", "_"): "true"}) if flag else S
        tag = "simple-" + (flag or "plain")
        add(tag + ".arg-tag", "args", setarg(SF, 2, "T'"), a=SF)
        add(tag + ".env-value", "env", mut(SF, env=[("K1", "V9")]), a=SF)
        add(tag + ".env-added", "env", mut(SF, env=[("K1", "V1"), ("K2", "V2")]), a=SF)
    # the same signature-relevant changes on bases that carry a non-default flag: a flag must not
    # turn a definition change into a no-op
    for flag in ("allow-modified-outputs", "allow-missing-inputs", "can-safely-interrupt", "inherit-env"):
        for val in ("true", "false"):
            BF = mut(B, **{"attr_" + flag.replace("-", "_"): val})
            tag = "with-%s-%s" % (flag, val)
            add(tag + ".arg-tag", "args", setarg(BF, 2, "T'"), a=BF)
            add(tag + ".env-value", "env", mut(BF, env=[("K1", "V9"), ("AB", "C")]), a=BF)
    # every edge of the flag cube {allow-missing-inputs, allow-modified-outputs, always-out-of-date}:
    # definitions differing in exactly one flag while the others stay set (both directions). The
    # edges from the empty corner are the three single-flag pairs above.
    flags = ("allow-missing-inputs", "allow-modified-outputs", "always-out-of-date")
    for mask in range(1, 8):
        BF = B
        for i, f in enumerate(flags):
            if mask & (1 << i):
                BF = mut(BF, **{"attr_" + f.replace("-", "_"): "true"})
        for i, f in enumerate(flags):
            if mask & (1 << i):
                continue
            other = mut(BF, **{"attr_" + f.replace("-", "_"): "true"})
            add("flags-%d.plus-%s" % (mask, f), f, other, a=BF)
            add("flags-%d.minus-%s" % (mask | (1 << i), f), f, BF, a=other)
    return P


def other_tool_pairs():
    P = []
    ph = {"name": "P", "tool": "phony", "inputs": ["s1", "s2"], "outputs": ["<p>", "<q>"], "attrs": {}}

    def add(pid, attr, a, b, **kw):
        kw.setdefault("e2e", False)
        P.append(Pair(pid, attr, a, b, **kw))

    add("phony.name", "name", ph, mut(ph, name="Q"))
    add("phony.input-0", "inputs", ph, mut(ph, inputs=["s3", "s2"]))
    add("phony.input-removed", "inputs", ph, mut(ph, inputs=["s1"]))
    add("phony.output-1", "outputs", ph, mut(ph, outputs=["<p>", "<r>"]))
    add("phony.output-added", "outputs", ph, mut(ph, outputs=["<p>", "<q>", "<r>"]))
    add("phony.io-boundary", "inputs|outputs", mut(ph, inputs=["s1", "<x>"], outputs=["<p>"]),
        mut(ph, inputs=["s1"], outputs=["<x>", "<p>"]), cls="C09.signature-input-output-boundary")
    add("phony.allow-missing-inputs", "allow-missing-inputs", ph, mut(ph, attr_allow_missing_inputs="true"))
    mk = {"name": "M", "tool": "mkdir", "inputs": ["s1"], "outputs": ["m1"], "attrs": {}}
    add("mkdir.name", "name", mk, mut(mk, name="M2"))
    add("mkdir.output", "outputs", mk, mut(mk, outputs=["m2"]), e2e=True, relevant=True, target=["m1"], target_b=["m2"],
        observe=("m2", "DIR"))
    add("mkdir.input", "inputs", mk, mut(mk, inputs=["s2"]))
    add("mkdir.input-added", "inputs", mk, mut(mk, inputs=["s1", "s2"]))
    add("mkdir.io-boundary", "inputs|outputs", mut(mk, inputs=["s1", "mx"], outputs=["m1"]),
        mut(mk, inputs=["s1"], outputs=["mx", "m1"]), cls="C09.signature-input-output-boundary")
    sl = {"name": "L", "tool": "symlink", "inputs": ["s1"], "outputs": ["l1"], "contents": "s1", "attrs": {}}
    add("symlink.name", "name", sl, mut(sl, name="L2"), cls="C09.signature-collision-symlink-name")
    add("symlink.contents", "contents", sl, mut(sl, contents="s2"), e2e=True, target=["l1"], observe=("l1", "@s2"))
    add("symlink.output", "outputs", sl, mut(sl, outputs=["l2"]), e2e=True, target=["l1"], target_b=["l2"],
        observe=("l2", "@s1"))
    slp = mut(sl, attr_link_output_path="l2")
    add("symlink.link-output-path-added", "link-output-path", sl, slp, e2e=True, target=["l1"], observe=("l2", "@s1"))
    add("symlink.link-output-path-changed", "link-output-path", slp, mut(sl, attr_link_output_path="l3"), e2e=True,
        target=["l1"], observe=("l3", "@s1"))
    add("symlink.input", "inputs", sl, mut(sl, inputs=["s2"]))
    add("symlink.input-added", "inputs", sl, mut(sl, inputs=["s1", "s2"]))
    add("symlink.contents-input-boundary", "contents|inputs", mut(sl, contents="ab", inputs=["c"]),
        mut(sl, contents="a", inputs=["bc"]), cls=None)
    # tools that are never executed here (they would need a compiler): signatures only
    cl = {"name": "K", "tool": "clang", "inputs": ["s1"], "outputs": ["k.o"], "args": ["cc", "-c", "s1", "-o", "k.o"],
          "attrs": {"deps": "k.d"}}
    add("clang.name", "name", cl, mut(cl, name="K2"))
    add("clang.arg", "args", cl, setarg(cl, 1, "-S"))
    add("clang.arg-boundary", "args", mut(cl, args=["cc", "ab", "c"]), mut(cl, args=["cc", "a", "bc"]))
    add("clang.input", "inputs", cl, mut(cl, inputs=["s2"]))
    add("clang.output", "outputs", cl, mut(cl, outputs=["k2.o"]))
    add("clang.deps-path", "deps", cl, mut(cl, attr_deps="k2.d"), cls="C09.signature-collision-clang-deps-path")
    add("clang.deps-added", "deps", mut(cl, attr_deps=None), cl, cls="C09.signature-collision-clang-deps-path")
    sw = {"name": "W", "tool": "swift-compiler", "inputs": ["a.swift"], "outputs": ["a.o"],
          "attrs": {"executable": "swiftc", "module-name": "M", "module-output-path": "M.swiftmodule", "sources": ["a.swift"],
                    "objects": ["a.o"], "import-paths": ["inc"], "temps-path": "tmp", "other-args": ["-g"], "is-library": "true"}}

    def swm(**kw):
        n = copy.deepcopy(sw)
        for k, v in kw.items():
            n["attrs"][k.replace("_", "-")] = v
        return n

    add("swift.name", "name", sw, mut(sw, name="W2"))
    add("swift.executable", "executable", sw, swm(executable="swiftc2"))
    add("swift.module-name", "module-name", sw, swm(module_name="N"))
    add("swift.module-output-path", "module-output-path", sw, swm(module_output_path="N.swiftmodule"))
    add("swift.sources", "sources", sw, swm(sources=["a.swift", "b.swift"]))
    add("swift.objects", "objects", sw, swm(objects=["b.o"]))
    add("swift.import-paths", "import-paths", sw, swm(import_paths=["inc", "inc2"]))
    add("swift.temps-path", "temps-path", sw, swm(temps_path="tmp2"))
    add("swift.other-args", "other-args", sw, swm(other_args=["-g", "-O"]))
    add("swift.is-library", "is-library", sw, swm(is_library="false"))
    add("swift.sources-objects-boundary", "sources|objects", swm(sources=["a", "b"], objects=["c"]),
        swm(sources=["a"], objects=["b", "c"]))
    add("swift.wmo", "enable-whole-module-optimization", sw, swm(enable_whole_module_optimization="true"))
    wmo = swm(enable_whole_module_optimization="true", num_threads="2")
    add("swift.num-threads", "num-threads", wmo, swm(enable_whole_module_optimization="true", num_threads="4"))
    add("swift.wmo-off", "enable-whole-module-optimization", wmo, swm(num_threads="2"))
    shl = {"name": "SL", "tool": "shared-library", "inputs": ["a.o", "b.o"], "outputs": ["lib.so"],
           "attrs": {"executable": "cc", "compiler-style": "clang", "other-args": ["-lm"]}}
    add("shlib.name", "name", shl, mut(shl, name="SL2"))
    add("shlib.executable", "executable", shl, mut(shl, attr_executable="cc2"))
    add("shlib.compiler-style", "compiler-style", shl, mut(shl, attr_compiler_style="swiftc"))
    add("shlib.other-args", "other-args", shl, mut(shl, attr_other_args=["-lm", "-lz"]))
    add("shlib.other-args-boundary", "other-args", mut(shl, attr_other_args=["ab", "c"]), mut(shl, attr_other_args=["a", "bc"]))
    add("shlib.input", "inputs", shl, mut(shl, inputs=["a.o"]))
    add("shlib.output", "outputs", shl, mut(shl, outputs=["lib2.so"]))
    ar = {"name": "AR", "tool": "archive", "inputs": ["a.o", "b.o"], "outputs": ["lib.a"], "attrs": {}}
    add("archive.name", "name", ar, mut(ar, name="AR2"))
    add("archive.input", "inputs", ar, mut(ar, inputs=["a.o"]))
    add("archive.output", "outputs", ar, mut(ar, outputs=["lib2.a"]))
    return P


def node_pairs():
    """Node definitions differing only in their type (BuildNode::getSignature)."""
    kinds = [("plain", {}), ("directory", {"is-directory": "true"}),
             ("directory-structure", {"is-directory-structure": "true"}), ("virtual", {"is-virtual": "true"})]
    P = []
    base = {"name": "T", "tool": "phony", "inputs": ["n"], "outputs": ["<p>"], "attrs": {}}
    for i in range(len(kinds)):
        for j in range(i + 1, len(kinds)):
            a = mut(base, nodes={"n": kinds[i][1]} if kinds[i][1] else {})
            b = mut(base, nodes={"n": kinds[j][1]})
            P.append(Pair("node.%s-vs-%s" % (kinds[i][0], kinds[j][0]), "node type", a, b, e2e=False,
                          cls="C09.node-signature-type-collision" if i > 0 else None, target=["<p>"]))
    return P


def all_pairs():
    return shell_pairs() + other_tool_pairs() + node_pairs()

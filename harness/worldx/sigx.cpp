// sigx: in-process signature enumeration for C09 (c).
//
//   sigx < manifest          manifest lines:  FILE \t NODE [\t NODE ...]
//
// For every line the description FILE is loaded into a fresh BuildSystem (the
// same loader the tool uses) and for every NODE the tool prints
//     FILE \t N \t <node name> \t <BuildNode::getSignature() as hex>
//     FILE \t C \t <producer command name> \t <Command::getSignature() as hex>   (one per producer)
// A description that fails to load prints  FILE \t E \t load-failed.
// Nothing is built.  Run twice and compare the outputs to check that signatures
// do not depend on the process (addresses, time, hash seeds).
#include "llbuild/Basic/ExecutionQueue.h"
#include "llbuild/Basic/FileSystem.h"
#include "llbuild/Basic/Hashing.h"
#include "llbuild/BuildSystem/BuildDescription.h"
#include "llbuild/BuildSystem/BuildKey.h"
#include "llbuild/BuildSystem/BuildNode.h"
#include "llbuild/BuildSystem/BuildSystem.h"
#include "llbuild/BuildSystem/Command.h"
#include "llbuild/BuildSystem/Tool.h"

#include "llvm/ADT/Twine.h"
#include "llvm/Support/raw_ostream.h"

#include <cinttypes>
#include <cstdio>
#include <iostream>
#include <sstream>
#include <string>
#include <vector>

using namespace llvm;
using namespace llbuild;
using namespace llbuild::basic;
using namespace llbuild::buildsystem;

namespace {
class QDelegate : public ExecutionQueueDelegate {
  void queueJobStarted(JobDescriptor*) override {}
  void queueJobFinished(JobDescriptor*) override {}
  void processStarted(ProcessContext*, ProcessHandle, llbuild_pid_t) override {}
  void processHadError(ProcessContext*, ProcessHandle, const Twine&) override {}
  void processHadOutput(ProcessContext*, ProcessHandle, StringRef) override {}
  void processFinished(ProcessContext*, ProcessHandle, const ProcessResult&) override {}
};

class Delegate : public BuildSystemDelegate {
  QDelegate q;

public:
  int errors = 0;
  Delegate() : BuildSystemDelegate("basic", 0) {}
  void setFileContentsBeingParsed(StringRef) override {}
  void error(StringRef filename, const Token&, const Twine& message) override {
    ++errors;
    fprintf(stderr, "sigx: %s: %s\n", filename.str().c_str(), message.str().c_str());
  }
  std::unique_ptr<Tool> lookupTool(StringRef) override { return nullptr; }
  std::unique_ptr<ExecutionQueue> createExecutionQueue() override {
    return std::unique_ptr<ExecutionQueue>(createLaneBasedExecutionQueue(
        q, 1, SchedulerAlgorithm::NamePriority, getDefaultQualityOfService(), nullptr));
  }
  void hadCommandFailure() override {}
  void commandStatusChanged(Command*, CommandStatusKind) override {}
  void commandPreparing(Command*) override {}
  bool shouldCommandStart(Command*) override { return true; }
  void commandStarted(Command*) override {}
  void commandHadError(Command*, StringRef) override {}
  void commandHadNote(Command*, StringRef) override {}
  void commandHadWarning(Command*, StringRef) override {}
  void commandFinished(Command*, ProcessStatus) override {}
  void commandFoundDiscoveredDependency(Command*, StringRef, DiscoveredDependencyKind) override {}
  void commandCannotBuildOutputDueToMissingInputs(Command*, Node*, ArrayRef<BuildKey>) override {}
  Command* chooseCommandFromMultipleProducers(Node*, std::vector<Command*>) override { return nullptr; }
  void cannotBuildNodeDueToMultipleProducers(Node*, std::vector<Command*>) override {}
  void determinedRuleNeedsToRun(core::Rule*, core::Rule::RunReason, core::Rule*) override {}
};
}  // namespace

int main() {
  std::string line;
  while (std::getline(std::cin, line)) {
    if (line.empty()) continue;
    std::vector<std::string> f;
    std::stringstream ss(line);
    std::string t;
    while (std::getline(ss, t, '\t')) f.push_back(t);
    Delegate d;
    BuildSystem system(d, createLocalFileSystem());
    if (!system.loadDescription(f[0]) || d.errors) {
      printf("%s\tE\tload-failed\n", f[0].c_str());
      continue;
    }
    for (size_t i = 1; i < f.size(); ++i) {
      BuildNode* n = system.lookupNode(f[i]);
      if (!n) continue;
      printf("%s\tN\t%s\t%016" PRIx64 "\n", f[0].c_str(), f[i].c_str(), (uint64_t)n->getSignature().value);
      for (auto* c : n->getProducers())
        printf("%s\tC\t%s\t%016" PRIx64 "\n", f[0].c_str(), c->getName().str().c_str(),
               (uint64_t)c->getSignature().value);
    }
  }
  return 0;
}

"""C10: a failed or cancelled command never feeds dependents and is always retried.

Space: descriptions with <= 4 shell commands (file, virtual, directory, multi-output
and phony-gate edges) x EVERY non-empty subset of commands directed to fail x
failure kind x index k of the failing build in a 3-build history x
{--serial, -j4} x {repair immediately, retry once unrepaired then repair, repair together with an edit of every source};
plus SIGINT to the tool while one gated command is blocked on a FIFO.

Replay: C10|<family>|<mode>|<C1+C3>|<kind>|<k>|<retry>     C10i|<family>|<mode>|<gated>|<k>
"""
import itertools
import os
import shutil

import wx
from wx import Cmd, Desc, Sandbox, HarnessError, is_virtual
import families as F

KINDS_QUICK = ["exit1", "exit1-after", "kill", "need", "unwritable", "term-after"]
KINDS_THOROUGH = KINDS_QUICK + ["kill-after", "abrt", "segv-after"]
CTL = {"exit1": "fail-before", "exit1-after": "fail-after", "kill": "kill", "kill-after": "kill-after",
       "term-after": "sig-after 15", "abrt": "sig 6", "segv-after": "sig-after 11"}


def c10_families():
    fs = []

    def fam(fid, cmds, targets, quick=True):
        d = Desc("base", cmds, targets)
        fs.append(F.Family(fid, [d], ["s1", "s2"], [], list(targets), quick=quick))

    fam("f-chain", [Cmd("C1", ["s1"], ["o1"]), Cmd("C2", ["o1"], ["o2"]), Cmd("C3", ["o2", "s2"], ["o3"])], {"all": ["o3"]})
    fam("f-diamond", [Cmd("C1", ["s1"], ["o1"]), Cmd("C2", ["o1"], ["o2"]), Cmd("C3", ["o1", "s2"], ["o3"]),
                      Cmd("C4", ["o2", "o3"], ["o4"])], {"all": ["o4"]})
    fam("f-multi", [Cmd("C1", ["s1"], ["o1", "o2"]), Cmd("C2", ["o1"], ["o3"]), Cmd("C3", ["o2", "s2"], ["o4"])],
        {"all": ["o3", "o4"]})
    fam("f-virt", [Cmd("C1", ["s1"], ["o1", "<v>"]), Cmd("C2", ["<v>", "s2"], ["o2"]), Cmd("C3", ["o1", "o2"], ["o3"])],
        {"all": ["o3"]})
    fam("f-dir", [Cmd("C1", ["s1"], ["d1/"]), Cmd("C2", ["d1/"], ["o2"]), Cmd("C3", ["s2"], ["o3"]),
                  Cmd("C4", ["o2", "o3"], ["o4"])], {"all": ["o4"]})
    fam("f-phony", [Cmd("C1", ["s1"], ["o1"]), Cmd("G", ["o1"], ["<g>"], tool="phony"),
                    Cmd("C2", ["<g>", "s2"], ["o2"]), Cmd("C3", ["o1", "o2"], ["o3"])], {"all": ["o3"]})
    fam("f-indep", [Cmd("C1", ["s1"], ["o1"]), Cmd("C2", ["s2"], ["o2"]), Cmd("C3", ["o1", "o2"], ["o3"]),
                    Cmd("C4", ["s2"], ["o4"])], {"all": ["o3", "o4"]})
    fam("f-virtonly", [Cmd("C1", ["s1"], ["<a>"]), Cmd("C2", ["<a>", "s2"], ["<b>"]), Cmd("C3", ["<b>", "s1"], ["o3"])],
        {"all": ["o3"]}, quick=False)
    fam("f-dirmulti", [Cmd("C1", ["s1"], ["d1/", "o1"]), Cmd("C2", ["d1/"], ["d2/"]), Cmd("C3", ["o1", "s2"], ["o3"]),
                       Cmd("C4", ["d2/", "o3"], ["o4"])], {"all": ["o4"]}, quick=False)
    fam("f-wide", [Cmd("C1", ["s1"], ["o1"]), Cmd("C2", ["s1", "s2"], ["o2"]), Cmd("C3", ["s2"], ["o3"]),
                   Cmd("C4", ["o1", "o2", "o3"], ["o4"])], {"all": ["o4"]}, quick=False)
    fam("f-phonyall", [Cmd("C1", ["s1"], ["o1"]), Cmd("C2", ["o1", "s2"], ["o2"]), Cmd("C3", ["s2"], ["o3"]),
                       Cmd("ALL", ["o2", "o3"], ["<all>"], tool="phony")], {"all": ["<all>"]}, quick=False)
    return fs


def shell_cmds(desc):
    """Shell commands reachable from the target every scenario builds."""
    return [c for c in desc.reachable_cmds("all") if c.tool == "shell"]


def through_phony_gate(desc, failed, consumer):
    """Does every dependency path from a failed command to CONSUMER pass through a
    virtual output of a phony command?"""
    # remove phony->virtual edges and see whether the consumer is still downstream
    d2 = Desc("x", [c for c in desc.cmds if not (c.tool == "phony" and all(is_virtual(o) for o in c.outs))], desc.targets)
    return consumer not in d2.consumers_closure(set(failed))


class Scenario:
    def __init__(self, fam, mode):
        self.fam = fam
        self.desc = fam.descs[0]
        self.mode = mode
        self.sb = Sandbox()
        for p, c in fam.init.items():
            self.sb.write(p, c)
        self.sb.write("build.llbuild", self.desc.yaml())
        self.ver = 0
        self.obstructed = []

    def close(self):
        self.sb.destroy()

    def edit_all(self):
        self.ver += 1
        for s in self.fam.sources:
            self.sb.write(s, "%s:%d" % (s, self.ver % 10))

    def names(self, ran):
        t2n = {c.tag: c.name for c in self.desc.cmds}
        return [t2n.get(t, t) for t in ran]

    def direct(self, fail, kind):
        """Arrange for the commands in FAIL to fail in the given way. Returns False if not applicable."""
        ctl = {}
        for name in fail:
            c = self.desc.cmd(name)
            if kind in CTL:
                ctl[c.tag] = CTL[kind]
            elif kind == "need":
                ctl[c.tag] = "need need.%s" % c.name
            elif kind == "gate":
                ctl[c.tag] = "gate"
            elif kind == "unwritable":
                outs = c.file_outs()
                if not outs:
                    return False
                o = outs[-1]
                self.sb.delete(o)
                if o.endswith("/") or o in c.attrs.get("x-dir-out", ()):
                    self.sb.write(o.rstrip("/"), "obstruction")
                else:
                    os.makedirs(self.sb.p(o + "/x"))
                    self.sb.stamp(o)
                self.obstructed.append(o)
        self.sb.set_ctl(ctl)
        return True

    def repair(self, fail, kind):
        if kind == "need":
            for name in fail:
                self.sb.write("need.%s" % name, "here")
        else:
            self.sb.set_ctl({})
        for o in self.obstructed:
            self.sb.delete(o)
        self.obstructed = []


def check_failing(res, sc, fail, kind, rc, ran, spec, label, what):
    """Oracle for a build in which FAIL were directed to fail."""
    desc = sc.desc
    names = sc.names(ran)
    attempted = [n for n in names if n in fail]
    down = desc.consumers_closure(set(attempted))
    leaked = [n for n in names if n in down]
    if attempted:
        res.count("failing_builds_with_a_failed_command")
    if attempted and rc == 0:
        cls = ("C10.command-killed-by-signal-build-reports-success" if kind.startswith("kill")
               else "C10.other-build-succeeds-despite-failed-command-%s" % kind)
        res.violate(cls, "%s: %s failed (%s) in the %s but llbuild exited 0" % (what, ",".join(attempted), kind, label), spec)
    if not attempted and fail:
        res.count("failing_builds_not_reaching_a_failing_command")
    if leaked:
        gate = all(through_phony_gate(desc, attempted, n) for n in leaked)
        cls = ("C10.consumer-runs-behind-phony-virtual-gate-%s" % ("signal" if kind.startswith("kill") else kind) if gate
               else "C10.other-consumer-of-failed-command-ran-%s" % kind)
        res.violate(cls, "%s: in the %s %s failed (%s) yet its consumer(s) %s executed (ran: %s)" % (
            what, label, ",".join(attempted), kind, ",".join(leaked), ",".join(names)), spec)
    return attempted


def converge(res, sc, spec, what, must_run, kind, verbose=False):
    """Repair has been made: the next build must succeed, re-execute MUST_RUN and reach the reference state."""
    desc = sc.desc
    ex = ORACLE.expect(desc, sc.sb, "all")
    rc, out, ran = sc.sb.build("all", sc.mode)
    res.count("builds")
    names = sc.names(ran)
    if verbose:
        print("  repair build rc=%d ran=%s\n%s" % (rc, names, out))
    if rc != 0:
        res.violate("C10.build-after-repair-fails-%s" % kind, "%s: the build after repair failed: %s" % (what, out[-300:]), spec)
        return
    missing = [n for n in must_run["failed"] if n not in names]
    if missing:
        res.violate("C10.failed-command-not-reexecuted-after-repair-%s" % kind,
                    "%s: after repair the next build did not re-execute %s (ran: %s)" % (what, ",".join(missing), ",".join(names)), spec)
    missing = [n for n in must_run["down"] if n not in names and n not in must_run["failed"]]
    if missing:
        res.violate("C10.downstream-not-reexecuted-after-repair-%s" % kind,
                    "%s: after repair the next build did not re-execute downstream %s (ran: %s)" % (what, ",".join(missing), ",".join(names)), spec)
    wrong = []
    for path, want in ex.outputs.items():
        got = wx.observe(sc.sb, path, ex.kinds[path])
        if got != want:
            wrong.append((path, want, got))
    if wrong:
        res.violate("C10.no-convergence-after-repair-%s" % kind,
                    "%s: after repair the build succeeded but %s is %r, clean build gives %r" % (
                        what, wrong[0][0], wrong[0][2], wrong[0][1]), spec)
    else:
        res.count("converged_after_repair")


ORACLE = None  # set by worldx (shared CleanOracle)


def run_item(res, fam, mode, fail, kind, k, retry, verbose=False):
    spec = "C10|%s|%s|%s|%s|%d|%d" % (fam.id, mode, "+".join(fail), kind, k, retry)
    what = "%s [%s] fail={%s} kind=%s failing-build=%d retry=%d" % (fam.id, mode, ",".join(fail), kind, k, retry)
    sc = Scenario(fam, mode)
    try:
        for i in range(k):
            if i:
                sc.edit_all()
            rc, out, ran = sc.sb.build("all", mode)
            res.count("builds")
            if rc != 0:
                raise HarnessError("C10 %s: preparatory build %d failed\n%s" % (what, i, out))
        if k:
            sc.edit_all()
        if not sc.direct(fail, kind):
            res.count("not_applicable_no_file_output")
            return
        rc, out, ran = sc.sb.build("all", mode)
        res.count("builds")
        res.count("evaluations")
        if verbose:
            print("  failing build rc=%d ran=%s\n%s" % (rc, sc.names(ran), out))
        attempted = set(check_failing(res, sc, fail, kind, rc, ran, spec, "failing build", what))
        already = set(sc.names(ran)) - attempted
        if attempted:
            res.count("distinct_nontrivial")
        if retry:
            rc2, out2, ran2 = sc.sb.build("all", mode)
            res.count("builds")
            if verbose:
                print("  unrepaired retry rc=%d ran=%s\n%s" % (rc2, sc.names(ran2), out2))
            att2 = set(check_failing(res, sc, fail, kind, rc2, ran2, spec, "unrepaired retry build", what))
            names2 = sc.names(ran2)
            # every command that failed must be re-attempted unless this build was itself cut short by a failure
            not_retried = [n for n in attempted if n not in names2]
            if not_retried and not att2:
                res.violate("C10.failed-command-not-retried-%s" % kind,
                            "%s: %s failed, but the next build (cause still present) did not re-attempt it and reported rc=%d (ran: %s)" % (
                                what, ",".join(sorted(not_retried)), rc2, ",".join(names2)), spec)
            attempted |= att2
            already = (already | set(names2)) - attempted
        if retry == 2:
            sc.edit_all()
            already = set()
        sc.repair(fail, kind)
        # consumers that (wrongly, already reported) executed in the failing build are up to date by now
        down = sc.desc.consumers_closure(attempted) - already
        reach = {c.name for c in sc.desc.reachable_cmds("all") if c.tool == "shell"}
        converge(res, sc, spec, what, {"failed": sorted(attempted & reach), "down": sorted(down & reach)}, kind, verbose)
        if len(res.samples) < 5 and attempted:
            res.sample({"family": fam.id, "mode": mode, "fail": fail, "kind": kind, "failing_build": k, "retry": retry,
                        "rc": rc, "ran_in_failing_build": sc.names(ran)})
    finally:
        sc.close()


def run_interrupt(res, fam, mode, gated, k, verbose=False):
    spec = "C10i|%s|%s|%s|%d" % (fam.id, mode, gated, k)
    what = "%s [%s] SIGINT while %s is running, build %d" % (fam.id, mode, gated, k)
    sc = Scenario(fam, mode)
    try:
        for i in range(k):
            if i:
                sc.edit_all()
            rc, out, ran = sc.sb.build("all", mode)
            res.count("builds")
            if rc != 0:
                raise HarnessError("C10i %s: preparatory build failed\n%s" % (what, out))
        if k:
            sc.edit_all()
        sc.direct([gated], "gate")
        rc, out, ran, reached = sc.sb.build_interrupted("all", mode)
        res.count("builds")
        res.count("evaluations")
        res.count("interrupt_scenarios")
        names = sc.names(ran)
        if verbose:
            print("  interrupted build rc=%d reached=%s ran=%s\n%s" % (rc, reached, names, out))
        if not reached:
            raise HarnessError("C10i %s: the gated command was never reached\n%s" % (what, out))
        res.count("distinct_nontrivial")
        if rc == 0:
            res.violate("C10.interrupted-build-reports-success", "%s: llbuild exited 0 after SIGINT" % what, spec)
        down = sc.desc.consumers_closure({gated})
        leaked = [n for n in names if n in down]
        if leaked:
            res.violate("C10.consumer-of-cancelled-command-ran", "%s: consumer(s) %s of the cancelled command executed" % (
                what, ",".join(leaked)), spec)
        sc.sb.set_ctl({})
        reach = {c.name for c in sc.desc.reachable_cmds("all") if c.tool == "shell"}
        converge(res, sc, spec, what, {"failed": [gated], "down": sorted(down & reach)}, "sigint", verbose)
        if len(res.samples) < 6:
            res.sample({"family": fam.id, "mode": mode, "interrupted_while": gated, "build": k, "rc": rc, "ran": names})
    finally:
        sc.close()


def families_for(tier):
    fams = [f for f in c10_families() if f.quick or tier == "thorough"]
    if tier == "thorough":
        # the base descriptions of the C08 families as well (those free of the C08 findings, so that a C08 defect
        # is not reported a second time as a C10 non-convergence)
        for f in F.all_families():
            if f.id in ("typedir", "modout", "default", "nodetype"):
                continue
            fs = [s for s in f.sources]
            fams.append(F.Family("w-" + f.id, [f.descs[0]], fs, [], ["all"], init=f.init))
    return fams


def items(tier):
    fams = families_for(tier)
    kinds = KINDS_THOROUGH if tier == "thorough" else KINDS_QUICK
    out = []
    # simplest first: by size of the failing set
    for size in range(1, 5):
        for fam in fams:
            names = [c.name for c in shell_cmds(fam.descs[0])]
            for fail in itertools.combinations(names, size):
                for kind in kinds:
                    for k in (0, 1, 2):
                        for mode in ("serial", "par"):
                            # retry 2: the repair comes together with an edit of every source, so commands that ran
                            # successfully in the failing build have to run again as well
                            for retry in ((0, 1, 2) if tier == "thorough" or k == 1 else ((0, 2) if kind == "exit1-after" and mode == "serial" else (0,))):
                                out.append(("f", fam, mode, list(fail), kind, k, retry))
    for fam in fams:
        for c in shell_cmds(fam.descs[0]):
            for k in ((0, 1, 2) if tier == "thorough" else (0, 1)):
                for mode in ("serial", "par"):
                    out.append(("i", fam, mode, c.name, k))
    return out, fams, kinds


def simpler_items(it):
    """Simpler variants of a failing item, simplest first."""
    _, fam, mode, fail, kind, k, retry = it
    out = []
    for f in [[x] for x in fail] + [fail]:
        for kk in sorted({0, k}):
            for rr in sorted({0, retry}):
                for mm in (["serial", mode] if mode != "serial" else ["serial"]):
                    cand = ("f", fam, mm, f, kind, kk, rr)
                    if cand != it and cand not in out:
                        out.append(cand)
    return out


def run(args, res):
    its, fams, kinds = items(args.tier)
    for idx, it in enumerate(its):
        if (idx + args.seed) % args.nshards != args.shard:
            continue
        if args.over_budget():
            res.exhaustive = False
            break
        before = dict(res.per_class)
        nv = len(res.violations)
        if it[0] == "f":
            run_item(res, *it[1:])
            # first occurrence of a class in this shard: report the simplest item that shows the same class
            for v in res.violations[nv:]:
                if before.get(v["class"], 0) == 0:
                    for cand in simpler_items(it):
                        tmp = wx.Result()
                        run_item(tmp, *cand[1:])
                        hit = [t for t in tmp.violations if t["class"] == v["class"]]
                        if hit:
                            v["what"], v["replay"] = hit[0]["what"], hit[0]["replay"]
                            break
        else:
            run_interrupt(res, *it[1:])
    res.count("clean_build_crosschecks", ORACLE.checks)
    ORACLE.checks = 0
    res.strings["rule"] = (
        "%d descriptions (<= 4 shell commands; file, virtual, directory, multi-output, phony-gate edges) x every non-empty "
        "subset of shell commands directed to fail through the vcmd control file x kind {%s} x index k in {0,1,2} of the "
        "failing build (k ordinary builds with source edits before it) x {--serial,-j4} x {repair at once, one unrepaired "
        "retry first%s}; then repair and rebuild; plus SIGINT to llbuild while each single command is blocked on a FIFO gate "
        "(k in %s); evaluations = failing/interrupted builds judged; distinct_nontrivial = those in which a directed command "
        "was actually reached" % (len(fams), ", ".join(kinds), "" if args.tier == "thorough" else " (quick: only for k=1)",
                                  "{0,1,2}" if args.tier == "thorough" else "{0,1}"))
    res.assumptions.append("`exit1` fails before writing, `exit1-after` after writing all outputs, `kill`/`kill-after` raise SIGKILL "
                           "in the command itself, `term-after`/`segv-after`/`abrt` make it die of SIGTERM/SIGSEGV (after writing) or SIGABRT (before), `need` refuses because an undeclared file is missing (repair creates it), "
                           "`unwritable` obstructs the command's last file output with a directory (or a file for a directory output)")
    res.assumptions.append("the basic frontend cancels the build at the first command failure, so in a failing build only the commands "
                           "actually started (exec.log) are judged; only shell commands are observable in exec.log")


def replay(res, parts):
    fams = {f.id: f for f in families_for("thorough")}
    if parts[0] == "C10":
        run_item(res, fams[parts[1]], parts[2], parts[3].split("+"), parts[4], int(parts[5]), int(parts[6]), verbose=True)
    else:
        run_interrupt(res, fams[parts[1]], parts[2], parts[3], int(parts[4]), verbose=True)

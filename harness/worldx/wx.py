"""wx: shared machinery of the worldx on-disk history explorer (DESIGN.md 4.5).

Reusable pieces (import wx):

  Sandbox      a fresh directory under /dev/shm/verif-worldx-<pid>/<n>/ with the
               logical clock (.vclock, flock-protected, shared with vcmd), edit
               primitives that always change content AND take a fresh logical
               mtime, the vcmd control file, exec.log observation and a
               `build()` that runs the real `llbuild buildsystem build` in a new
               process.
  Cmd / Desc   the description DSL (shell-via-vcmd, phony, mkdir, symlink;
               file / virtual <v> / directory d/ nodes; several outputs; several
               targets) and `Desc.yaml()` rendering to llbuild's description.
               Variant helpers: retag, remove, add, rewire, replace.
  evaluate()   the reference evaluator: expected contents of every output
               reachable from a target given the files no command produces.
  CleanOracle  memoised cross-check of the evaluator against a real clean build
               (fresh sandbox, no database, empty output tree); a disagreement is
               a harness error (exit 3), never a verdict.
  World        Sandbox + current description + event application + judged build.
  Result/Args  the harness-contract result JSON and command line.

Nothing here depends on the property being checked.
"""
import errno
import fcntl
import json
import os
import shutil
import signal
import subprocess
import sys
import time

LLBUILD = os.environ.get("VERIF_LLBUILD", "/verif/build/repo-verif/bin/llbuild")
HBIN = os.environ.get("VERIF_WORLDX_BIN", "/verif/build/harness/worldx")
VCMD = os.path.join(HBIN, "vcmd")
SIGX = os.path.join(HBIN, "sigx")
BASE_SEC = 1000000000
SCRATCH = "/dev/shm/verif-worldx-%d" % os.getpid()

BUILD_ENV = {"PATH": "/usr/bin:/bin", "LLBUILD_TEST": "1", "LANG": "C"}


class HarnessError(Exception):
    pass


def popen_retry(argv, **kw):
    """Popen that survives the tool binary being relinked by a concurrent build of /repo
    (ENOENT / EACCES / ETXTBSY for a moment); anything longer is a harness error."""
    for attempt in range(100):
        try:
            return subprocess.Popen(argv, **kw)
        except (PermissionError, FileNotFoundError, OSError) as e:
            if attempt == 99 or e.errno not in (errno.EACCES, errno.ENOENT, errno.ETXTBSY):
                raise HarnessError("cannot execute %s: %s" % (argv[0], e))
            time.sleep(0.1)


# --------------------------------------------------------------------------
# node kinds (by naming convention, as llbuild infers them)
def is_virtual(n):
    return len(n) >= 2 and n[0] == "<" and n[-1] == ">"


def is_dirnode(n):
    return n.endswith("/")


# --------------------------------------------------------------------------
class Sandbox:
    _n = 0

    def __init__(self, sub=None):
        Sandbox._n += 1
        self.root = os.path.join(SCRATCH, sub or str(Sandbox._n))
        if os.path.exists(self.root):
            shutil.rmtree(self.root)
        os.makedirs(self.root)
        with open(self.p(".vclock"), "w") as f:
            f.write("%019d\n" % 0)
        self.log_off = 0
        self.builds = 0

    def p(self, rel):
        return os.path.join(self.root, rel)

    def destroy(self):
        shutil.rmtree(self.root, ignore_errors=True)

    # ---- logical clock ---------------------------------------------------
    def tick(self):
        fd = os.open(self.p(".vclock"), os.O_RDWR)
        try:
            fcntl.flock(fd, fcntl.LOCK_EX)
            v = int(os.pread(fd, 31, 0).split()[0] or b"0") + 1
            os.pwrite(fd, b"%019d\n" % v, 0)
            fcntl.flock(fd, fcntl.LOCK_UN)
        finally:
            os.close(fd)
        return v

    def stamp(self, rel):
        t = self.tick()
        ns = (BASE_SEC + t // 1000) * 1000000000 + (t % 1000) * 1000000
        os.utime(self.p(rel), ns=(ns, ns), follow_symlinks=False)

    def _stamp_parent(self, rel):
        # creating / deleting an entry changes the parent directory's kernel
        # mtime; give it a logical one so that the change is observable
        # regardless of timestamp granularity.  (In-place rewrites do not touch
        # the parent, exactly as on a real file system.)
        d = os.path.dirname(rel.rstrip("/"))
        if d and os.path.isdir(self.p(d)):
            self.stamp(d)

    # ---- edits -----------------------------------------------------------
    def write(self, rel, content):
        """Write CONTENT to REL in place (inode kept) and stamp it."""
        path = self.p(rel)
        existed = os.path.lexists(path)
        if existed and (os.path.islink(path) or os.path.isdir(path)):
            self.delete(rel)
            existed = False
        if not existed:
            d = os.path.dirname(path)
            if not os.path.isdir(d):
                os.makedirs(d)
        with open(path, "w") as f:
            f.write(content)
        self.stamp(rel)
        if not existed:
            self._stamp_parent(rel)

    def delete(self, rel):
        path = self.p(rel.rstrip("/"))
        if not os.path.lexists(path):
            return False
        if os.path.isdir(path) and not os.path.islink(path):
            shutil.rmtree(path)
        else:
            os.unlink(path)
        self._stamp_parent(rel)
        return True

    def mkdir(self, rel):
        os.makedirs(self.p(rel), exist_ok=True)
        self.stamp(rel)

    # ---- observation -----------------------------------------------------
    def read(self, rel):
        """File content, directory listing (vcmd's canonical form), '@target'
        for a dangling symlink, None if missing.  Follows symlinks like vcmd."""
        return read_path(self.p(rel.rstrip("/") if len(rel) > 1 else rel))

    def lread(self, rel):
        """Like read() but does not follow a final symlink."""
        path = self.p(rel.rstrip("/"))
        if os.path.islink(path):
            return "@" + os.readlink(path)
        return read_path(path)

    def statkey(self, rel):
        try:
            st = os.stat(self.p(rel.rstrip("/")))
        except OSError:
            return None
        return (st.st_ino, st.st_size, st.st_mtime_ns)

    def new_exec(self):
        """Lines appended to exec.log since the last call."""
        try:
            with open(self.p("exec.log")) as f:
                f.seek(self.log_off)
                data = f.read()
                self.log_off = f.tell()
        except FileNotFoundError:
            return []
        return data.split()

    # ---- control file ------------------------------------------------------
    def set_ctl(self, entries):
        """entries: {TAG: 'kind' | 'kind arg'}; empty removes the file."""
        path = self.p(".vctl")
        if not entries:
            if os.path.exists(path):
                os.unlink(path)
            return
        with open(path, "w") as f:
            for k in sorted(entries):
                f.write("%s %s\n" % (k, entries[k]))

    # ---- the tool ----------------------------------------------------------
    def build_argv(self, target, mode, db=True):
        a = [LLBUILD, "buildsystem", "build"]
        a += ["--serial"] if mode == "serial" else ["-j4"]
        a += ["-f", "build.llbuild"]
        a += ["--db", "build.db"] if db else ["--no-db"]
        if target:
            a.append(target)
        return a

    def build(self, target, mode="serial", db=True, timeout=30):
        """Run one build in a new process. Returns (rc, output, executed tags)."""
        self.new_exec()
        self.builds += 1
        proc = popen_retry(self.build_argv(target, mode, db), cwd=self.root, env=BUILD_ENV,
                           stdin=subprocess.DEVNULL, stdout=subprocess.PIPE, stderr=subprocess.STDOUT)
        try:
            out = proc.communicate(timeout=timeout)[0]
        except subprocess.TimeoutExpired:
            proc.kill()
            raise HarnessError("llbuild timed out in %s" % self.root)
        return proc.returncode, out.decode("utf-8", "replace"), self.new_exec()

    def build_interrupted(self, target, mode, timeout=30):
        """Run a build, wait until a gated vcmd reports ready on .gate.ready, send
        SIGINT to llbuild, release the gate, wait.  Returns (rc, output, executed, gated)
        where gated says whether a gated command was actually reached."""
        self.new_exec()
        self.builds += 1
        for f in (".gate.ready", ".gate.go"):
            if not os.path.exists(self.p(f)):
                os.mkfifo(self.p(f))
        proc = popen_retry(self.build_argv(target, mode), cwd=self.root, env=BUILD_ENV,
                           stdin=subprocess.DEVNULL, stdout=subprocess.PIPE, stderr=subprocess.STDOUT)
        rfd = os.open(self.p(".gate.ready"), os.O_RDONLY | os.O_NONBLOCK)
        gated = False
        t0 = time.time()
        try:
            while time.time() - t0 < timeout:
                try:
                    b = os.read(rfd, 1)
                except BlockingIOError:
                    b = b""
                if b:
                    gated = True
                    break
                if proc.poll() is not None:
                    break
                time.sleep(0.0005)
            if gated:
                proc.send_signal(signal.SIGINT)
                # release only after the tool had a chance to deliver the
                # signal; the gated command dies from the SIGINT the tool
                # forwards to its process group.
                try:
                    proc.wait(timeout=timeout)
                except subprocess.TimeoutExpired:
                    proc.kill()
                    raise HarnessError("llbuild did not exit after SIGINT in %s" % self.root)
            # release any vcmd still blocked on the gate
            try:
                wfd = os.open(self.p(".gate.go"), os.O_WRONLY | os.O_NONBLOCK)
                os.close(wfd)
            except OSError as e:
                if e.errno != errno.ENXIO:
                    raise
            out = proc.communicate(timeout=timeout)[0]
        finally:
            os.close(rfd)
            if proc.poll() is None:
                proc.kill()
        return proc.returncode, out.decode("utf-8", "replace"), self.new_exec(), gated


def listing(path):
    out = []
    for name in sorted(os.listdir(path)):
        q = os.path.join(path, name)
        if os.path.islink(q):
            out.append(name + "=@" + os.readlink(q))
        elif os.path.isdir(q):
            out.append(name + "=" + listing(q))
        else:
            with open(q) as f:
                out.append(name + "=" + f.read())
    return "{" + ",".join(out) + "}"


def read_path(path):
    try:
        if os.path.isdir(path):
            return listing(path)
        with open(path, errors="replace") as f:
            return f.read()
    except (FileNotFoundError, NotADirectoryError):
        if os.path.islink(path):
            return None  # dangling: vcmd cannot read it either
        return None


# --------------------------------------------------------------------------
# description DSL
class Cmd:
    """One command.  tool in {shell, phony, mkdir, symlink}.
    ins/outs: declared node names.  reads: the declared inputs vcmd actually
    reads (default: every non-virtual input); attrs: extra YAML attributes
    (strings); tag: vcmd TAG (default: name); contents: symlink target;
    extras: undeclared files read through `-x` (discovered dependencies),
    deps: (path, style) of the dependency file vcmd writes."""

    def __init__(self, name, ins=(), outs=(), tool="shell", tag=None, reads=None, attrs=None, contents=None,
                 extras=(), deps=None, env=None, raw_args=None, names_only=False):
        self.name = name
        self.names_only = names_only      # vcmd -s: directory inputs contribute their structure only
        self.tool = tool
        self.ins = list(ins)
        self.outs = list(outs)
        self.tag = tag if tag is not None else name
        self.reads = list(reads) if reads is not None else None
        self.attrs = dict(attrs or {})
        self.contents = contents
        self.extras = list(extras)
        self.deps = deps
        self.env = list(env) if env else None  # list of (k, v): order matters for the signature
        self.raw_args = raw_args
        if self.reads is not None and not set(self.reads) <= set(self.ins):
            raise HarnessError("command %s reads undeclared inputs" % name)

    def copy(self, **kw):
        c = Cmd(self.name, self.ins, self.outs, self.tool, self.tag, self.reads, self.attrs, self.contents,
                self.extras, self.deps, self.env, self.raw_args, self.names_only)
        for k, v in kw.items():
            setattr(c, k, v)
        return c

    def get_reads(self):
        if self.reads is not None:
            return self.reads
        return [n for n in self.ins if not is_virtual(n)]

    def allow_missing(self):
        return self.attrs.get("allow-missing-inputs") == "true"

    def always(self):
        return self.attrs.get("always-out-of-date") == "true"

    def file_outs(self):
        return [o for o in self.outs if not is_virtual(o)]

    def args(self):
        if self.raw_args is not None:
            return self.raw_args
        a = [VCMD, "cat", self.tag]
        if self.allow_missing():
            a.append("-m")
        if self.names_only:
            a.append("-s")
        if self.attrs.get("x-link-outputs"):
            a.append("-L")
        if self.deps:
            flag = "-d" if self.deps[1].startswith("makefile") else "-i"
            paths = [self.deps[0]] if isinstance(self.deps[0], str) else list(self.deps[0])
            if len(paths) > 1:
                a.append("-p")   # several dependency files: each names its own share of the extras
            for dp in paths:
                a += [flag, dp]
        for x in self.extras:
            a += ["-x", x]
        dirouts = self.attrs.get("x-dir-out", ())
        a += [o + "/" if o in dirouts else o for o in self.file_outs()]   # x-dir-out: a directory under a plain node name
        a.append("--")
        a += self.get_reads()
        return a


def yq(s):
    return json.dumps(s)


class Desc:
    def __init__(self, did, cmds, targets, nodes=None, default=None, fs=None):
        self.id = did
        self.cmds = list(cmds)
        self.targets = dict(targets)          # name -> [nodes]
        self.nodes = dict(nodes or {})        # node -> {attr: value}
        self.default = default
        self.fs = fs                          # client `file-system:` (None: key absent = default mode)
        self._prod = None

    def copy(self, did):
        return Desc(did, [c.copy() for c in self.cmds], {k: list(v) for k, v in self.targets.items()},
                    {k: dict(v) for k, v in self.nodes.items()}, self.default, self.fs)

    def cmd(self, name):
        for c in self.cmds:
            if c.name == name:
                return c
        raise KeyError(name)

    def producer(self, node):
        if self._prod is None:
            self._prod = {}
            for c in self.cmds:
                for o in c.outs:
                    self._prod[o] = c
            # a directory created under a plain node name `t` is what the directory-tree node `t/` lists
            for c in self.cmds:
                for o in c.attrs.get("x-dir-out", ()):
                    self._prod.setdefault(o + "/", c)
        return self._prod.get(node)

    def node_is_dir(self, n):
        a = self.nodes.get(n, {})
        if a.get("is-directory") == "true":
            return True
        return is_dirnode(n) and a.get("is-directory") != "false"

    def node_is_dirlike(self, n):
        """Directory or directory-structure node: a missing one is not a 'missing input' for llbuild."""
        a = self.nodes.get(n, {})
        if a.get("type") in ("directory", "plain", "virtual"):
            return False      # explicit type: BuildNode.cpp maps `directory` to Plain (D10)
        if a.get("is-directory-structure") == "true" or a.get("type") == "directory-structure":
            return True
        return self.node_is_dir(n)

    def all_nodes(self):
        s = []
        for c in self.cmds:
            for n in c.ins + c.outs:
                if n not in s:
                    s.append(n)
        for t in self.targets.values():
            for n in t:
                if n not in s:
                    s.append(n)
        return s

    def reachable_cmds(self, target):
        """Commands reachable from TARGET in dependency order (producers first)."""
        order, seen = [], set()

        def visit(node):
            c = self.producer(node)
            if c is None or c.name in seen:
                return
            seen.add(c.name)
            for i in c.ins:
                visit(i)
            order.append(c)

        for n in self.targets[target]:
            visit(n)
        return order

    def consumers_closure(self, names):
        """Names of commands that directly or transitively consume an output of NAMES (excluding NAMES unless downstream)."""
        dirty_nodes = set()
        for c in self.cmds:
            if c.name in names:
                dirty_nodes.update(c.outs)
        res = set()
        changed = True
        while changed:
            changed = False
            for c in self.cmds:
                if c.name in res:
                    continue
                if any(i in dirty_nodes for i in c.ins):
                    res.add(c.name)
                    dirty_nodes.update(c.outs)
                    changed = True
        return res

    def yaml(self):
        L = ["client:", "  name: basic"]
        if self.fs is not None:
            L.append("  file-system: %s" % self.fs)
        L.append("targets:")
        for t in self.targets:
            L.append("  %s: [%s]" % (yq(t), ", ".join(yq(n) for n in self.targets[t])))
        if self.default is not None:
            L.append("default: %s" % yq(self.default))
        if self.nodes:
            L.append("nodes:")
            for n, attrs in self.nodes.items():
                L.append("  %s:" % yq(n))
                for k, v in attrs.items():
                    L.append("    %s: %s" % (k, v if isinstance(v, str) and v in ("true", "false") else yq(v)))
        L.append("commands:")
        for c in self.cmds:
            L.append("  %s:" % yq(c.name))
            L.append("    tool: %s" % c.tool)
            if "description" in c.attrs:
                L.append("    description: %s" % yq(c.attrs["description"]))
            L.append("    inputs: [%s]" % ", ".join(yq(n) for n in c.ins))
            L.append("    outputs: [%s]" % ", ".join(yq(n) for n in c.outs))
            if c.tool == "shell":
                a = c.args()
                if isinstance(a, str):
                    L.append("    args: %s" % yq(a))
                else:
                    L.append("    args: [%s]" % ", ".join(yq(x) for x in a))
                if c.env is not None:
                    L.append("    env:")
                    for k, v in c.env:
                        L.append("      %s: %s" % (yq(k), yq(v)))
                if c.deps:
                    d = c.deps[0]
                    L.append("    deps: %s" % (yq(d) if isinstance(d, str) else "[%s]" % ", ".join(yq(x) for x in d)))
                    if c.deps[1]:
                        L.append("    deps-style: %s" % c.deps[1])
            if c.tool == "symlink":
                L.append("    contents: %s" % yq(c.contents))
            for k, v in c.attrs.items():
                if k != "description" and not k.startswith("x-"):
                    L.append("    %s: %s" % (k, v if v in ("true", "false") else yq(v)))
        return "\n".join(L) + "\n"


# ---- variant helpers (each returns a new Desc) ------------------------------
def retag(d, did, name, tag=None):
    n = d.copy(did)
    c = n.cmd(name)
    c.tag = tag or (c.tag + "'")
    return n


def remove(d, did, name):
    n = d.copy(did)
    n.cmds = [c for c in n.cmds if c.name != name]
    return n


def add(d, did, cmd, targets=None):
    n = d.copy(did)
    n.cmds.append(cmd)
    for t, nodes in (targets or {}).items():
        n.targets[t] = n.targets.get(t, []) + list(nodes)
    return n


def rewire(d, did, name, old, new):
    n = d.copy(did)
    c = n.cmd(name)
    c.ins = [new if x == old else x for x in c.ins]
    if c.reads is not None:
        c.reads = [new if x == old else x for x in c.reads]
    return n


def replace(d, did, cmd):
    n = d.copy(did)
    n.cmds = [cmd if c.name == cmd.name else c for c in n.cmds]
    return n


# --------------------------------------------------------------------------
# reference evaluator
class Expect:
    def __init__(self):
        self.ok = True
        self.why = ""
        self.outputs = {}   # path (node name) -> expected observation string
        self.kinds = {}     # path -> 'file' | 'dir' | 'mkdir' | 'symlink'
        self.payload = {}   # command name -> payload


def evaluate(desc, disk, target):
    """Expected result of a clean build of TARGET.

    disk(path) -> content / canonical listing / None for the files no command
    produces.  Semantics (what vcmd implements): a shell command writes
    TAG(read1,read2,...[;x=extra]...) to each file output, {f=payload} to each
    directory output; virtual inputs are ordering only; a missing source input
    fails the build unless the consumer allows missing inputs (then '!').
    """
    ex = Expect()
    memo = {}

    class Fail(Exception):
        pass

    def render_read(c, n):
        p = desc.producer(n)
        if p is None:
            v = disk(n)
            if v is None:
                if c.allow_missing():
                    return "!"
                raise Fail("missing input %s of %s" % (n, c.name))
            if c.names_only and v.startswith("{"):
                return structure_of(v)
            return v
        run(p)
        if p.tool == "shell":
            return "{f=%s}" % memo[p.name] if desc.node_is_dir(n) else memo[p.name]
        if p.tool == "symlink":
            tgt = p.contents
            tp = desc.producer(tgt)
            if tp is not None:
                run(tp)
                return memo[tp.name]
            v = disk(tgt)
            if v is None:
                if c.allow_missing():
                    return "!"
                raise Fail("dangling link %s read by %s" % (n, c.name))
            return v
        raise HarnessError("command %s reads %s produced by a %s command" % (c.name, n, p.tool))

    def run(c):
        if c.name in memo:
            if memo[c.name] is None:
                raise HarnessError("cycle through %s in %s" % (c.name, desc.id))
            return
        memo[c.name] = None
        for n in c.ins:
            p = desc.producer(n)
            if p is not None:
                run(p)
            elif not is_virtual(n) and disk(n) is None and not c.allow_missing():
                # llbuild refuses to run a command with a missing plain input; a missing directory-tree
                # input merely has the "missing" signature and the command itself (vcmd) fails on reading it
                if not desc.node_is_dirlike(n) or n in c.get_reads():
                    raise Fail("missing input %s of %s" % (n, c.name))
        payload = ""
        if c.tool == "shell":
            parts = [render_read(c, n) for n in c.get_reads()]
            payload = c.tag + "(" + ",".join(parts)
            for x in c.extras:
                v = disk(x) if desc.producer(x) is None else render_read(c, x)
                payload += ";" + x + "=" + ("!" if v is None else v)
            payload += ")"
            for o in c.file_outs():
                if desc.node_is_dir(o) or is_dirnode(o) or o in c.attrs.get("x-dir-out", ()):
                    ex.outputs[o] = "{f=%s}" % payload
                    ex.kinds[o] = "dir"
                else:
                    ex.outputs[o] = payload
                    ex.kinds[o] = "file"
        elif c.tool == "mkdir":
            ex.outputs[c.outs[0]] = "DIR"
            ex.kinds[c.outs[0]] = "mkdir"
        elif c.tool == "symlink":
            ex.outputs[c.outs[0]] = "@" + c.contents
            ex.kinds[c.outs[0]] = "symlink"
        elif c.tool == "archive":
            # `ar cr OUT inputs...` on a fresh file: exactly the inputs, in order, under their base names
            ex.outputs[c.outs[0]] = "AR{" + ",".join(os.path.basename(n) + "=" + render_read(c, n) for n in c.ins if not is_virtual(n)) + "}"
            ex.kinds[c.outs[0]] = "archive"
        memo[c.name] = payload
        ex.payload[c.name] = payload

    try:
        for n in desc.targets[target]:
            p = desc.producer(n)
            if p is not None:
                run(p)
            elif not is_virtual(n) and disk(n) is None and not desc.node_is_dirlike(n):
                raise Fail("missing target node %s" % n)
    except Fail as f:
        ex.ok = False
        ex.why = str(f)
    return ex


def structure_of(listing_str):
    """Names-only rendering (vcmd -s) of a canonical listing."""
    def r(t):
        return "{" + ",".join(k + ("=" + r(v) if isinstance(v, dict) else "") for k, v in t.items()) + "}"
    return r(parse_listing(listing_str))


def observe(sb, path, kind):
    if kind == "mkdir":
        full = sb.p(path.rstrip("/"))
        return "DIR" if os.path.isdir(full) and not os.path.islink(full) else sb.lread(path)
    if kind == "symlink":
        return sb.lread(path)
    if kind == "archive":
        return read_archive(sb.p(path))
    return sb.read(path)


def read_archive(full):
    """Members of a System V `ar` archive in order: 'AR{name=contents,...}' (None if missing, '<not an archive>' otherwise)."""
    try:
        data = open(full, "rb").read()
    except OSError:
        return None
    if not data.startswith(b"!<arch>\n"):
        return "<not an archive>"
    off, out, longnames = 8, [], b""
    while off + 60 <= len(data):
        h = data[off:off + 60]
        name = h[:16].decode("latin-1").rstrip()
        try:
            size = int(h[48:58].decode("latin-1").strip())
        except ValueError:
            return "<not an archive>"
        body = data[off + 60:off + 60 + size]
        off += 60 + size + (size & 1)
        if name == "/":            # symbol table
            continue
        if name == "//":           # long-name table
            longnames = body
            continue
        if name.startswith("/") and name[1:].isdigit():
            i = int(name[1:])
            name = longnames[i:longnames.index(b"/\n", i)].decode("latin-1")
        elif name.endswith("/"):
            name = name[:-1]
        out.append(name + "=" + body.decode("latin-1"))
    return "AR{" + ",".join(out) + "}"


# --------------------------------------------------------------------------
class CleanOracle:
    """Cross-check evaluate() against a real clean build, once per
    (description text, target, relevant source state)."""

    def __init__(self):
        self.memo = {}
        self.checks = 0

    def source_paths(self, desc, target):
        paths = []
        for c in desc.reachable_cmds(target):
            for n in list(c.ins) + list(c.extras) + ([c.contents] if c.tool == "symlink" else []):
                if not is_virtual(n) and desc.producer(n) is None and n not in paths:
                    paths.append(n)
        for n in desc.targets[target]:
            if not is_virtual(n) and desc.producer(n) is None and n not in paths:
                paths.append(n)
        return paths

    def expect(self, desc, sb, target):
        """Reference for the current on-disk sources of SB; verified against a clean build."""
        srcs = self.source_paths(desc, target)
        state = tuple((p, sb.read(p)) for p in srcs)
        key = (desc.yaml(), target, state)
        if key in self.memo:
            return self.memo[key]
        disk = dict(state)
        ex = evaluate(desc, lambda p: disk.get(p, None), target)
        self.verify(desc, target, state, ex)
        self.memo[key] = ex
        return ex

    def verify(self, desc, target, state, ex):
        self.checks += 1
        cs = Sandbox("clean")
        try:
            for p, v in state:
                if v is None:
                    continue
                if v.startswith("{"):
                    write_tree(cs, p.rstrip("/"), v)
                else:
                    cs.write(p, v)
            cs.write("build.llbuild", desc.yaml())
            rc, out, ran = cs.build(target, "serial", db=False)
            if (rc == 0) != ex.ok:
                raise HarnessError("reference/clean-build disagreement on success: desc=%s target=%s sources=%r "
                                   "reference ok=%s (%s) clean rc=%d\n%s" % (desc.id, target, state, ex.ok, ex.why, rc, out))
            if rc == 0:
                for path, want in ex.outputs.items():
                    got = observe(cs, path, ex.kinds[path])
                    if got != want:
                        raise HarnessError("reference/clean-build disagreement: desc=%s target=%s sources=%r output %s: "
                                           "reference %r clean build %r\n%s" % (desc.id, target, state, path, want, got, out))
        finally:
            cs.destroy()


def parse_listing(s):
    """Inverse of listing() for flat/nested trees of files: returns dict name -> str | dict."""
    assert s[0] == "{"
    i = 1
    out = {}

    def parse(i):
        d = {}
        if s[i] == "}":
            return d, i + 1
        while True:
            j = s.index("=", i)
            name = s[i:j]
            i = j + 1
            if s[i] == "{":
                v, i = parse(i + 1)
            else:
                # value runs to the next ',' or '}' at depth 0 of parentheses
                depth = 0
                j = i
                while j < len(s) and not (depth == 0 and s[j] in ",}"):
                    if s[j] in "({":
                        depth += 1
                    elif s[j] in ")}":
                        depth -= 1
                    j += 1
                v = s[i:j]
                i = j
            d[name] = v
            if s[i] == "}":
                return d, i + 1
            i += 1

    out, _ = parse(1)
    return out


def write_tree(sb, rel, listing_str):
    tree = parse_listing(listing_str)

    def w(prefix, t):
        os.makedirs(sb.p(prefix), exist_ok=True)
        for k, v in t.items():
            if isinstance(v, dict):
                w(prefix + "/" + k, v)
            elif v.startswith("@"):
                os.symlink(v[1:], sb.p(prefix + "/" + k))
            else:
                sb.write(prefix + "/" + k, v)
        sb.stamp(prefix)

    w(rel, tree)


# --------------------------------------------------------------------------
class Result:
    """Result JSON of the harness contract."""

    def __init__(self, max_per_class=5):
        self.counters = {}
        self.strings = {}
        self.samples = []
        self.assumptions = []
        self.violations = []
        self.per_class = {}
        self.exhaustive = True
        self.max_per_class = max_per_class
        self.sets = {}

    def count(self, k, n=1):
        self.counters[k] = self.counters.get(k, 0) + n

    def max_of(self, k, n):
        if self.counters.get(k, -1) < n:
            self.counters[k] = n

    def distinct(self, k, item):
        self.sets.setdefault(k, set()).add(item)

    def sample(self, obj, cap=6):
        if len(self.samples) < cap:
            self.samples.append(obj)

    def violate(self, cls, what, spec):
        n = self.per_class.get(cls, 0) + 1
        self.per_class[cls] = n
        self.count("violations_raw")
        if n <= self.max_per_class:
            # the class is part of the spec so that a replay reports exactly this finding
            self.violations.append({"class": cls, "what": what, "replay": {"spec": spec + " #" + cls}})
        return n

    def write(self, path):
        cov = dict(self.counters)
        for k, s in self.sets.items():
            cov[k] = len(s)
        cov.update(self.strings)
        cov["samples"] = self.samples
        cov["exhaustive"] = self.exhaustive
        doc = {"coverage": cov, "assumptions": self.assumptions, "violations": self.violations}
        tmp = path + ".tmp"
        with open(tmp, "w") as f:
            json.dump(doc, f, indent=1)
        os.replace(tmp, path)


class Args:
    def __init__(self, argv):
        self.prop = ""
        self.tier = "quick"
        self.shard = 0
        self.nshards = 1
        self.out = "/dev/stdout"
        self.seed = 0
        self.budget = 120.0
        self.replay = None
        self.extra = {}
        self.t0 = time.time()
        i = 1
        while i < len(argv):
            a = argv[i]
            v = argv[i + 1] if i + 1 < len(argv) else ""
            if a == "--prop":
                self.prop = v
            elif a == "--tier":
                self.tier = v
            elif a == "--shard":
                self.shard = int(v)
            elif a == "--nshards":
                self.nshards = int(v)
            elif a == "--out":
                self.out = v
            elif a == "--seed":
                self.seed = int(v)
            elif a == "--budget":
                self.budget = float(v)
            elif a == "--replay-spec":
                self.replay = v
            elif a.startswith("--x-"):
                self.extra[a[4:]] = v
            else:
                raise SystemExit("unknown argument %s" % a)
            i += 2

    def thorough(self):
        return self.tier == "thorough"

    def over_budget(self):
        return time.time() - self.t0 > self.budget


def cleanup():
    shutil.rmtree(SCRATCH, ignore_errors=True)

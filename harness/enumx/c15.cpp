// C15: BuildKey / BuildValue encode canonically and decode losslessly.
//
// Every key / value inside the stated bounds is described by an abstract `Desc` (kind + every
// field), built through the public constructors, encoded with toData(), decoded with fromData()
// and checked:
//   * every accessor of the decoded object reproduces the Desc            (lossless)
//   * re-encoding the decoded object / a copy / a second fresh build gives the same bytes (canonical)
//   * a map  encoded bytes -> Desc  never sees two different Descs        (injective, across ALL kinds)
//   * the kind tag is the one of the kind, tags are pairwise distinct, and no isXxx() predicate of
//     another kind answers true.
// Sharding: every shard walks the whole enumeration (building + encoding is cheap); the accessor
// checks of item i are done by shard i % N, the injectivity map entry of an encoding e is owned by
// shard fnv1a(e) % N, so N shards together check global injectivity exactly once.
#include "enumx.h"

#include "llbuild/Basic/FileInfo.h"
#include "llbuild/Basic/Hashing.h"
#include "llbuild/Basic/StringList.h"
#include "llbuild/BuildSystem/BuildKey.h"
#include "llbuild/BuildSystem/BuildValue.h"

#include <functional>
#include <unordered_map>

using namespace enumx;
using namespace llbuild;
using namespace llbuild::buildsystem;
using llbuild::basic::FileInfo;
using llbuild::basic::StringList;
using llbuild::basic::CommandSignature;

namespace {

typedef BuildKey::Kind KK;
typedef BuildValue::Kind VK;

const KK kKeyKinds[] = {KK::Command, KK::CustomTask, KK::DirectoryContents, KK::FilteredDirectoryContents,
                        KK::DirectoryTreeSignature, KK::DirectoryTreeStructureSignature, KK::Node, KK::Stat, KK::Target};
const char* keyKindName(KK k) {
  switch (k) {
  case KK::Command: return "Command";
  case KK::CustomTask: return "CustomTask";
  case KK::DirectoryContents: return "DirectoryContents";
  case KK::FilteredDirectoryContents: return "FilteredDirectoryContents";
  case KK::DirectoryTreeSignature: return "DirectoryTreeSignature";
  case KK::DirectoryTreeStructureSignature: return "DirectoryTreeStructureSignature";
  case KK::Node: return "Node";
  case KK::Stat: return "Stat";
  case KK::Target: return "Target";
  case KK::Unknown: return "Unknown";
  }
  return "?";
}
const VK kValueKinds[] = {VK::Invalid, VK::VirtualInput, VK::ExistingInput, VK::MissingInput, VK::DirectoryContents,
                          VK::DirectoryTreeSignature, VK::DirectoryTreeStructureSignature, VK::StaleFileRemoval,
                          VK::MissingOutput, VK::FailedInput, VK::SuccessfulCommand, VK::FailedCommand,
                          VK::PropagatedFailureCommand, VK::CancelledCommand, VK::SkippedCommand, VK::Target,
                          VK::FilteredDirectoryContents, VK::SuccessfulCommandWithOutputSignature};
const char* valueKindName(VK k) {
  switch (k) {
  case VK::Invalid: return "Invalid";
  case VK::VirtualInput: return "VirtualInput";
  case VK::ExistingInput: return "ExistingInput";
  case VK::MissingInput: return "MissingInput";
  case VK::DirectoryContents: return "DirectoryContents";
  case VK::DirectoryTreeSignature: return "DirectoryTreeSignature";
  case VK::DirectoryTreeStructureSignature: return "DirectoryTreeStructureSignature";
  case VK::StaleFileRemoval: return "StaleFileRemoval";
  case VK::MissingOutput: return "MissingOutput";
  case VK::FailedInput: return "FailedInput";
  case VK::SuccessfulCommand: return "SuccessfulCommand";
  case VK::FailedCommand: return "FailedCommand";
  case VK::PropagatedFailureCommand: return "PropagatedFailureCommand";
  case VK::CancelledCommand: return "CancelledCommand";
  case VK::SkippedCommand: return "SkippedCommand";
  case VK::Target: return "Target";
  case VK::FilteredDirectoryContents: return "FilteredDirectoryContents";
  case VK::SuccessfulCommandWithOutputSignature: return "SuccessfulCommandWithOutputSignature";
  }
  return "?";
}

// ---------------------------------------------------------------------------
// abstract description
struct FI {
  uint64_t f[6] = {0, 0, 0, 0, 0, 0};  // device inode mode size seconds nanoseconds
  uint8_t ck[32] = {0};
  bool operator==(const FI& o) const { return memcmp(f, o.f, sizeof f) == 0 && memcmp(ck, o.ck, 32) == 0; }
};
const char* kFieldName[6] = {"device", "inode", "mode", "size", "modTime.seconds", "modTime.nanoseconds"};

std::string u64hex(uint64_t v) { char b[24]; snprintf(b, sizeof b, "%llx", (unsigned long long)v); return b; }

std::string fiStr(const FI& fi) {
  std::string s;
  for (int i = 0; i < 6; ++i) { if (i) s += ','; s += u64hex(fi.f[i]); }
  s += ',';
  bool zero = true;
  for (int i = 0; i < 32; ++i) if (fi.ck[i]) zero = false;
  s += zero ? std::string("0") : hexs(std::string((const char*)fi.ck, 32));
  return s;
}
bool fiParse(const std::string& s, FI& fi) {
  auto p = split(s, ',');
  if (p.size() != 7) return false;
  for (int i = 0; i < 6; ++i) fi.f[i] = strtoull(p[i].c_str(), nullptr, 16);
  memset(fi.ck, 0, 32);
  if (p[6] != "0") {
    std::string b;
    if (!unhex(p[6], b) || b.size() != 32) return false;
    memcpy(fi.ck, b.data(), 32);
  }
  return true;
}
FileInfo toFileInfo(const FI& fi) {
  FileInfo r;
  r.device = fi.f[0]; r.inode = fi.f[1]; r.mode = fi.f[2]; r.size = fi.f[3];
  r.modTime.seconds = fi.f[4]; r.modTime.nanoseconds = fi.f[5];
  memcpy(r.checksum.bytes, fi.ck, 32);
  return r;
}
FI fromFileInfo(const FileInfo& r) {
  FI fi;
  fi.f[0] = r.device; fi.f[1] = r.inode; fi.f[2] = r.mode; fi.f[3] = r.size;
  fi.f[4] = r.modTime.seconds; fi.f[5] = r.modTime.nanoseconds;
  memcpy(fi.ck, r.checksum.bytes, 32);
  return fi;
}

struct Desc {
  bool isKey = true;
  int kind = 0;
  std::string name;                        // keys
  bool hasData = false; std::string data;  // CustomTask
  bool hasList = false; std::vector<std::string> list;  // key filters / value string list
  bool hasSig = false; uint64_t sig = 0;
  bool hasOut = false; std::vector<FI> outs;

  std::string kindName() const { return isKey ? keyKindName((KK)kind) : valueKindName((VK)kind); }
  std::string str() const {
    std::string s = isKey ? "K:" : "V:";
    s += kindName();
    if (isKey) s += ":N" + hexs(name);
    if (hasData) s += ":D" + hexs(data);
    if (hasSig) s += ":S" + u64hex(sig);
    if (hasOut) {
      s += ":O" + std::to_string(outs.size());
      for (auto& o : outs) s += ";" + fiStr(o);
    }
    if (hasList) {
      s += ":L" + std::to_string(list.size());
      for (auto& e : list) s += "," + hexs(e);
    }
    return s;
  }
  // human readable
  std::string pretty() const {
    std::string s = (isKey ? "key " : "value ") + kindName();
    if (isKey) s += " name=" + show(name);
    if (hasData) s += " data=" + show(data);
    if (hasSig) s += " signature=0x" + u64hex(sig);
    if (hasOut) {
      s += " outputs=[";
      for (size_t i = 0; i < outs.size(); ++i) s += (i ? " " : "") + std::string("{") + fiStr(outs[i]) + "}";
      s += "]";
    }
    if (hasList) {
      s += " list=[";
      for (size_t i = 0; i < list.size(); ++i) s += (i ? "," : "") + show(list[i]);
      s += "]";
    }
    return s;
  }
};

bool parseDesc(const std::string& s, Desc& d) {
  auto p = split(s, ':');
  if (p.size() < 2) return false;
  d = Desc();
  d.isKey = p[0] == "K";
  if (!d.isKey && p[0] != "V") return false;
  bool found = false;
  if (d.isKey) { for (KK k : kKeyKinds) if (p[1] == keyKindName(k)) { d.kind = (int)k; found = true; } }
  else { for (VK k : kValueKinds) if (p[1] == valueKindName(k)) { d.kind = (int)k; found = true; } }
  if (!found) return false;
  for (size_t i = 2; i < p.size(); ++i) {
    if (p[i].empty()) return false;
    char t = p[i][0];
    std::string rest = p[i].substr(1);
    if (t == 'N') { if (!unhex(rest, d.name)) return false; }
    else if (t == 'D') { d.hasData = true; if (!unhex(rest, d.data)) return false; }
    else if (t == 'S') { d.hasSig = true; d.sig = strtoull(rest.c_str(), nullptr, 16); }
    else if (t == 'O') {
      d.hasOut = true;
      auto q = split(rest, ';');
      size_t n = (size_t)atoi(q[0].c_str());
      if (q.size() != n + 1) return false;
      for (size_t j = 1; j <= n; ++j) { FI fi; if (!fiParse(q[j], fi)) return false; d.outs.push_back(fi); }
    } else if (t == 'L') {
      d.hasList = true;
      auto q = split(rest, ',');
      size_t n = (size_t)atoi(q[0].c_str());
      if (q.size() != n + 1) return false;
      for (size_t j = 1; j <= n; ++j) { std::string e; if (!unhex(q[j], e)) return false; d.list.push_back(e); }
    } else return false;
  }
  return true;
}

// ---------------------------------------------------------------------------
// build through the public constructors
BuildKey buildKey(const Desc& d) {
  StringList filters{ArrayRef<std::string>(d.list)};
  switch ((KK)d.kind) {
  case KK::Command: return BuildKey::makeCommand(d.name);
  case KK::CustomTask: return BuildKey::makeCustomTask(d.name, d.data);
  case KK::DirectoryContents: return BuildKey::makeDirectoryContents(d.name);
  case KK::FilteredDirectoryContents: return BuildKey::makeFilteredDirectoryContents(d.name, filters);
  case KK::DirectoryTreeSignature: return BuildKey::makeDirectoryTreeSignature(d.name, filters);
  case KK::DirectoryTreeStructureSignature: return BuildKey::makeDirectoryTreeStructureSignature(d.name, filters);
  case KK::Node: return BuildKey::makeNode(StringRef(d.name));
  case KK::Stat: return BuildKey::makeStat(d.name);
  case KK::Target: return BuildKey::makeTarget(d.name);
  case KK::Unknown: break;
  }
  fprintf(stderr, "cannot build key kind\n");
  exit(3);
}

BuildValue buildValue(const Desc& d) {
  std::vector<FileInfo> infos;
  for (auto& o : d.outs) infos.push_back(toFileInfo(o));
  ArrayRef<FileInfo> outs(infos);
  ArrayRef<std::string> list(d.list);
  switch ((VK)d.kind) {
  case VK::Invalid: return BuildValue::makeInvalid();
  case VK::VirtualInput: return BuildValue::makeVirtualInput();
  case VK::ExistingInput: return BuildValue::makeExistingInput(infos.at(0));
  case VK::MissingInput: return BuildValue::makeMissingInput();
  case VK::DirectoryContents: return BuildValue::makeDirectoryContents(infos.at(0), list);
  case VK::DirectoryTreeSignature: return BuildValue::makeDirectoryTreeSignature(CommandSignature(d.sig));
  case VK::DirectoryTreeStructureSignature: return BuildValue::makeDirectoryTreeStructureSignature(CommandSignature(d.sig));
  case VK::StaleFileRemoval: return BuildValue::makeStaleFileRemoval(list);
  case VK::MissingOutput: return BuildValue::makeMissingOutput();
  case VK::FailedInput: return BuildValue::makeFailedInput();
  case VK::SuccessfulCommand: return BuildValue::makeSuccessfulCommand(outs);
  case VK::FailedCommand: return BuildValue::makeFailedCommand();
  case VK::PropagatedFailureCommand: return BuildValue::makePropagatedFailureCommand();
  case VK::CancelledCommand: return BuildValue::makeCancelledCommand();
  case VK::SkippedCommand: return BuildValue::makeSkippedCommand();
  case VK::Target: return BuildValue::makeTarget();
  case VK::FilteredDirectoryContents: return BuildValue::makeFilteredDirectoryContents(list);
  case VK::SuccessfulCommandWithOutputSignature:
    return BuildValue::makeSuccessfulCommandWithOutputSignature(outs, CommandSignature(d.sig));
  }
  fprintf(stderr, "cannot build value kind\n");
  exit(3);
}

std::string encode(const Desc& d) {
  if (d.isKey) return buildKey(d).toData().str();
  auto v = buildValue(d).toData();
  return std::string((const char*)v.data(), v.size());
}

// ---------------------------------------------------------------------------
struct Checker {
  vj::Args& args;
  vj::Result& res;
  bool verbose = false;
  long long index = 0, evals = 0, distinct = 0, keysN = 0, valuesN = 0, maxLen = 0, accessorChecks = 0, dupDesc = 0;
  bool stop = false;
  std::unordered_map<std::string, std::string> seen;  // encoded bytes -> Desc::str()
  std::map<std::string, long long> perKind;
  std::set<std::string> sampledShapes;

  Checker(vj::Args& a, vj::Result& r) : args(a), res(r) {}

  void fail(const std::string& cls, const Desc& d, const std::string& detail, const std::string& bytes) {
    violate(res, cls, d.pretty() + ": " + detail + " (encoding " + hexs(bytes.substr(0, 64)) + (bytes.size() > 64 ? "..." : "") + ")", d.str());
    if (verbose) printf("FAIL %s: %s\n", cls.c_str(), detail.c_str());
  }

  static uint64_t fnv(const std::string& s) {
    uint64_t h = 1469598103934665603ull;
    for (unsigned char c : s) { h ^= c; h *= 1099511628211ull; }
    return h;
  }

  void checkList(const std::string& cls, const Desc& d, const std::vector<StringRef>& got, const std::string& bytes) {
    ++accessorChecks;
    bool ok = got.size() == d.list.size();
    for (size_t i = 0; ok && i < got.size(); ++i) ok = got[i].str() == d.list[i];
    if (!ok) {
      std::string g = "[";
      for (size_t i = 0; i < got.size(); ++i) g += (i ? "," : "") + show(got[i].str());
      fail(cls, d, "decoded string list is " + g + "]", bytes);
    }
  }
  void checkStr(const std::string& cls, const Desc& d, const std::string& what, StringRef got, const std::string& want, const std::string& bytes) {
    ++accessorChecks;
    if (got.str() != want) fail(cls, d, what + " returns " + show(got.str()) + ", expected " + show(want), bytes);
  }

  void checkKey(const Desc& d, const std::string& bytes) {
    std::string kn = d.kindName();
    KK kind = (KK)d.kind;
    // kind tag
    if (bytes.empty() || bytes[0] != BuildKey::identifierForKind(kind) || BuildKey::kindForIdentifier(bytes[0]) != kind)
      fail("C15.key-kind-tag." + kn, d, "first byte does not map back to the kind", bytes);
    // decode
    BuildKey k = BuildKey::fromData(core::KeyType(bytes));
    ++accessorChecks;
    if (k.getKind() != kind) { fail("C15.key-kind-misreport." + kn, d, std::string("decoded key reports kind ") + keyKindName(k.getKind()), bytes); return; }
    bool is[9] = {k.isCommand(), k.isCustomTask(), k.isDirectoryContents(), k.isFilteredDirectoryContents(), k.isDirectoryTreeSignature(),
                  k.isDirectoryTreeStructureSignature(), k.isNode(), k.isStat(), k.isTarget()};
    for (int i = 0; i < 9; ++i) {
      ++accessorChecks;
      if (is[i] != (kKeyKinds[i] == kind)) fail("C15.key-kind-misreport." + kn, d, std::string("is") + keyKindName(kKeyKinds[i]) + "() answers " + (is[i] ? "true" : "false"), bytes);
    }
    std::string rt = "C15.key-roundtrip." + kn;
    switch (kind) {
    case KK::Command: checkStr(rt + ".name", d, "getCommandName()", k.getCommandName(), d.name, bytes); break;
    case KK::CustomTask:
      checkStr(rt + ".name", d, "getCustomTaskName()", k.getCustomTaskName(), d.name, bytes);
      checkStr(rt + ".data", d, "getCustomTaskData()", k.getCustomTaskData(), d.data, bytes);
      break;
    case KK::DirectoryContents: checkStr(rt + ".name", d, "getDirectoryPath()", k.getDirectoryPath(), d.name, bytes); break;
    case KK::FilteredDirectoryContents:
    case KK::DirectoryTreeStructureSignature:
      checkStr(rt + ".name", d, "getFilteredDirectoryPath()", k.getFilteredDirectoryPath(), d.name, bytes);
      checkList(rt + ".filters", d, k.getContentExclusionPatternsAsStringList().getValues(), bytes);
      break;
    case KK::DirectoryTreeSignature:
      checkStr(rt + ".name", d, "getDirectoryTreeSignaturePath()", k.getDirectoryTreeSignaturePath(), d.name, bytes);
      checkList(rt + ".filters", d, k.getContentExclusionPatternsAsStringList().getValues(), bytes);
      break;
    case KK::Node: checkStr(rt + ".name", d, "getNodeName()", k.getNodeName(), d.name, bytes); break;
    case KK::Stat: checkStr(rt + ".name", d, "getStatName()", k.getStatName(), d.name, bytes); break;
    case KK::Target: checkStr(rt + ".name", d, "getTargetName()", k.getTargetName(), d.name, bytes); break;
    case KK::Unknown: break;
    }
    // canonical: re-encode of the decoded key, and a second independent build
    if (k.toData().str() != bytes) fail("C15.key-reencode." + kn, d, "re-encoding the decoded key gives different bytes", bytes);
    if (encode(d) != bytes) fail("C15.key-reencode." + kn, d, "building the same key twice gives different bytes", bytes);
    if (d.hasList && d.list.size() == 1) {
      // the same abstract filter list through the other StringList constructor
      StringList one{StringRef(d.list[0])};
      basic::BinaryEncoder a, b;
      one.encode(a);
      StringList{ArrayRef<std::string>(d.list)}.encode(b);
      if (a.contents() != b.contents()) fail("C15.stringlist-constructors-disagree", d, "StringList(StringRef) and StringList(ArrayRef) encode the same one-element list differently", bytes);
    }
  }

  void checkValue(const Desc& d, const std::string& bytes) {
    std::string kn = d.kindName();
    VK kind = (VK)d.kind;
    if (bytes.empty() || (uint8_t)bytes[0] != (uint8_t)kind) fail("C15.value-kind-tag." + kn, d, "first byte is not the kind tag", bytes);
    core::ValueType data(bytes.begin(), bytes.end());
    BuildValue v = BuildValue::fromData(data);
    ++accessorChecks;
    if (v.getKind() != kind) { fail("C15.value-kind-misreport." + kn, d, std::string("decoded value reports kind ") + valueKindName(v.getKind()), bytes); return; }
    struct { const char* n; bool got; bool want; } preds[] = {
        {"isInvalid", v.isInvalid(), kind == VK::Invalid},
        {"isVirtualInput", v.isVirtualInput(), kind == VK::VirtualInput},
        {"isExistingInput", v.isExistingInput(), kind == VK::ExistingInput},
        {"isMissingInput", v.isMissingInput(), kind == VK::MissingInput},
        {"isDirectoryContents", v.isDirectoryContents(), kind == VK::DirectoryContents},
        {"isDirectoryTreeSignature", v.isDirectoryTreeSignature(), kind == VK::DirectoryTreeSignature},
        {"isDirectoryTreeStructureSignature", v.isDirectoryTreeStructureSignature(), kind == VK::DirectoryTreeStructureSignature},
        {"isStaleFileRemoval", v.isStaleFileRemoval(), kind == VK::StaleFileRemoval},
        {"isMissingOutput", v.isMissingOutput(), kind == VK::MissingOutput},
        {"isFailedInput", v.isFailedInput(), kind == VK::FailedInput},
        // a successful command with an output signature IS a successful command (documented)
        {"isSuccessfulCommand", v.isSuccessfulCommand(), kind == VK::SuccessfulCommand || kind == VK::SuccessfulCommandWithOutputSignature},
        {"isFailedCommand", v.isFailedCommand(), kind == VK::FailedCommand},
        {"isPropagatedFailureCommand", v.isPropagatedFailureCommand(), kind == VK::PropagatedFailureCommand},
        {"isCancelledCommand", v.isCancelledCommand(), kind == VK::CancelledCommand},
        {"isSkippedCommand", v.isSkippedCommand(), kind == VK::SkippedCommand},
        {"isTarget", v.isTarget(), kind == VK::Target},
        {"isFilteredDirectoryContents", v.isFilteredDirectoryContents(), kind == VK::FilteredDirectoryContents}};
    for (auto& p : preds) {
      ++accessorChecks;
      if (p.got != p.want) fail("C15.value-kind-misreport." + kn, d, std::string(p.n) + "() answers " + (p.got ? "true" : "false"), bytes);
    }
    std::string rt = "C15.value-roundtrip." + kn;
    if (d.hasOut) {
      ++accessorChecks;
      if (v.getNumOutputs() != d.outs.size()) {
        fail(rt + ".numOutputs", d, "getNumOutputs() returns " + std::to_string(v.getNumOutputs()), bytes);
      } else {
        for (size_t i = 0; i < d.outs.size(); ++i) {
          FI got = fromFileInfo(v.getNthOutputInfo((unsigned)i));
          for (int f = 0; f < 6; ++f) {
            ++accessorChecks;
            if (got.f[f] != d.outs[i].f[f])
              fail(rt + ".fileinfo." + kFieldName[f], d, "output " + std::to_string(i) + " " + kFieldName[f] + " decodes as 0x" + u64hex(got.f[f]), bytes);
          }
          ++accessorChecks;
          if (memcmp(got.ck, d.outs[i].ck, 32) != 0)
            fail(rt + ".fileinfo.checksum", d, "output " + std::to_string(i) + " checksum decodes as " + hexs(std::string((const char*)got.ck, 32)), bytes);
        }
        if (d.outs.size() == 1) {
          ++accessorChecks;
          if (!(fromFileInfo(v.getOutputInfo()) == d.outs[0])) fail(rt + ".getOutputInfo", d, "getOutputInfo() differs from the encoded info", bytes);
        }
      }
    }
    if (d.hasSig) {
      ++accessorChecks;
      uint64_t got = kind == VK::DirectoryTreeSignature ? v.getDirectoryTreeSignature().value
                     : kind == VK::DirectoryTreeStructureSignature ? v.getDirectoryTreeStructureSignature().value
                                                                   : v.getOutputSignature().value;
      if (got != d.sig) fail(rt + ".signature", d, "signature decodes as 0x" + u64hex(got), bytes);
    }
    if (d.hasList) checkList(rt + ".list", d, kind == VK::StaleFileRemoval ? v.getStaleFileList() : v.getDirectoryContents(), bytes);
    // canonical
    auto again = v.toData();
    if (again != data) fail("C15.value-reencode." + kn, d, "re-encoding the decoded value gives " + hexs(std::string((const char*)again.data(), again.size()).substr(0, 64)), bytes);
    BuildValue copy(v);  // explicit copy constructor (used by the C API)
    if (copy.toData() != data) fail("C15.value-reencode." + kn, d, "encoding a copy of the decoded value gives different bytes", bytes);
    BuildValue moved(std::move(copy));
    if (moved.toData() != data) fail("C15.value-reencode." + kn, d, "encoding a moved copy gives different bytes", bytes);
    if (encode(d) != bytes) fail("C15.value-reencode." + kn, d, "building the same value twice gives different bytes", bytes);
    // object history: the value decoded INTO a variable that already holds another value (move assignment, the way the
    // build system refills `directoryValue` / `priorValue`) - previous occupants: the last value seen of every kind
    for (auto& prev : lastOfKind) {
      BuildValue slot = BuildValue::fromData(prev.second);
      slot = BuildValue::fromData(data);
      ++accessorChecks;
      if (slot.toData() != data) {
        fail("C15.value-reencode-after-assignment." + kn, d, std::string("decoded into a variable that held a ") + valueKindName((VK)prev.first) +
             " value, the value encodes as " + hexs(std::string((const char*)slot.toData().data(), slot.toData().size()).substr(0, 64)), bytes);
        break;
      }
    }
    lastOfKind[(int)kind] = data;
  }
  std::map<int, core::ValueType> lastOfKind;

  void operator()(const Desc& d) {
    if (stop) return;
    long long i = index++;
    if ((i & 4095) == 0 && args.overBudget()) { stop = true; res.exhaustive = false; return; }
    if (enumx::progressPage) {
      // crash attribution: a short description of the item in progress (kind, sizes)
      snprintf(enumx::progressPage, 4000, "%s kind=%d name-length=%zu data-length=%zu list-items=%zu", d.isKey ? "key" : "value", d.kind,
               d.name.size(), d.data.size(), d.list.size());
    }
    std::string bytes = encode(d);
    std::string mapKey = (d.isKey ? "K" : "V") + bytes;  // keys and values live in different stores
    bool ownIndex = verbose || (int)(i % args.nshards) == args.shard;
    bool ownHash = verbose || (int)(fnv(mapKey) % (uint64_t)args.nshards) == args.shard;
    if (ownHash) {
      std::string ds = d.str();
      auto it = seen.find(mapKey);
      if (it == seen.end()) { seen.emplace(mapKey, ds); ++distinct; }
      else if (it->second != ds) {
        Desc other;
        parseDesc(it->second, other);
        std::string a = other.kindName(), b = d.kindName();
        std::string cls = std::string(d.isKey ? "C15.key-collision." : "C15.value-collision.") + (a == b && other.isKey == d.isKey ? "same-kind." + a : (a < b ? a + "-" + b : b + "-" + a));
        violate(res, cls, "two different " + std::string(d.isKey ? "keys" : "values") + " have the same encoding " + hexs(bytes.substr(0, 64)) + ": " + other.pretty() + "  vs  " + d.pretty(),
                it->second + "|" + ds);
        if (verbose) printf("FAIL %s\n", cls.c_str());
      } else ++dupDesc;  // the enumeration produced the same description twice (harmless, counted)
    }
    if (ownIndex) {
      ++evals;
      ++(d.isKey ? keysN : valuesN);
      ++perKind[(d.isKey ? "n_key_" : "n_value_") + d.kindName()];
      if ((long long)bytes.size() > maxLen) maxLen = (long long)bytes.size();
      if (verbose) printf("%s\n  encoding: %s\n", d.pretty().c_str(), hexs(bytes).c_str());
      if (d.isKey) checkKey(d, bytes); else checkValue(d, bytes);
      // samples: one literal case per shape
      const char* shape = nullptr;
      if (d.isKey && (KK)d.kind == KK::FilteredDirectoryContents && d.name.size() == 2 && d.list.size() == 2) shape = "filtered-key";
      else if (d.isKey && (KK)d.kind == KK::CustomTask && d.name.size() == 3 && d.data.size() == 2 && d.name[1] == '\0') shape = "custom-task-key";
      else if (d.isKey && (KK)d.kind == KK::Node && d.name.size() == 3 && (unsigned char)d.name[0] == 0xff) shape = "node-key";
      else if (!d.isKey && (VK)d.kind == VK::SuccessfulCommandWithOutputSignature && d.outs.size() == 2 && d.sig == 1 && d.outs[1].f[2] == 1) shape = "command-value";
      else if (!d.isKey && (VK)d.kind == VK::DirectoryContents && d.list.size() == 2 && d.outs[0].f[3] == 1) shape = "directory-contents-value";
      else if (!d.isKey && (VK)d.kind == VK::StaleFileRemoval && d.list.size() == 2 && d.list[0].size() == 2) shape = "stale-file-removal-value";
      if (shape && sampledShapes.insert(shape).second)
        res.sample("{\"desc\": " + vj::q(d.pretty()) + ", \"encoding_hex\": " + vj::q(hexs(bytes)) + "}", 6);
    }
  }

  void flush() {
    res.count("evaluations", evals);
    res.count("distinct_nontrivial", distinct);
    res.count("keys", keysN);
    res.count("values", valuesN);
    res.count("accessor_checks", accessorChecks);
    res.count("duplicate_descriptions", dupDesc);
    res.maxOf("max_encoding_bytes", maxLen);
    for (auto& kv : perKind) res.count(kv.first, kv.second);
  }
};

// ---------------------------------------------------------------------------
// enumeration
std::vector<std::string> stringsOver(const std::vector<char>& alpha, int maxLen) {
  std::vector<std::string> out{""};
  size_t from = 0;
  for (int l = 1; l <= maxLen; ++l) {
    size_t to = out.size();
    for (size_t i = from; i < to; ++i)
      for (char c : alpha) out.push_back(out[i] + c);
    from = to;
  }
  return out;
}
std::vector<std::vector<std::string>> listsOver(const std::vector<std::string>& elems, int maxLen) {
  std::vector<std::vector<std::string>> out{{}};
  size_t from = 0;
  for (int l = 1; l <= maxLen; ++l) {
    size_t to = out.size();
    for (size_t i = from; i < to; ++i)
      for (auto& e : elems) { auto v = out[i]; v.push_back(e); out.push_back(v); }
    from = to;
  }
  return out;
}

void addFI(std::vector<FI>& v, const FI& fi) {
  for (auto& x : v) if (x == fi) return;
  v.push_back(fi);
}
const uint64_t kVals[3] = {0, 1, ~0ull};
const int kCkPos[4] = {0, 15, 16, 31};
const uint8_t kCkVals[2] = {1, 0xff};

// quick: one field at a time + all combinations on (mode, size, modTime.seconds)
std::vector<FI> fileInfosSmall() {
  std::vector<FI> v;
  addFI(v, FI());
  for (int f = 0; f < 6; ++f)
    for (int k = 1; k < 3; ++k) { FI fi; fi.f[f] = kVals[k]; addFI(v, fi); }
  for (int p : kCkPos)
    for (uint8_t b : kCkVals) { FI fi; fi.ck[p] = b; addFI(v, fi); }
  for (uint64_t a : kVals) for (uint64_t b : kVals) for (uint64_t c : kVals) { FI fi; fi.f[2] = a; fi.f[3] = b; fi.f[4] = c; addFI(v, fi); }
  return v;
}
// thorough: all 3^6 combinations of the integer fields, checksum bytes alone and on top of all-ones/all-max
std::vector<FI> fileInfosBig() {
  std::vector<FI> v;
  for (int m = 0; m < 729; ++m) {
    FI fi;
    int x = m;
    for (int f = 0; f < 6; ++f) { fi.f[f] = kVals[x % 3]; x /= 3; }
    v.push_back(fi);
  }
  for (int base = 0; base < 3; ++base)
    for (int p : kCkPos)
      for (uint8_t b : kCkVals) { FI fi; for (int f = 0; f < 6; ++f) fi.f[f] = kVals[base]; fi.ck[p] = b; v.push_back(fi); }
  { FI fi; memset(fi.ck, 0xff, 32); v.push_back(fi); }
  return v;
}

template <class Emit>
void enumerate(bool thorough, Emit&& emit) {
  // ---- keys
  std::vector<char> keyAlpha{'a', '/', '\0', (char)0xff};
  auto names = stringsOver(keyAlpha, thorough ? 4 : 3);
  std::vector<std::string> filterElems = thorough ? stringsOver({'a', '/', (char)0xff}, 2) : std::vector<std::string>{"", "a", "a/"};
  auto filterLists = listsOver(filterElems, 2);
  if (thorough)
    for (auto& l : listsOver({"", "a", "a/"}, 3))
      if (l.size() == 3) filterLists.push_back(l);
  for (KK k : kKeyKinds) {
    for (auto& n : names) {
      Desc d;
      d.isKey = true; d.kind = (int)k; d.name = n;
      if (k == KK::CustomTask) {
        d.hasData = true;
        for (auto& dt : names) { d.data = dt; emit(d); }
      } else if (k == KK::FilteredDirectoryContents || k == KK::DirectoryTreeSignature || k == KK::DirectoryTreeStructureSignature) {
        d.hasList = true;
        for (auto& l : filterLists) { d.list = l; emit(d); }
      } else emit(d);
    }
  }
  // ---- long names: lengths whose little-endian size bytes have the high bit set or carry into the next byte
  {
    std::vector<int> lens{127, 128, 129, 255, 256, 257, 300, 32767, 32768};
    if (thorough) { lens.push_back(65535); lens.push_back(65536); lens.push_back(1 << 20); }
    for (KK k : kKeyKinds)
      for (int L : lens)
        for (char c : {'a', (char)0xff}) {
          Desc d;
          d.isKey = true; d.kind = (int)k; d.name = std::string((size_t)L, c);
          d.name[L / 2] = '/';
          if (k == KK::CustomTask) {
            d.hasData = true;
            for (auto& dt : {std::string(""), std::string("a"), std::string((size_t)L, 'd')}) { d.data = dt; emit(d); }
          } else if (k == KK::FilteredDirectoryContents || k == KK::DirectoryTreeSignature || k == KK::DirectoryTreeStructureSignature) {
            d.hasList = true;
            for (size_t i = 0; i < filterLists.size() && i < 4; ++i) { d.list = filterLists[i]; emit(d); }
            d.list = {std::string((size_t)L, 'f')};
            emit(d);
          } else emit(d);
        }
  }
  // ---- values
  auto F = fileInfosSmall();
  auto FB = thorough ? fileInfosBig() : F;
  auto listElems = stringsOver({'a', '/', (char)0xff}, 2);
  auto lists = listsOver(listElems, thorough ? 3 : 2);
  // kinds without payload
  for (VK k : {VK::Invalid, VK::VirtualInput, VK::MissingInput, VK::MissingOutput, VK::FailedInput, VK::FailedCommand,
               VK::PropagatedFailureCommand, VK::CancelledCommand, VK::SkippedCommand, VK::Target}) {
    Desc d; d.isKey = false; d.kind = (int)k; emit(d);
  }
  for (VK k : {VK::DirectoryTreeSignature, VK::DirectoryTreeStructureSignature})
    for (uint64_t s : kVals) { Desc d; d.isKey = false; d.kind = (int)k; d.hasSig = true; d.sig = s; emit(d); }
  for (VK k : {VK::StaleFileRemoval, VK::FilteredDirectoryContents})
    for (auto& l : lists) { Desc d; d.isKey = false; d.kind = (int)k; d.hasList = true; d.list = l; emit(d); }
  for (auto& fi : FB) { Desc d; d.isKey = false; d.kind = (int)VK::ExistingInput; d.hasOut = true; d.outs = {fi}; emit(d); }
  for (auto& fi : F)
    for (auto& l : lists) { Desc d; d.isKey = false; d.kind = (int)VK::DirectoryContents; d.hasOut = true; d.outs = {fi}; d.hasList = true; d.list = l; emit(d); }
  // commands: 0..3 outputs, ordered by number of outputs (simplest first)
  for (int n = 0; n <= 3; ++n) {
    const std::vector<FI>& S = n <= 2 ? FB : F;
    for (int withSig = 0; withSig < 2; ++withSig) {
      Desc d;
      d.isKey = false;
      d.kind = (int)(withSig ? VK::SuccessfulCommandWithOutputSignature : VK::SuccessfulCommand);
      d.hasOut = true;
      d.hasSig = withSig != 0;
      d.outs.assign((size_t)n, FI());
      std::vector<size_t> idx((size_t)n, 0);
      for (;;) {
        for (int i = 0; i < n; ++i) d.outs[(size_t)i] = S[idx[(size_t)i]];
        if (withSig) { for (uint64_t s : kVals) { d.sig = s; emit(d); } }
        else emit(d);
        int p = n - 1;
        while (p >= 0 && ++idx[(size_t)p] == S.size()) { idx[(size_t)p] = 0; --p; }
        if (p < 0) break;
      }
    }
  }
}

}  // namespace

void enumx::runC15(vj::Args& args, vj::Result& res) {
  bool T = args.thorough();
  res.strings["rule"] =
      std::string("every BuildKey kind x names/paths of length <= ") + (T ? "4" : "3") +
      " over bytes {'a','/',0x00,0xFF} (CustomTask: x task data over the same strings; filtered kinds: x filter lists) and every BuildValue "
      "kind x 0..3 output FileInfos with fields in {0,1,2^64-1} x signatures {0,1,2^64-1} x string lists (no NUL inside elements), each "
      "built by the public constructor, encoded, decoded, every accessor compared, re-encoded; evaluations = objects fully checked; "
      "distinct_nontrivial = number of distinct encodings in the global bytes->description map (must equal evaluations minus "
      "duplicate_descriptions when the coding is injective)";
  res.assumptions.push_back("C15: NUL bytes inside StringList elements are outside the type's domain (asserted by its constructors) and are not enumerated; NUL inside key names, paths and custom-task data IS enumerated");
  res.assumptions.push_back("C15: all 9 BuildKey kinds and all 18 BuildValue kinds have public constructors and are covered; Kind::Unknown keys cannot be constructed and decoding of byte strings that no constructor produces is out of scope (C19)");
  res.assumptions.push_back("C15: asserts are off in the build under test, so 0-output command values and an ExistingInput carrying the all-zero FileInfo (both rejected only by assert) are enumerated as ordinary values");
  res.assumptions.push_back("C15: isSuccessfulCommand() is documented to hold for SuccessfulCommand and SuccessfulCommandWithOutputSignature alike; every other isXxx() must hold for exactly one kind");
  res.assumptions.push_back("C15: FileInfo field values are drawn from {0,1,2^64-1} (checksum bytes from {0,1,0xFF} at offsets 0,15,16,31); quick varies one field at a time plus all combinations on mode,size,seconds; thorough takes all 3^6 integer combinations for values with <=2 outputs");

  Checker chk(args, res);

  auto kindTags = [&]() {
    std::map<char, std::string> tags;
    for (KK k : kKeyKinds) {
      char t = BuildKey::identifierForKind(k);
      res.count("kind_tag_checks");
      if (tags.count(t) || t == BuildKey::identifierForKind(KK::Unknown))
        violate(res, "C15.kind-tag-collision.key", std::string("key kinds ") + (tags.count(t) ? tags[t] : "Unknown") + " and " + keyKindName(k) + " share the tag '" + t + "'", "kind-tags");
      if (BuildKey::kindForIdentifier(t) != k)
        violate(res, "C15.kind-tag-collision.key", std::string("kindForIdentifier(identifierForKind(") + keyKindName(k) + ")) is " + keyKindName(BuildKey::kindForIdentifier(t)), "kind-tags");
      tags[t] = keyKindName(k);
    }
    std::map<int, std::string> vtags;
    for (VK k : kValueKinds) {
      int t = (uint8_t)k;
      res.count("kind_tag_checks");
      if (vtags.count(t) || (uint32_t)k > 255)
        violate(res, "C15.kind-tag-collision.value", std::string("value kinds ") + vtags[t] + " and " + valueKindName(k) + " share the tag byte " + std::to_string(t), "kind-tags");
      vtags[t] = valueKindName(k);
    }
  };

  if (args.replaySpec == "kind-tags") { kindTags(); return; }
  if (!args.replaySpec.empty()) {
    chk.verbose = true;
    for (auto& part : split(args.replaySpec, '|')) {
      Desc d;
      if (!parseDesc(part, d)) { fprintf(stderr, "bad C15 replay spec: %s\n", part.c_str()); exit(3); }
      chk(d);
    }
    chk.flush();
    return;
  }

  // static part: kind tags pairwise distinct (done once, by shard 0)
  if (args.shard == 0) kindTags();

  enumerate(T, chk);
  chk.flush();
}

// C14 (predicate part): pathIsPrefixedByPath(path, root) against a component-wise reference,
// for ALL (path, root) pairs over strings of length <= L over {'/', 'a', 'b', '.'}.
//
// Judged: pairs where both path and root are absolute (start with '/'): that is the only way the
// stale-file-removal tool uses the predicate (relative paths are rejected before it is called, and
// the statement speaks of absolute paths lying beneath roots).  For those the reference is:
// split on '/', drop empty components, root's components must be a prefix of path's components
// ('.' and '..' are ordinary components; root "/" covers every absolute path).
// Relative inputs are still fed to the real predicate (it must not crash) but are not judged.
#include "enumx.h"

#include "llbuild/BuildSystem/BuildSystem.h"

using namespace enumx;

namespace {

const char kAlpha[] = {'/', 'a', 'b', '.'};

std::vector<std::string> allStrings(int maxLen) {
  std::vector<std::string> out{""};
  size_t from = 0;
  for (int l = 1; l <= maxLen; ++l) {
    size_t to = out.size();
    for (size_t i = from; i < to; ++i)
      for (char c : kAlpha) out.push_back(out[i] + c);
    from = to;
  }
  return out;  // ordered by length, then by alphabet order: simplest first
}

std::vector<std::string> comps(const std::string& s) {
  std::vector<std::string> out;
  std::string cur;
  for (char c : s) {
    if (c == '/') { if (!cur.empty()) out.push_back(cur); cur.clear(); }
    else cur += c;
  }
  if (!cur.empty()) out.push_back(cur);
  return out;
}

bool reference(const std::string& path, const std::string& root) {
  auto p = comps(path), r = comps(root);
  if (r.size() > p.size()) return false;
  for (size_t i = 0; i < r.size(); ++i)
    if (p[i] != r[i]) return false;
  return true;
}

bool impl(const std::string& path, const std::string& root) {
  return llbuild::buildsystem::pathIsPrefixedByPath(path, root);
}

std::string collapseSeps(const std::string& s) {
  std::string o;
  for (char c : s)
    if (!(c == '/' && !o.empty() && o.back() == '/')) o += c;
  return o;
}

// Named matchers, by minimal repair of the input.  Returns "" when the pair is fine.
std::string classify(const std::string& path, const std::string& root, bool ref, bool got) {
  if (ref == got) return "";
  if (got && !ref) return "C14.false-positive";
  // false negative: the reference says "at or beneath", the implementation says no.
  std::string cp = collapseSeps(path), cr = collapseSeps(root);
  // a doubled separator is what breaks it: the same pair with "//" collapsed to "/" is accepted
  if ((cp != path || cr != root) && impl(cp, cr)) return "C14.doubled-separator-false-negative";
  // D2: the trailing separator of the root is what breaks it: the same root spelled without it is accepted
  if (cr.size() >= 1 && cr.back() == '/' && impl(cp, cr.substr(0, cr.size() - 1))) return "C14.root-with-trailing-separator";
  if (cp.size() > 1 && cp.back() == '/') return "C14.path-with-trailing-separator-false-negative";
  return "C14.other-false-negative";
}

// plain counters (flushed into the result at the end; a map lookup per pair would dominate the run time)
struct Cn {
  long long calls = 0, skipped = 0, skTrue = 0, skFalse = 0, eval = 0, o[2][2] = {{0, 0}, {0, 0}}, nontriv = 0, trailing = 0;
  void flush(vj::Result& res) {
    res.count("calls_total", calls);
    res.count("skipped_relative", skipped);
    res.count("skipped_relative_impl_true", skTrue);
    res.count("skipped_relative_impl_false", skFalse);
    res.count("evaluations", eval);
    res.count("judged_ref_false_impl_false", o[0][0]);
    res.count("judged_ref_false_impl_true", o[0][1]);
    res.count("judged_ref_true_impl_false", o[1][0]);
    res.count("judged_ref_true_impl_true", o[1][1]);
    res.count("distinct_nontrivial", nontriv);
    res.count("judged_ref_true_root_trailing_sep", trailing);
  }
} cn;

void judge(vj::Result& res, const std::string& path, const std::string& root, bool verbose) {
  bool got = impl(path, root);
  ++cn.calls;
  if (path.empty() || root.empty() || path[0] != '/' || root[0] != '/') {
    ++cn.skipped;
    ++(got ? cn.skTrue : cn.skFalse);
    if (verbose) printf("not judged (relative input): impl=%d\n", (int)got);
    return;
  }
  bool ref = reference(path, root);
  ++cn.eval;
  ++cn.o[ref][got];
  if (ref || got) ++cn.nontriv;
  if (ref && root.back() == '/' && root != "/") ++cn.trailing;
  if (verbose) printf("path=%s root=%s reference=%d implementation=%d\n", show(path).c_str(), show(root).c_str(), (int)ref, (int)got);
  std::string cls = classify(path, root, ref, got);
  if (!cls.empty()) {
    violate(res, cls,
            "pathIsPrefixedByPath(" + show(path) + ", " + show(root) + ") = " + (got ? "true" : "false") +
                ", component-wise reference says " + (ref ? "true" : "false"),
            "p=" + path + ";r=" + root);
  } else if (ref) {
    // a few literal positive cases as samples
    if (path.size() >= 4 && root.size() >= 2 && path.size() > root.size() + 1 && path.find("//") == std::string::npos && root.find("//") == std::string::npos)
      res.sample("{\"path\": " + vj::q(path) + ", \"root\": " + vj::q(root) + ", \"reference\": true, \"implementation\": true}", 3);
  } else if (path.size() >= 4 && root.size() >= 3 && path.compare(0, root.size(), root) == 0 && path.find("//") == std::string::npos && root.find("//") == std::string::npos) {
    // string prefix but not component prefix: the interesting negatives
    res.sample("{\"path\": " + vj::q(path) + ", \"root\": " + vj::q(root) + ", \"reference\": false, \"implementation\": false}", 6);
  }
}

}  // namespace

void enumx::runC14(vj::Args& args, vj::Result& res) {
  int L = args.thorough() ? 8 : 6;  // absolute x absolute pairs (judged)
  int RB = 6;                       // pairs with a relative/empty member (called, not judged)
  res.counters["bound_max_len"] = L;
  res.strings["rule"] =
      "all ordered (path, root) pairs of absolute strings of length <= " + std::to_string(L) +
      " over {'/','a','b','.'} fed to the real pathIsPrefixedByPath and judged against the component-wise reference (= evaluations); "
      "additionally all pairs with a relative or empty member up to length " + std::to_string(RB < L ? RB : L) +
      " are called but not judged (skipped_relative); distinct_nontrivial = judged pairs where reference or implementation says "
      "'beneath' (every pair is a distinct input)";
  res.assumptions.push_back("C14 predicate: only pairs with absolute path and absolute root are judged (the tool rejects relative paths before calling the predicate; roots are assumed absolute)");
  res.assumptions.push_back("C14 predicate: POSIX separator '/' only (getPathSeparators() on this platform); '.' and '..' are ordinary components, no symlink resolution");
  res.assumptions.push_back("C14: this part covers the prefix predicate only; the in-process stale-file-removal tool (set difference, remove() calls, histories) is a separate part");

  if (!args.replaySpec.empty()) {
    // "p=<path>;r=<root>"
    const std::string& s = args.replaySpec;
    auto semi = s.find(";r=");
    if (s.compare(0, 2, "p=") != 0 || semi == std::string::npos) { fprintf(stderr, "bad C14 replay spec\n"); exit(3); }
    std::string path = s.substr(2, semi - 2), root = s.substr(semi + 3);
    judge(res, path, root, true);
    cn.flush(res);
    return;
  }

  // strs is ordered by length, so "length <= RB" is an index bound.  Pairs with a relative member are never judged;
  // they are called (crash check only) up to length RB, absolute x absolute pairs up to length L.
  auto strs = allStrings(L);
  size_t nRB = allStrings(RB < L ? RB : L).size();
  std::vector<size_t> absLong;  // absolute strings longer than RB
  for (size_t j = nRB; j < strs.size(); ++j)
    if (strs[j][0] == '/') absLong.push_back(j);
  res.counters["strings"] = 0;  // filled by shard 0 only (summed)
  if (args.shard == 0) res.counters["strings"] = (long long)strs.size();
  for (size_t i = 0; i < strs.size(); ++i) {
    if ((int)(i % args.nshards) != args.shard) continue;
    if (args.overBudget()) { res.exhaustive = false; res.count("work_items_skipped_budget"); continue; }
    bool absI = !strs[i].empty() && strs[i][0] == '/';
    if (i < nRB) {
      for (size_t j = 0; j < nRB; ++j) judge(res, strs[i], strs[j], false);
      if (absI) for (size_t j : absLong) judge(res, strs[i], strs[j], false);
    } else if (absI) {
      for (size_t j = 0; j < nRB; ++j) if (strs[j][0] == '/') judge(res, strs[i], strs[j], false);
      for (size_t j : absLong) judge(res, strs[i], strs[j], false);
    }
  }
  cn.flush(res);
}

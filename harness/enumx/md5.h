// Independent MD5 (RFC 1321) used as the reference digest for C13.
// Deliberately does not use anything from /repo (llvm::MD5 is the code under test).
#pragma once
#include <cstdint>
#include <cstring>
#include <string>

namespace refmd5 {

struct Digest { uint8_t b[16]; };

inline uint32_t rol(uint32_t x, int c) { return (x << c) | (x >> (32 - c)); }

inline Digest md5(const std::string& msg) {
  static const uint32_t K[64] = {
      0xd76aa478, 0xe8c7b756, 0x242070db, 0xc1bdceee, 0xf57c0faf, 0x4787c62a, 0xa8304613, 0xfd469501,
      0x698098d8, 0x8b44f7af, 0xffff5bb1, 0x895cd7be, 0x6b901122, 0xfd987193, 0xa679438e, 0x49b40821,
      0xf61e2562, 0xc040b340, 0x265e5a51, 0xe9b6c7aa, 0xd62f105d, 0x02441453, 0xd8a1e681, 0xe7d3fbc8,
      0x21e1cde6, 0xc33707d6, 0xf4d50d87, 0x455a14ed, 0xa9e3e905, 0xfcefa3f8, 0x676f02d9, 0x8d2a4c8a,
      0xfffa3942, 0x8771f681, 0x6d9d6122, 0xfde5380c, 0xa4beea44, 0x4bdecfa9, 0xf6bb4b60, 0xbebfbc70,
      0x289b7ec6, 0xeaa127fa, 0xd4ef3085, 0x04881d05, 0xd9d4d039, 0xe6db99e5, 0x1fa27cf8, 0xc4ac5665,
      0xf4292244, 0x432aff97, 0xab9423a7, 0xfc93a039, 0x655b59c3, 0x8f0ccc92, 0xffeff47d, 0x85845dd1,
      0x6fa87e4f, 0xfe2ce6e0, 0xa3014314, 0x4e0811a1, 0xf7537e82, 0xbd3af235, 0x2ad7d2bb, 0xeb86d391};
  static const int S[64] = {7, 12, 17, 22, 7, 12, 17, 22, 7, 12, 17, 22, 7, 12, 17, 22, 5, 9,  14, 20, 5, 9,
                            14, 20, 5, 9,  14, 20, 5, 9,  14, 20, 4, 11, 16, 23, 4, 11, 16, 23, 4, 11, 16, 23,
                            4, 11, 16, 23, 6, 10, 15, 21, 6, 10, 15, 21, 6, 10, 15, 21, 6, 10, 15, 21};
  uint32_t a0 = 0x67452301, b0 = 0xefcdab89, c0 = 0x98badcfe, d0 = 0x10325476;
  std::string m = msg;
  uint64_t bitlen = (uint64_t)msg.size() * 8;
  m.push_back((char)0x80);
  while (m.size() % 64 != 56) m.push_back((char)0);
  for (int i = 0; i < 8; ++i) m.push_back((char)((bitlen >> (8 * i)) & 0xff));
  for (size_t off = 0; off < m.size(); off += 64) {
    uint32_t M[16];
    for (int i = 0; i < 16; ++i) {
      const unsigned char* p = (const unsigned char*)m.data() + off + 4 * i;
      M[i] = (uint32_t)p[0] | ((uint32_t)p[1] << 8) | ((uint32_t)p[2] << 16) | ((uint32_t)p[3] << 24);
    }
    uint32_t A = a0, B = b0, C = c0, D = d0;
    for (int i = 0; i < 64; ++i) {
      uint32_t F;
      int g;
      if (i < 16) { F = (B & C) | (~B & D); g = i; }
      else if (i < 32) { F = (D & B) | (~D & C); g = (5 * i + 1) % 16; }
      else if (i < 48) { F = B ^ C ^ D; g = (3 * i + 5) % 16; }
      else { F = C ^ (B | ~D); g = (7 * i) % 16; }
      F = F + A + K[i] + M[g];
      A = D; D = C; C = B;
      B = B + rol(F, S[i]);
    }
    a0 += A; b0 += B; c0 += C; d0 += D;
  }
  Digest d;
  uint32_t w[4] = {a0, b0, c0, d0};
  for (int i = 0; i < 4; ++i)
    for (int j = 0; j < 4; ++j) d.b[4 * i + j] = (uint8_t)((w[i] >> (8 * j)) & 0xff);
  return d;
}

inline std::string hex(const uint8_t* p, size_t n) {
  static const char* h = "0123456789abcdef";
  std::string s;
  for (size_t i = 0; i < n; ++i) { s += h[p[i] >> 4]; s += h[p[i] & 15]; }
  return s;
}

// known-answer self test (RFC 1321 appendix A.5)
inline bool selfTest() {
  struct { const char* in; const char* out; } kat[] = {
      {"", "d41d8cd98f00b204e9800998ecf8427e"},
      {"a", "0cc175b9c0f1b6a831c399e269772661"},
      {"abc", "900150983cd24fb0d6963f7d28e17f72"},
      {"message digest", "f96b697d7cb7938d525a2f31aaf161d0"},
      {"12345678901234567890123456789012345678901234567890123456789012345678901234567890",
       "57edf4a22be3c955ac49da2e2107b67a"}};
  for (auto& k : kat) {
    Digest d = md5(k.in);
    if (hex(d.b, 16) != k.out) return false;
  }
  return true;
}

}  // namespace refmd5

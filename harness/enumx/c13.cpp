// C13: file change detection in every file-system mode.
//
// A path under /dev/shm/verif-enumx-<pid>/ is put into state s1, observed through the three real
// FileSystem objects x {getFileInfo, getLinkInfo} (twice: "not touched"), transformed into state s2
// and observed again -- for ALL ordered pairs (s1, s2) of the state list below.  The oracle uses the
// harness's own stat()/lstat()/read()/readlink() as ground truth and demands exactly what the
// statement says:
//   default          : != whenever existence, size, mtime, device or inode differ
//   device-agnostic  : != whenever existence, size or mtime differ; == when only device/inode differ
//   checksum-only    : != iff existence, type, size or content differ (so pure mtime change / inode
//                      replacement with equal content compares ==)
//   all              : == when untouched; isMissing() false for everything that exists.
// In checksum-only mode the checksum field itself is compared with an independent MD5 laid out the
// way the code intends (16 digest bytes, 16 zero bytes; directory = 01 00..; missing = zeros; link
// info of a symlink = MD5 of the link target string).  When that digest is wrong the comparison
// result is a function of garbage bytes, so the comparison is not judged (counted as tainted) --
// the digest violation is the deterministic verdict.
#include "enumx.h"
#include "md5.h"

#include <climits>
#include <fcntl.h>
#include <sys/stat.h>
#include <unistd.h>
#include <memory>

#include "llbuild/Basic/FileInfo.h"
#include "llbuild/Basic/FileSystem.h"

using namespace enumx;
using namespace llbuild::basic;

namespace {

struct Content { std::string name, bytes; };
struct Mt { std::string name; long sec, nsec; };
enum Type { Missing, Regular, Dir, Link, Other };
const char* typeName(Type t) { return t == Missing ? "missing" : t == Regular ? "file" : t == Dir ? "dir" : t == Link ? "symlink" : "other"; }

struct State {
  std::string name;
  Type type = Missing;
  int content = -1;   // Regular
  int mt = 1;         // index into mtimes
  bool replace = false;  // Regular: write new file + rename (new inode) instead of rewriting in place
  std::string target; // Link
};

std::vector<Content> contents;
std::vector<Mt> mtimes;
std::vector<State> states;

void buildSpace(bool thorough, size_t dirSize) {
  std::string big(16384, 'x');
  contents = {{"e", ""}, {"a", "a"}, {"b", "b"}, {"ab", "ab"}, {"Ka", big + "a"}, {"Kb", big + "b"}};
  // a regular file exactly as large as an (empty) directory on this file system: lets a type change keep the size
  if (dirSize > 0 && dirSize <= 65536) contents.push_back({"dsz", std::string(dirSize, 'd')});
  if (thorough) {
    std::string big1(16383, 'x');
    contents.push_back({"Ja", big1 + "a"});            // exactly one read buffer
    contents.push_back({"Jb", big1 + "b"});
    contents.push_back({"La", big + big + "a"});       // third buffer
    contents.push_back({"Lb", big + big + "b"});
    contents.push_back({"Ma", "a" + big});             // same size as Ka/Kb, differs in the first byte
    contents.push_back({"p55", std::string(55, 'p')}); // MD5 padding boundaries
    contents.push_back({"p56", std::string(56, 'p')});
    contents.push_back({"p64", std::string(64, 'p')});
  }
  mtimes = {{"t0", 0, 0}, {"t1", 1500000000, 500}, {"t2", 1500000000, 501}, {"t3", 1500000001, 500}};
  states.clear();
  { State s; s.name = "missing"; states.push_back(s); }
  for (size_t c = 0; c < contents.size(); ++c)
    for (size_t m = 0; m < mtimes.size(); ++m)
      for (int r = 0; r < 2; ++r) {
        State s;
        s.type = Regular; s.content = (int)c; s.mt = (int)m; s.replace = r != 0;
        s.name = "f:" + contents[c].name + ":" + mtimes[m].name + ":" + (r ? "r" : "k");
        states.push_back(s);
      }
  for (int m = 1; m <= 2; ++m) { State s; s.type = Dir; s.mt = m; s.name = "dir:" + mtimes[(size_t)m].name; states.push_back(s); }
  struct LinkSpec { std::string label, tgt; int mt; };
  // long (dangling) targets of equal length that differ only in their LAST byte: 300 bytes, and 4000 bytes (close to PATH_MAX)
  std::string long300(299, 'q'), long4000(3999, 'q');
  for (size_t i = 0; i < long4000.size(); i += 64) long4000[i] = '/';
  std::vector<LinkSpec> links = {{"tA", "tA", 1}, {"tB", "tB", 1}, {"tA", "tA", 2}, {"nx", "nx", 1},
                                 {"long300a", long300 + "a", 1}, {"long300b", long300 + "b", 1}};
  if (thorough) { links.push_back({"long4000a", long4000 + "a", 1}); links.push_back({"long4000b", long4000 + "b", 1}); }
  for (auto& l : links) { State s; s.type = Link; s.target = l.tgt; s.mt = l.mt; s.name = std::string("ln:") + l.label + ":" + mtimes[(size_t)l.mt].name; states.push_back(s); }
}
int findState(const std::string& n) {
  for (size_t i = 0; i < states.size(); ++i) if (states[i].name == n) return (int)i;
  return -1;
}

[[noreturn]] void die(const std::string& what) {
  fprintf(stderr, "enumx C13 harness error: %s: %s\n", what.c_str(), strerror(errno));
  exit(3);
}

// ---------------------------------------------------------------------------
// ground truth
struct Truth {
  bool exists = false;
  Type type = Missing;
  uint64_t size = 0, dev = 0, ino = 0, sec = 0, nsec = 0;
  std::string content;  // file bytes / link target / "" for directories
};
Truth truth(const std::string& path, bool follow) {
  Truth t;
  struct stat st;
  if ((follow ? ::stat(path.c_str(), &st) : ::lstat(path.c_str(), &st)) != 0) return t;
  t.exists = true;
  t.type = S_ISREG(st.st_mode) ? Regular : S_ISDIR(st.st_mode) ? Dir : S_ISLNK(st.st_mode) ? Link : Other;
  t.size = (uint64_t)st.st_size; t.dev = st.st_dev; t.ino = st.st_ino;
  t.sec = (uint64_t)st.st_mtim.tv_sec; t.nsec = (uint64_t)st.st_mtim.tv_nsec;
  if (t.type == Regular) {
    int fd = ::open(path.c_str(), O_RDONLY);
    if (fd < 0) die("open for truth " + path);
    char buf[65536];
    ssize_t n;
    while ((n = ::read(fd, buf, sizeof buf)) > 0) t.content.append(buf, (size_t)n);
    ::close(fd);
  } else if (t.type == Link) {
    char buf[PATH_MAX];
    ssize_t n = ::readlink(path.c_str(), buf, sizeof buf);
    if (n < 0) die("readlink " + path);
    t.content.assign(buf, (size_t)n);
  }
  return t;
}

// ---------------------------------------------------------------------------
// world manipulation
void setMtime(const std::string& path, const Mt& m) {
  struct timespec ts[2] = {{m.sec, m.nsec}, {m.sec, m.nsec}};
  if (::utimensat(AT_FDCWD, path.c_str(), ts, AT_SYMLINK_NOFOLLOW) != 0) die("utimensat " + path);
}
void writeAll(int fd, const std::string& bytes) {
  size_t off = 0;
  while (off < bytes.size()) {
    ssize_t n = ::write(fd, bytes.data() + off, bytes.size() - off);
    if (n <= 0) die("write");
    off += (size_t)n;
  }
}
void removeAny(const std::string& path) {
  struct stat st;
  if (::lstat(path.c_str(), &st) != 0) return;
  if (S_ISDIR(st.st_mode) ? ::rmdir(path.c_str()) : ::unlink(path.c_str())) die("remove " + path);
}
void apply(const std::string& path, const State& s) {
  struct stat st;
  bool have = ::lstat(path.c_str(), &st) == 0;
  switch (s.type) {
  case Missing: removeAny(path); break;
  case Regular: {
    const std::string& bytes = contents[(size_t)s.content].bytes;
    if (have && S_ISREG(st.st_mode) && !s.replace) {
      int fd = ::open(path.c_str(), O_WRONLY | O_TRUNC);  // same inode
      if (fd < 0) die("open " + path);
      writeAll(fd, bytes);
      ::close(fd);
    } else {
      std::string tmp = path + ".new";
      int fd = ::open(tmp.c_str(), O_WRONLY | O_CREAT | O_EXCL, 0644);
      if (fd < 0) die("create " + tmp);
      writeAll(fd, bytes);
      ::close(fd);
      if (have && S_ISDIR(st.st_mode)) removeAny(path);
      if (::rename(tmp.c_str(), path.c_str()) != 0) die("rename " + tmp);  // new inode while the old one still existed
    }
    setMtime(path, mtimes[(size_t)s.mt]);
    break;
  }
  case Dir:
    if (!(have && S_ISDIR(st.st_mode))) {
      removeAny(path);
      if (::mkdir(path.c_str(), 0755) != 0) die("mkdir " + path);
    }
    setMtime(path, mtimes[(size_t)s.mt]);
    break;
  case Link: {
    bool same = false;
    if (have && S_ISLNK(st.st_mode)) {
      char buf[PATH_MAX];
      ssize_t n = ::readlink(path.c_str(), buf, sizeof buf);
      same = n >= 0 && std::string(buf, (size_t)n) == s.target;
    }
    if (!same) {
      removeAny(path);
      if (::symlink(s.target.c_str(), path.c_str()) != 0) die("symlink " + path);
    }
    setMtime(path, mtimes[(size_t)s.mt]);
    break;
  }
  case Other: break;
  }
}

// ---------------------------------------------------------------------------
const char* kFsName[3] = {"default", "devagnostic", "checksum"};
const char* kObsName[3] = {"file", "link", "cksum"};

struct Obs {
  FileInfo info;
};

std::string ckHex(const FileChecksum& c) { return refmd5::hex(c.bytes, 32); }
std::string infoStr(const FileInfo& i) {
  char b[256];
  snprintf(b, sizeof b, "{dev=%llu ino=%llu mode=%llo size=%llu mtime=%llu.%09llu cksum=", (unsigned long long)i.device, (unsigned long long)i.inode,
           (unsigned long long)i.mode, (unsigned long long)i.size, (unsigned long long)i.modTime.seconds, (unsigned long long)i.modTime.nanoseconds);
  return std::string(b) + ckHex(i.checksum) + "}";
}
std::string truthStr(const Truth& t) {
  if (!t.exists) return "missing";
  char b[200];
  snprintf(b, sizeof b, "%s size=%llu mtime=%llu.%09llu", typeName(t.type), (unsigned long long)t.size, (unsigned long long)t.sec, (unsigned long long)t.nsec);
  return b;
}

// the checksum the code intends for an object, per file system and observer
FileChecksum intendedChecksum(int fs, int obs, const Truth& followT, const Truth& linkT) {
  FileChecksum c;  // zeros
  if (fs != 2 && obs != 2) return c;  // only the checksum-only wrapper fills the field
  auto md5into = [&](const std::string& s) { auto d = refmd5::md5(s); memcpy(c.bytes, d.b, 16); };
  if (obs == 1) {
    if (linkT.exists && linkT.type == Link) { md5into(linkT.content); return c; }
    // not a symbolic link: the checksum of the object itself
    if (!linkT.exists) return c;
    if (linkT.type == Dir) { c.bytes[0] = 1; return c; }
    if (linkT.type == Regular) md5into(linkT.content);
    return c;
  }
  if (!followT.exists) return c;
  if (followT.type == Dir) { c.bytes[0] = 1; return c; }
  if (followT.type == Regular) md5into(followT.content);
  return c;
}

struct Runner {
  vj::Args& args;
  vj::Result& res;
  bool verbose = false;
  int onlyFs = -1, onlyObs = -1;
  std::unique_ptr<FileSystem> fss[3];
  long long cmp = 0, nontrivial = 0, mustNe = 0, mustEq = 0, unjudged = 0, tainted = 0, untouched = 0, digestChecks = 0,
            missingChecks = 0, gotEq = 0, gotNe = 0, pairs = 0;

  Runner(vj::Args& a, vj::Result& r) : args(a), res(r) {
    fss[0] = createLocalFileSystem();
    fss[1] = DeviceAgnosticFileSystem::from(createLocalFileSystem());
    fss[2] = ChecksumOnlyFileSystem::from(createLocalFileSystem());
  }

  FileInfo observe(int fs, int obs, const std::string& path) {
    if (obs == 0) return fss[fs]->getFileInfo(path);
    if (obs == 1) return fss[fs]->getLinkInfo(path);
    FileInfo i;
    memset(&i, 0, sizeof i);
    i.checksum = fss[fs]->getFileChecksum(path);
    return i;
  }

  void fail(const std::string& cls, int fs, int obs, const State& s1, const State& s2, const std::string& what) {
    std::string spec = std::string("fs=") + kFsName[fs] + ";obs=" + kObsName[obs] + ";s1=" + s1.name + ";s2=" + s2.name;
    violate(res, cls, std::string(kFsName[fs]) + " file system, " + (obs == 0 ? "getFileInfo" : obs == 1 ? "getLinkInfo" : "getFileChecksum") + ", " + s1.name + " -> " + s2.name + ": " + what, spec);
    if (verbose) printf("FAIL %s: %s\n", cls.c_str(), what.c_str());
  }

  // Returns true when the checksum is the intended one.
  bool digestCheck(int fs, int obs, const State& s1, const State& s2, const char* which, const FileInfo& got, const Truth& f, const Truth& l) {
    ++digestChecks;
    FileChecksum want = intendedChecksum(fs, obs, f, l);
    if (got.checksum == want) return true;
    const Truth& t = obs == 1 ? l : f;
    // The statement fixes comparisons, not bytes: an all-zero (hence
    // deterministic) link-info checksum of a non-link is left to the comparison
    // oracle (class C13.checksum-linkinfo-nonlink-not-hashed).
    if (fs == 2 && obs == 1 && t.type != Link && got.checksum == FileChecksum()) return true;
    std::string cls, what;
    if (fs != 2 && obs != 2) {
      cls = "C13.checksum-nonzero-outside-checksum-mode";
      what = std::string("checksum field of ") + which + " observation is not all-zero";
    } else if (obs != 1 && t.type == Regular) {
      // D3: FileChecksumHasherMD5::finalize() never stores the digest
      cls = "C13.checksum-ignores-content";
      what = std::string("checksum of regular file (") + which + " observation, " + std::to_string(t.size) + " bytes) is not MD5(content)||0^16 = " + ckHex(want);
    } else if (obs == 1 && t.type == Link) {
      cls = "C13.checksum-ignores-link-target";
      what = std::string("link-info checksum of symlink -> ") + show(t.content) + " (" + which + " observation) is not MD5(target)||0^16 = " + ckHex(want);
    } else {
      cls = "C13.checksum-digest-other";
      what = std::string("checksum of ") + truthStr(t) + " (" + which + " observation) is not the intended " + ckHex(want);
    }
    fail(cls, fs, obs, s1, s2, what);
    return false;
  }

  void missingCheck(int fs, int obs, const State& s1, const State& s2, const char* which, const FileInfo& got, const Truth& t) {
    if (obs == 2) return;
    ++missingChecks;
    if (t.exists && got.isMissing())
      fail(std::string("C13.missing-record-for-existing-object.") + kFsName[fs] + "." + kObsName[obs], fs, obs, s1, s2, std::string(which) + " observation of " + truthStr(t) + " is the all-zero 'missing' record");
    if (!t.exists && !got.isMissing())
      fail(std::string("C13.existing-record-for-missing-object.") + kFsName[fs] + "." + kObsName[obs], fs, obs, s1, s2, std::string(which) + " observation of a missing object is not the 'missing' record");
  }

  void runPair(const std::string& dir, const State& s1, const State& s2) {
    ++pairs;
    // fresh world
    if (::mkdir(dir.c_str(), 0755) != 0) die("mkdir " + dir);
    std::string path = dir + "/x";
    { State t; t.type = Regular; t.content = 1; t.mt = 1; t.replace = true; apply(dir + "/tA", t); t.content = 2; apply(dir + "/tB", t); }

    apply(path, s1);
    Truth f1 = truth(path, true), l1 = truth(path, false);
    FileInfo A[3][3], A2[3][3], B[3][3];
    for (int fs = 0; fs < 3; ++fs)
      for (int obs = 0; obs < 3; ++obs) {
        if (obs == 2 && fs != 0) continue;
        A[fs][obs] = observe(fs, obs, path);
        A2[fs][obs] = observe(fs, obs, path);
      }
    apply(path, s2);
    Truth f2 = truth(path, true), l2 = truth(path, false);
    for (int fs = 0; fs < 3; ++fs)
      for (int obs = 0; obs < 3; ++obs) {
        if (obs == 2 && fs != 0) continue;
        B[fs][obs] = observe(fs, obs, path);
      }
    // clean up
    removeAny(path); removeAny(path + ".new"); removeAny(dir + "/tA"); removeAny(dir + "/tB");
    if (::rmdir(dir.c_str()) != 0) die("rmdir " + dir);

    for (int fs = 0; fs < 3; ++fs)
      for (int obs = 0; obs < 3; ++obs) {
        if (obs == 2 && fs != 0) continue;
        if (onlyFs >= 0 && (fs != onlyFs || obs != onlyObs)) continue;
        const Truth& t1 = obs == 1 ? l1 : f1;
        const Truth& t2 = obs == 1 ? l2 : f2;
        const FileInfo &a = A[fs][obs], &a2 = A2[fs][obs], &b = B[fs][obs];
        if (verbose) {
          printf("%s/%s\n  state1 %s: truth %s\n    observed %s\n    again    %s\n  state2 %s: truth %s\n    observed %s\n", kFsName[fs], kObsName[obs],
                 s1.name.c_str(), truthStr(t1).c_str(), infoStr(a).c_str(), infoStr(a2).c_str(), s2.name.c_str(), truthStr(t2).c_str(), infoStr(b).c_str());
        }
        bool okA = digestCheck(fs, obs, s1, s2, "first", a, f1, l1);
        bool okA2 = digestCheck(fs, obs, s1, s2, "repeated", a2, f1, l1);
        bool okB = digestCheck(fs, obs, s1, s2, "second", b, f2, l2);
        if (obs == 2) continue;  // bare checksum: digest only
        missingCheck(fs, obs, s1, s2, "first", a, t1);
        missingCheck(fs, obs, s1, s2, "second", b, t2);

        std::string tag = std::string(kFsName[fs]) + "." + kObsName[obs];
        // not touched
        ++cmp; ++untouched;
        if (!(okA && okA2)) ++tainted;
        else if (!(a == a2) || (a != a2)) fail("C13.untouched-unequal." + tag, fs, obs, s1, s2, "two observations of the untouched " + truthStr(t1) + " compare unequal");

        // s1 vs s2
        ++cmp;
        bool existsDiff = t1.exists != t2.exists, both = t1.exists && t2.exists;
        bool typeDiff = both && t1.type != t2.type, sizeDiff = both && t1.size != t2.size;
        bool mtimeDiff = both && (t1.sec != t2.sec || t1.nsec != t2.nsec), devinoDiff = both && (t1.dev != t2.dev || t1.ino != t2.ino);
        bool contentDiff = both && t1.content != t2.content;
        if (existsDiff || typeDiff || sizeDiff || mtimeDiff || devinoDiff || contentDiff) ++nontrivial;
        bool mustUnequal, mustEqual;
        if (fs == 0) {
          mustUnequal = existsDiff || sizeDiff || mtimeDiff || devinoDiff;
          mustEqual = !t1.exists && !t2.exists;
        } else if (fs == 1) {
          mustUnequal = existsDiff || sizeDiff || mtimeDiff;
          mustEqual = !existsDiff && !typeDiff && !sizeDiff && !mtimeDiff && !contentDiff;
        } else {
          mustUnequal = existsDiff || typeDiff || sizeDiff || contentDiff;
          mustEqual = !mustUnequal;
        }
        bool eq = a == b;
        if ((a != b) == eq) fail("C13.operators-inconsistent." + tag, fs, obs, s1, s2, "operator== and operator!= agree");
        if (!(okA && okB)) { ++tainted; continue; }
        ++(eq ? gotEq : gotNe);
        if (!mustUnequal && !mustEqual) { ++unjudged; continue; }
        ++(mustUnequal ? mustNe : mustEq);
        if (mustUnequal && eq) {
          std::string cls = "C13.missed-change." + tag;
          const Truth& ex = t1.exists ? t1 : t2;
          std::string symptom;
          if (fs == 2 && obs == 1 && t1.type != Link && t2.type != Link && ((existsDiff && ex.size == 0) || (both && !sizeDiff))) {
            // ChecksumOnlyFileSystem::getLinkInfo stores an all-zero checksum for anything that is not a symlink, so
            // neither content nor type (nor, for an empty file, existence) of a non-symlink is visible through it.
            // Matcher: both states are non-symlinks whose sizes agree (size is the only other field left to compare).
            cls = "C13.checksum-linkinfo-nonlink-not-hashed";
            symptom = existsDiff ? " [existence change missed]" : typeDiff ? " [type change missed]" : " [content change missed]";
          } else if (fs == 1 && existsDiff && ex.size == 0 && ex.sec == 0 && ex.nsec == 0) {
            // operator== ignores mode, the only non-zero field left of an empty epoch-0 file once device/inode are zeroed
            cls = "C13.devagnostic-epoch0-empty-file-equals-missing";
          }
          fail(cls, fs, obs, s1, s2, "observations of [" + truthStr(t1) + "] and [" + truthStr(t2) + "]" + (contentDiff ? " (content differs)" : "") + " compare EQUAL" + symptom);
        } else if (mustEqual && !eq) {
          fail("C13.false-change." + tag, fs, obs, s1, s2, "observations of [" + truthStr(t1) + "] and [" + truthStr(t2) + "]" + (devinoDiff ? " (inode replaced)" : "") + " with equal " +
                                                              (fs == 2 ? "type, size and content" : "type, size, mtime and content") + " compare UNEQUAL");
        } else if (fs == 1 && obs == 0 && mustEqual && devinoDiff && s1.type == Regular && contents[(size_t)s1.content].name == "ab") {
          res.sample("{\"fs\": \"devagnostic\", \"obs\": \"getFileInfo\", \"s1\": " + vj::q(s1.name) + ", \"s2\": " + vj::q(s2.name) + ", \"truth\": \"inode replaced, same size+mtime+content\", \"equal\": true}", 2);
        } else if (fs == 0 && obs == 1 && mustUnequal && s1.type == Link && s2.type == Link) {
          res.sample("{\"fs\": \"default\", \"obs\": \"getLinkInfo\", \"s1\": " + vj::q(s1.name) + ", \"s2\": " + vj::q(s2.name) + ", \"equal\": false}", 4);
        } else if (fs == 2 && obs == 1 && mustEqual && mtimeDiff && s1.type == Dir) {
          res.sample("{\"fs\": \"checksum\", \"obs\": \"getLinkInfo\", \"s1\": " + vj::q(s1.name) + ", \"s2\": " + vj::q(s2.name) + ", \"truth\": \"pure mtime change\", \"equal\": true}", 6);
        }
      }
  }

  void flush() {
    res.count("evaluations", cmp);
    res.count("distinct_nontrivial", nontrivial);
    res.count("state_pairs", pairs);
    res.count("comparisons_untouched", untouched);
    res.count("judged_must_unequal", mustNe);
    res.count("judged_must_equal", mustEq);
    res.count("comparisons_statement_silent", unjudged);
    res.count("comparisons_tainted_by_bad_digest", tainted);
    res.count("impl_said_equal", gotEq);
    res.count("impl_said_unequal", gotNe);
    res.count("digest_checks", digestChecks);
    res.count("missing_record_checks", missingChecks);
  }
};

}  // namespace

void enumx::runC13(vj::Args& args, vj::Result& res) {
  if (!refmd5::selfTest()) { fprintf(stderr, "reference MD5 fails its known-answer test\n"); exit(3); }
  // size of an empty directory on the scratch file system
  std::string probe = scratchDir + "/probe";
  if (::mkdir(probe.c_str(), 0755) != 0) die("mkdir probe");
  struct stat st;
  if (::lstat(probe.c_str(), &st) != 0) die("lstat probe");
  ::rmdir(probe.c_str());
  // replay always uses the larger (thorough) state list: state names are the same, so a thorough finding replays under any tier
  buildSpace(args.thorough() || !args.replaySpec.empty(), (size_t)st.st_size);

  std::string cl;
  for (auto& c : contents) cl += (cl.empty() ? "" : ",") + c.name + "(" + std::to_string(c.bytes.size()) + "B)";
  res.strings["rule"] =
      "all ordered pairs (s1,s2) of " + std::to_string(states.size()) + " path states {missing; regular file x content {" + cl +
      "} x mtime {0.0, T.500ns, T.501ns, T+1s.500ns} x inode {kept: rewritten in place, replaced: new file + rename}; directory x 2 mtimes; "
      "symlink->file x {2 targets of equal length, 2 mtimes}; dangling symlink} x {default, device-agnostic, checksum-only} x {getFileInfo, "
      "getLinkInfo}; evaluations = FileInfo comparisons made (s1 vs s2 plus s1 observed twice untouched); distinct_nontrivial = s1-vs-s2 "
      "comparisons whose ground truth (own stat/lstat/read/readlink) really differs in existence, type, size, mtime, dev/inode or content";
  res.counters["states"] = args.shard == 0 ? (long long)states.size() : 0;
  res.assumptions.push_back("C13: scratch files live on tmpfs (/dev/shm): nanosecond mtimes, one device; a change of device number alone is not produced (inode replacement is)");
  res.assumptions.push_back("C13: default mode: pairs that agree in existence, size, mtime, device and inode but differ in content (same-size in-place rewrite with restored mtime) are not judged: the statement promises nothing for them; same for device-agnostic mode");
  res.assumptions.push_back("C13: in checksum-only mode a comparison is judged only when both checksum fields equal the independently computed intended digest; otherwise it is counted as tainted and the digest violation is the verdict (keeps the verdict deterministic with uninitialised bytes)");
  res.assumptions.push_back("C13: 'exists' is relative to the observer: getFileInfo follows symlinks (a dangling symlink is missing), getLinkInfo does not");
  res.assumptions.push_back("C13: mtime 0.0 (epoch) and a regular file of exactly the size of an empty directory are included beyond the space of DESIGN 5/C13");

  Runner run(args, res);

  if (!args.replaySpec.empty()) {
    // "fs=<name>;obs=<name>;s1=<state>;s2=<state>"
    std::map<std::string, std::string> kv;
    for (auto& p : split(args.replaySpec, ';')) { auto e = p.find('='); if (e != std::string::npos) kv[p.substr(0, e)] = p.substr(e + 1); }
    int i1 = findState(kv["s1"]), i2 = findState(kv["s2"]);
    for (int i = 0; i < 3; ++i) { if (kv["fs"] == kFsName[i]) run.onlyFs = i; if (kv["obs"] == kObsName[i]) run.onlyObs = i; }
    if (i1 < 0 || i2 < 0 || run.onlyFs < 0 || run.onlyObs < 0) { fprintf(stderr, "bad C13 replay spec (unknown state / fs / obs; thorough-only states need --tier thorough)\n"); exit(3); }
    run.verbose = true;
    run.runPair(scratchDir + "/replay", states[(size_t)i1], states[(size_t)i2]);
    run.flush();
    return;
  }

  size_t n = states.size();
  for (size_t i = 0; i < n * n; ++i) {
    if ((int)(i % (size_t)args.nshards) != args.shard) continue;
    if (args.overBudget()) { res.exhaustive = false; res.count("work_items_skipped_budget"); continue; }
    run.runPair(scratchDir + "/p" + std::to_string(i), states[i / n], states[i % n]);
  }
  run.flush();
}

// enumx: bounded-exhaustive enumerators (DESIGN.md §4.6) for C13, C14 (predicate part), C15.
#pragma once
#include "../common/json.h"

#include <string>
#include <vector>

namespace enumx {

extern char* progressPage;      // shared page: the item in progress (crash attribution), may be null
extern std::string scratchDir;  // /dev/shm/verif-enumx-<pid>

// Each part fills `res`; returns nothing (main writes the file and derives the exit code).
void runC13(vj::Args& args, vj::Result& res);
void runC14(vj::Args& args, vj::Result& res);
void runC15(vj::Args& args, vj::Result& res);

// helper: record a violation and keep a per-class total (summed across shards)
inline void violate(vj::Result& res, const std::string& cls, const std::string& what, const std::string& spec) {
  res.count("n_" + cls);
  res.violate(cls, what, spec);
}

// printable rendering of arbitrary bytes (used in `what` lines and samples)
inline std::string show(const std::string& s) {
  std::string o = "\"";
  for (unsigned char c : s) {
    if (c == '"' || c == '\\') { o += '\\'; o += (char)c; }
    else if (c >= 0x20 && c < 0x7f) o += (char)c;
    else { char b[8]; snprintf(b, sizeof b, "\\x%02x", c); o += b; }
  }
  return o + "\"";
}
inline std::string hexs(const std::string& s) {
  static const char* h = "0123456789abcdef";
  std::string o;
  for (unsigned char c : s) { o += h[c >> 4]; o += h[c & 15]; }
  return o;
}
inline bool unhex(const std::string& h, std::string& out) {
  out.clear();
  if (h.size() % 2) return false;
  auto v = [](char c) -> int { return c >= '0' && c <= '9' ? c - '0' : c >= 'a' && c <= 'f' ? c - 'a' + 10 : -1; };
  for (size_t i = 0; i < h.size(); i += 2) {
    int a = v(h[i]), b = v(h[i + 1]);
    if (a < 0 || b < 0) return false;
    out.push_back((char)(a * 16 + b));
  }
  return true;
}
inline std::vector<std::string> split(const std::string& s, char sep) {
  std::vector<std::string> out;
  std::string cur;
  for (char c : s) {
    if (c == sep) { out.push_back(cur); cur.clear(); }
    else cur += c;
  }
  out.push_back(cur);
  return out;
}

}  // namespace enumx

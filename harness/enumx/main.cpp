// enumx: bounded-exhaustive enumerators (DESIGN.md §4.6).
//
//   enumx --prop C13|C14|C15 --tier quick|thorough --shard i --nshards n --out FILE --seed S --budget SECONDS
//         [--replay-spec "<spec>"]
//
//   C13  file states x file-system modes (c13.cpp)       replay spec: fs=<default|devagnostic|checksum>;obs=<file|link|cksum>;s1=<state>;s2=<state>
//   C14  pathIsPrefixedByPath vs component-wise reference (c14.cpp)   replay spec: p=<path>;r=<root>
//   C15  BuildKey/BuildValue codec (c15.cpp)              replay spec: <desc>[|<desc>]  or  kind-tags
//
// --seed is accepted and ignored: the enumeration order is fixed (simplest first) and complete.
#include <sys/mman.h>
#include <sys/wait.h>
#include "enumx.h"

#include <sys/stat.h>
#include <unistd.h>

std::string enumx::scratchDir;
char* enumx::progressPage = nullptr;

static void cleanup() {
  if (enumx::scratchDir.empty()) return;
  std::string cmd = "rm -rf '" + enumx::scratchDir + "'";
  (void)system(cmd.c_str());
}

static int realMain(vj::Args& args);

int main(int argc, char** argv) {
  vj::Args args;
  args.parse(argc, argv);
  // Run in a child: a crash of the code under test (e.g. a decoder returning a
  // wild length) is a verdict, not a harness error.
  enumx::progressPage = (char*)mmap(nullptr, 4096, PROT_READ | PROT_WRITE, MAP_SHARED | MAP_ANONYMOUS, -1, 0);
  if (enumx::progressPage == MAP_FAILED) enumx::progressPage = nullptr;
  pid_t pid = fork();
  if (pid == 0) exit(realMain(args));
  int st = 0;
  waitpid(pid, &st, 0);
  if (WIFEXITED(st)) return WEXITSTATUS(st);
  vj::Result res;
  std::string cur = enumx::progressPage ? enumx::progressPage : "";
  res.count("evaluations");
  res.count("distinct_nontrivial");
  res.exhaustive = false;
  res.violate(args.prop + ".crash", "the process crashed (signal " + std::to_string(WTERMSIG(st)) + ") while handling: " + cur, "crash:" + cur);
  res.write(args.out);
  return 1;
}

static int realMain(vj::Args& args) {
  if (args.nshards < 1 || args.shard < 0 || args.shard >= args.nshards) { fprintf(stderr, "bad --shard/--nshards\n"); return 3; }
  enumx::scratchDir = "/dev/shm/verif-enumx-" + std::to_string(getpid());
  vj::Result res;
  if (args.prop == "C13") {
    cleanup();
    if (mkdir(enumx::scratchDir.c_str(), 0700) != 0) { perror("mkdir scratch"); return 3; }
    atexit(cleanup);
    enumx::runC13(args, res);
  } else if (args.prop == "C14") {
    enumx::runC14(args, res);
  } else if (args.prop == "C15") {
    enumx::runC15(args, res);
  } else {
    fprintf(stderr, "enumx: unknown --prop '%s' (C13, C14, C15)\n", args.prop.c_str());
    return 3;
  }
  if (!res.counters.count("evaluations")) res.counters["evaluations"] = 0;
  if (!res.counters.count("distinct_nontrivial")) res.counters["distinct_nontrivial"] = 0;
  if (!args.replaySpec.empty()) {
    for (auto& v : res.violations) printf("violation %s: %s\n", v.cls.c_str(), v.what.c_str());
    if (res.violations.empty()) printf("no violation on this execution\n");
  }
  if (!res.write(args.out)) { fprintf(stderr, "cannot write %s\n", args.out.c_str()); return 3; }
  return res.violations.empty() ? 0 : 1;
}

/* vdep: a command that "succeeds" and leaves behind a dependency file with arbitrary bytes.
 *
 *   vdep TAG OUT DEPS HEX [DEPS2 HEX2]...
 *       appends "TAG\n" to exec.log (in the sandbox root = nearest ancestor of the cwd holding `.vclock`,
 *       at most 6 levels up; the cwd if there is none), writes "TAG" to OUT, writes the bytes encoded by
 *       HEX (two hex digits per byte, "" = empty file, "-" = do not create the file) to DEPS, exits 0.
 *
 * Used by worldx2 (C11) for malformed dependency files, which worldx's vcmd (always well-formed output) cannot
 * produce.  Static, no shell.
 */
#include <fcntl.h>
#include <stdio.h>
#include <stdlib.h>
#include <string.h>
#include <sys/stat.h>
#include <unistd.h>

static int hexval(int c) {
  if (c >= '0' && c <= '9') return c - '0';
  if (c >= 'a' && c <= 'f') return c - 'a' + 10;
  if (c >= 'A' && c <= 'F') return c - 'A' + 10;
  return -1;
}

static int put(const char* path, const char* data, size_t n, int flags) {
  int fd = open(path, O_WRONLY | O_CREAT | flags, 0644);
  if (fd < 0) { dprintf(2, "vdep: cannot write %s\n", path); return 1; }
  size_t off = 0;
  while (off < n) {
    ssize_t w = write(fd, data + off, n - off);
    if (w < 0) { close(fd); return 1; }
    off += (size_t)w;
  }
  close(fd);
  return 0;
}

int main(int argc, char** argv) {
  if (argc < 5 || (argc - 3) % 2) return 2;
  char root[64] = "", p[128];
  struct stat st;
  int found = 0;
  for (int i = 0; i < 6; ++i) {
    snprintf(p, sizeof p, "%s.vclock", root);
    if (stat(p, &st) == 0) { found = 1; break; }
    strcat(root, "../");
  }
  if (!found) root[0] = 0;
  char line[256];
  int n = snprintf(line, sizeof line, "%s\n", argv[1]);
  snprintf(p, sizeof p, "%sexec.log", root);
  if (put(p, line, (size_t)n, O_APPEND)) return 1;
  if (put(argv[2], argv[1], strlen(argv[1]), O_TRUNC)) return 1;
  /* (DEPS HEX) pairs: argv[3] argv[4] [argv[5] argv[6] ...] */
  for (int k = 3; k + 1 < argc; k += 2) {
    const char* hex = argv[k + 1];
    if (!strcmp(hex, "-")) continue;
    size_t l = strlen(hex);
    if (l % 2) return 2;
    char* buf = malloc(l / 2 + 1);
    for (size_t i = 0; i < l / 2; ++i) {
      int a = hexval(hex[2 * i]), b = hexval(hex[2 * i + 1]);
      if (a < 0 || b < 0) return 2;
      buf[i] = (char)(a * 16 + b);
    }
    if (put(argv[k], buf, l / 2, O_TRUNC)) return 1;
  }
  return 0;
}

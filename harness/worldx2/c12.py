"""C12: directory-tree / directory-structure signatures change exactly when the (filter-visible) tree changes.

History of every case: build; edit(s); build -- each build a new `llbuild buildsystem build` process on the same
database.  Observation: did the command that consumes the directory node re-execute (exec.log).  Chained histories
(build; e1; build; e2; build) judge the LAST build against the tree as it was at the second build; a disagreement
there that the last edit alone also shows on a fresh tree is filed under the single edit's class, otherwise under
`<class>-after-rebuild`.

Two execution paths, both through the real tool:

  isolated   fresh sandbox, ONE tree `T`, ONE consuming command, build, edit(s), build.  This is what a replay spec
             runs and what every violation is confirmed with before it is recorded.
  batch      per shape one sandbox holding six copies T1..T6 of the tree, one per configuration
             {tree, structure} x {no filter, `*.x`, exact name `b`}, consumed by six commands of one description.
             After the first build the database is snapshotted; for every edit sequence the edit is applied to all
             six trees, the database snapshot is put back, the second build runs, and the edit is undone EXACTLY
             (removed entries are parked outside the tree and renamed back, contents are rewritten in place, all
             mtimes and modes are put back) so that device/inode/mode/size/mtime of every entry -- everything llbuild
             looks at -- is as it was after the first build; the lstat fingerprint is re-verified after every undo.
             Every STRIDE-th batch case is re-run isolated and must agree (a disagreement is a harness error).

Oracle (reference = a recursive lstat walk, excluded names pruned by fnmatch on the basename at every level, which
is what `content-exclusion-patterns` is implemented and tested to mean -- FilteredDirectoryContentsTask matches
`filename(it->path())` and passes the same filters down to every sub-directory signature):

  V  = visible listing: path -> file(size, mtime, mode, content) | symlink(target) | dir          (no dir mtimes)
  DM = (mtime, size) of the visible sub-directories (on tmpfs a directory's size counts its entries);
  R  = (mtime, size) of the root directory itself
  S  = visible structure: path -> type

  tree input       V changed (other than permission bits only)  => must re-execute
                   V, DM equal and (R equal or all edits named hidden paths) => must not re-execute
                   otherwise (only directory metadata or permission bits differ) => not asserted (statement is silent;
                   FileInfo equality leaves the mode out by design)
  either input     a quiet edit (parent mtime put back) of a VISIBLE name => not asserted
  structure input  S changed                                   => must re-execute
                   S equal and every edit is content-only (file content / file mtime / link target) or hidden
                                                                => must not re-execute
                   otherwise (chmod, directory mtime, compound edits that restore the structure) => not asserted

Two further dimensions (the ENVIRONMENT of a case, `<root kind>/<file-system mode>`, `src/default` being the original space):

  root kind    src    the tree root is a plain source directory
               mkdir  the tree root is the output of a `mkdir` tool command of the description (the consumer still takes
                      `<root>/` as its input).  The mkdir command's result stays valid while the directory exists
                      (MkdirCommand::isResultValid), so the node record of the root never changes and only the listing
                      comparison can notice new entries.  Two histories:
                        - the directory and its contents exist before the first build (`mkdir -p` of an existing
                          directory), then build, edit(s), build exactly as for a source root;
                        - the case `populate`: build (the command creates the empty directory, the consumer runs), the
                          driver fills the directory with the shape, build: the consumer must run again when anything
                          visible appeared.
  fs mode      default | device-agnostic | checksum-only: the `file-system:` key of the description's client section.
               The reference only changes where C13's statement says the observation changes: in checksum-only mode a
               file's mtime is not part of the comparison, so a case whose only difference is a file's mtime is NOT
               asserted either way there (content changes of any size, additions, removals, renames, retypes, link
               retargets are).  No edit of the alphabet replaces an inode without changing anything else, so
               device-agnostic mode has the default reference.
               In checksum-only mode the trees live on a file system whose directory size does not depend on the number
               of entries (a disk file system under $VERIF_WORLDX2_DISK, default /var/tmp; tmpfs counts entries in
               st_size), because there the directory's own record really carries nothing that moves when an entry is
               added; everything else of the sandbox (database, description, outputs, exec.log) stays on /dev/shm.  If no
               such file system is available the trees stay on tmpfs (counter max_checksum_only_trees_on_disk_fs = 0).
  A violation found in another environment is re-run in `src/default` (and in the two environments that differ from it in
  one component): its class gets the suffix `-mkdir-root` / `-<fs mode>` only for the components it really needs.
"""
import fnmatch
import os
import shutil
import stat

import wx
from wx import Sandbox, HarnessError, Cmd, Desc
import treemodel as tm

CFGS = [("tree", "none"), ("tree", "star"), ("tree", "exact"),
        ("structure", "none"), ("structure", "star"), ("structure", "exact")]
PATTERN = {"none": None, "star": "*.x", "exact": "b"}
MUST, MUSTNOT, SILENT = "must", "mustnot", "silent"


ROOTKINDS = ("src", "mkdir")
FSMODES = ("default", "device-agnostic", "checksum-only")
BASE_ENV = ("src", "default")
ENVS = [(r, f) for r in ROOTKINDS for f in FSMODES]
NEW_ENVS = [e for e in ENVS if e != BASE_ENV]
POPULATE = "populate"          # pseudo edit list: the judged build is the one after the driver filled a mkdir-produced root

# Directory on a file system whose directories do not change size with their entry count (set by worldx2.py after
# probing; None: not available).  Trees of checksum-only cases are placed there.
DISK = None
_disk_n = [0]


def cfg_name(cfg, env=BASE_ENV):
    return "%s/%s" % cfg + ("" if env == BASE_ENV else "/%s/%s" % env)


def parse_cfg(s):
    """`<input>/<filter>[/<root kind>/<fs mode>]` -> (cfg, env)."""
    f = s.split("/")
    if len(f) not in (2, 4) or (f[0], f[1]) not in CFGS:
        raise HarnessError("bad configuration " + s)
    env = BASE_ENV if len(f) == 2 else (f[2], f[3])
    if env not in ENVS:
        raise HarnessError("bad environment in configuration " + s)
    return (f[0], f[1]), env


def env_suffix(env):
    return ("-mkdir-root" if env[0] == "mkdir" else "") + ("" if env[1] == "default" else "-" + env[1])


def env_text(env):
    if env == BASE_ENV:
        return ""
    t = []
    if env[0] == "mkdir":
        t.append("root produced by a mkdir command")
    if env[1] != "default":
        t.append("client file-system: " + env[1])
    return " [" + ", ".join(t) + "]"


def new_tree_base(env):
    """Where the trees of a case in ENV live: None = in the sandbox (tmpfs), else a fresh directory on DISK."""
    if env[1] != "checksum-only" or DISK is None:
        return None
    _disk_n[0] += 1
    d = os.path.join(DISK, "%d" % _disk_n[0])
    if os.path.exists(d):
        shutil.rmtree(d)
    os.makedirs(d)
    return d


def drop_tree_base(base):
    if base is not None:
        shutil.rmtree(base, ignore_errors=True)


def root_path(base, name):
    """Tree root as named in the description: relative to the sandbox, or absolute when the trees are on DISK (every
    sandbox primitive joins paths with os.path.join, which keeps an absolute second operand as it is)."""
    return name if base is None else os.path.join(base, name)


# ---------------------------------------------------------------- description
def make_desc(roots_cfgs, env=BASE_ENV):
    """roots_cfgs: list of (root dir path, cfg, tag)."""
    cmds, nodes, outs = [], {}, []
    for root, cfg, tag in roots_cfgs:
        node = root + "/"
        attrs = {}
        if cfg[0] == "structure":
            attrs["is-directory-structure"] = "true"
        if PATTERN[cfg[1]] is not None:
            attrs["content-exclusion-patterns"] = [PATTERN[cfg[1]]]
        if attrs:
            nodes[node] = attrs
        out = "o-" + tag
        if env[0] == "mkdir":
            cmds.append(Cmd("mk-" + tag, [], [root], tool="mkdir"))
        cmds.append(Cmd(tag, [node], [out], reads=[]))
        outs.append(out)
    return Desc("c12", cmds, {"all": outs}, nodes=nodes, fs=None if env[1] == "default" else env[1])


def render(desc):
    # list-valued node attributes come out of Desc.yaml() as JSON lists, which are YAML flow sequences
    return desc.yaml()


# ---------------------------------------------------------------- the file system side
FILE0 = "x0"


def link_target(path, retargets=0):
    return "../" * tm.depth(path) + ("ext" if retargets % 2 == 0 else "ex2")


class Trees:
    """Applies edits to one or several identical trees in a sandbox and can undo them exactly."""

    def __init__(self, sb, roots, base=None):
        """BASE: directory holding the roots, the link targets and the stash (None: the sandbox root); the stash must
        be on the file system of the trees (entries are parked by rename)."""
        self.sb = sb
        self.roots = list(roots)
        self.journal = []
        self.stash_n = 0
        self.stash = root_path(base, "stash")
        sb.write(root_path(base, "ext"), "E")
        sb.write(root_path(base, "ex2"), "F")
        os.mkdir(sb.p(self.stash))

    # -- creation
    def populate(self, shape, make_roots=True):
        for root in self.roots:
            if make_roots:
                os.mkdir(self.sb.p(root))
            elif not os.path.isdir(self.sb.p(root)):
                raise HarnessError("tree root %s was not produced by the build" % root)
            self._populate(root, shape, "")
            self.sb.stamp(root)

    def _populate(self, root, shape, prefix):
        for n, k, sub in shape:
            rel = prefix + n
            full = root + "/" + rel
            if k == "f":
                with open(self.sb.p(full), "w") as f:
                    f.write(FILE0)
                os.chmod(self.sb.p(full), 0o644)
                self.sb.stamp(full)
            elif k == "l":
                os.symlink(link_target(rel), self.sb.p(full))
            else:
                os.mkdir(self.sb.p(full), 0o755)
                self._populate(root, sub, rel + "/")
                self.sb.stamp(full)

    # -- primitives (each on one root; inverse actions are journalled)
    def _park(self, full):
        self.stash_n += 1
        dst = "%s/%d" % (self.stash, self.stash_n)
        os.rename(self.sb.p(full), self.sb.p(dst))
        self.journal.append(("unpark", dst, full))

    def _create(self, root, rel, kind):
        full = root + "/" + rel
        p = self.sb.p(full)
        if kind == "f":
            with open(p, "w") as f:
                f.write("new")
            os.chmod(p, 0o644)
            self.sb.stamp(full)
        elif kind == "l":
            os.symlink(link_target(rel), p)
        elif kind in ("d", "D"):
            os.mkdir(p, 0o755)
            if kind == "D":
                with open(p + "/a", "w") as f:
                    f.write(FILE0)
                self.sb.stamp(full + "/a")
            self.sb.stamp(full)
        else:
            raise HarnessError("bad kind " + kind)
        self.journal.append(("destroy", full))

    def _parent(self, root, rel):
        dp, _ = tm.split(rel)
        return root + ("/" + dp if dp else "")

    def apply(self, e):
        for root in self.roots:
            self._apply(root, e)

    def _apply(self, root, e):
        sb = self.sb
        op = tm.base_op(e)
        rel = e[1]
        full = root + "/" + rel
        parent = self._parent(root, rel)
        if op in ("add", "rm", "mv", "ty"):
            old_parent_mtime = os.lstat(sb.p(parent)).st_mtime_ns
            if op == "add":
                self._create(root, rel, e[2])
            elif op == "rm":
                self._park(full)
            elif op == "mv":
                new = parent + "/" + e[2]
                os.rename(sb.p(full), sb.p(new))
                self.journal.append(("rename", new, full))
            else:
                self._park(full)
                self._create(root, rel, e[2])
            if tm.is_quiet(e):
                os.utime(sb.p(parent), ns=(old_parent_mtime, old_parent_mtime))
            else:
                sb.stamp(parent)
        elif op in ("cs", "cd"):
            with open(sb.p(full)) as f:
                old = f.read()
            if op == "cs":
                new = old[:-1] + ("1" if old[-1] != "1" else "2")
            else:
                new = old + "+"
            self._rewrite(full, new)
            self.journal.append(("rewrite", full, old))
            sb.stamp(full)
        elif op == "mt":
            sb.stamp(full)
        elif op == "ch":
            mode = stat.S_IMODE(os.lstat(sb.p(full)).st_mode)
            os.chmod(sb.p(full), 0o600 if mode == 0o644 else 0o644)
            self.journal.append(("chmod", full, mode))
        elif op == "lt":
            cur = os.readlink(sb.p(full))
            new = cur[:-3] + ("ex2" if cur.endswith("ext") else "ext")
            self._park(full)
            os.symlink(new, sb.p(full))
            self.journal.append(("destroy", full))
        else:
            raise HarnessError("bad edit %r" % (e,))

    def _rewrite(self, full, content):
        # in place: the inode is kept
        fd = os.open(self.sb.p(full), os.O_WRONLY | os.O_TRUNC)
        try:
            os.write(fd, content.encode())
        finally:
            os.close(fd)

    def undo(self):
        sb = self.sb
        for act in reversed(self.journal):
            if act[0] == "unpark":
                os.rename(sb.p(act[1]), sb.p(act[2]))
            elif act[0] == "destroy":
                p = sb.p(act[1])
                if os.path.isdir(p) and not os.path.islink(p):
                    shutil.rmtree(p)
                else:
                    os.unlink(p)
            elif act[0] == "rename":
                os.rename(sb.p(act[1]), sb.p(act[2]))
            elif act[0] == "rewrite":
                self._rewrite(act[1], act[2])
            elif act[0] == "chmod":
                os.chmod(sb.p(act[1]), act[2])
        self.journal = []

    def forget(self):
        self.journal = []


def fingerprint(sb, rels):
    """Everything llbuild can see of the given paths, recursively: lstat (ino, mode, size, mtime) + link target +
    file content."""
    fp = {}

    def visit(rel):
        p = sb.p(rel)
        st = os.lstat(p)
        if stat.S_ISLNK(st.st_mode):
            fp[rel] = ("l", st.st_ino, os.readlink(p))
        elif stat.S_ISDIR(st.st_mode):
            fp[rel] = ("d", st.st_ino, st.st_mode, st.st_mtime_ns)
            for n in sorted(os.listdir(p)):
                visit(rel + "/" + n)
        else:
            with open(p) as f:
                c = f.read()
            fp[rel] = ("f", st.st_ino, st.st_mode, st.st_size, st.st_mtime_ns, c)

    for r in rels:
        visit(r)
    return fp


def restore_mtimes(sb, fp):
    for rel, v in fp.items():
        if v[0] == "l":
            continue
        want = v[-1] if v[0] == "d" else v[4]
        p = sb.p(rel)
        if os.lstat(p).st_mtime_ns != want:
            os.utime(p, ns=(want, want))


# ---------------------------------------------------------------- the reference
class View:
    __slots__ = ("V", "DM", "R", "S")


def view(sb, root, pattern):
    v = View()
    v.V, v.DM, v.S = {}, {}, {}
    st = os.lstat(sb.p(root))
    v.R = (st.st_mtime_ns, st.st_size)

    def visit(rel_dir):
        base = sb.p(root + ("/" + rel_dir if rel_dir else ""))
        for n in sorted(os.listdir(base)):
            if pattern is not None and fnmatch.fnmatchcase(n, pattern):
                continue
            rel = (rel_dir + "/" if rel_dir else "") + n
            p = os.path.join(base, n)
            st = os.lstat(p)
            if stat.S_ISLNK(st.st_mode):
                v.V[rel] = ("l", os.readlink(p))
                v.S[rel] = "l"
            elif stat.S_ISDIR(st.st_mode):
                v.V[rel] = ("d",)
                v.S[rel] = "d"
                v.DM[rel] = (st.st_mtime_ns, st.st_size)
                visit(rel)
            else:
                with open(p) as f:
                    c = f.read()
                v.V[rel] = ("f", st.st_size, st.st_mtime_ns, stat.S_IMODE(st.st_mode), c)
                v.S[rel] = "f"

    visit("")
    return v


def strip_mode(V):
    return {p: (x[:3] + x[4:] if x[0] == "f" else x) for p, x in V.items()}


def strip_mode_mtime(V):
    return {p: (x[:2] + x[4:] if x[0] == "f" else x) for p, x in V.items()}


def compared(V, env):
    """The part of the visible listing whose change the statements require to be noticed in ENV's file-system mode:
    never the permission bits; not the files' mtimes in checksum-only mode (C13)."""
    return strip_mode_mtime(V) if env[1] == "checksum-only" else strip_mode(V)


def hidden(e, pattern):
    """The edit names only paths with a component matching the exclusion pattern."""
    if pattern is None:
        return False
    for p in tm.touched_paths(e):
        if not any(fnmatch.fnmatchcase(c, pattern) for c in p.split("/")):
            return False
    return True


def expectation_populate(cfg, v0, v1, env):
    """The build after the driver filled a root that the description's mkdir command had created empty."""
    if cfg[0] == "tree":
        return MUST if compared(v0.V, env) != compared(v1.V, env) else SILENT
    return MUST if v0.S != v1.S else SILENT


def expectation(cfg, v0, v1, edits, models, env=BASE_ENV):
    """models[i] = model before edits[i]."""
    if edits == POPULATE:
        return expectation_populate(cfg, v0, v1, env)
    pattern = PATTERN[cfg[1]]
    all_hidden = all(hidden(e, pattern) for e in edits)
    if any(tm.is_quiet(e) and not hidden(e, pattern) for e in edits):
        # an entry of a VISIBLE name changed while its directory's mtime was deliberately put back: not an edit
        # "with a fresh mtime"; the quiet variants exist to isolate hidden names
        return SILENT
    if cfg[0] == "tree":
        if compared(v0.V, env) != compared(v1.V, env):
            return MUST
        if v0.V != v1.V:
            # only permission bits differ: llbuild's notion of "the file changed" (FileInfo::operator==: device, inode,
            # size, mtime) deliberately leaves the mode out (DESIGN.md section 7, C13), so chmod is not asserted;
            # checksum-only mode: only permission bits and/or file mtimes differ, and "a pure timestamp change is
            # not [detected]" there (C13), so neither re-execution nor its absence is demanded
            return SILENT
        if v0.DM == v1.DM and (v0.R == v1.R or all_hidden):
            return MUSTNOT
        return SILENT
    if v0.S != v1.S:
        return MUST
    if all(hidden(e, pattern) or tm.is_content_only(m, e) for e, m in zip(edits, models)):
        return MUSTNOT
    return SILENT


def net_delta(inp, v0, v1):
    """Names of the net visible differences ([(name, depth)]); entries beneath an added / removed / retyped
    directory are not listed separately."""
    K = tm.KINDNAME
    A, B = (v0.S, v1.S) if inp == "structure" else (v0.V, v1.V)
    kind = (lambda x: x) if inp == "structure" else (lambda x: x[0])
    out, covered = [], []
    for p in sorted(set(A) | set(B)):
        if any(p.startswith(c + "/") for c in covered):
            continue
        a, b = A.get(p), B.get(p)
        if a == b:
            continue
        if a is None:
            name = "add-" + K[kind(b)]
            covered.append(p)
        elif b is None:
            name = "remove-" + K[kind(a)]
            covered.append(p)
        elif kind(a) != kind(b):
            name = "retype-%s-to-%s" % (K[kind(a)], K[kind(b)])
            covered.append(p)
        elif kind(a) == "l":
            name = "retarget-symlink"
        elif a[4] != b[4]:
            name = "content-same-size" if a[1] == b[1] else "content-different-size"
        elif a[3] != b[3]:
            name = "chmod"
        else:
            name = "mtime-only"
        out.append((name, tm.depth(p)))
    return out


def violation_class(cfg, edits, models, expect, v0=None, v1=None):
    inp, filt = cfg
    pattern = PATTERN[filt]
    tagf = "" if filt == "none" else "-" + filt
    if edits == POPULATE:
        return "C12.%s%s-missed-populate-of-produced-root" % (inp, tagf)
    if not edits:
        return "C12.null-build-reran-%s%s" % (inp, tagf)
    names = [tm.kind_name(m, e) for e, m in zip(edits, models)]
    d = max(tm.depth(p) for e in edits for p in tm.touched_paths(e))
    what = names[0] if len(edits) == 1 else "pair-" + "+".join(names)
    if expect == MUST:
        if len(edits) > 1 and v0 is not None:
            # a compound edit is classified by its NET visible difference, so that a pair which merely contains a
            # missed single edit falls into that single edit's class
            delta = net_delta(inp, v0, v1)
            if delta:
                d = max(x[1] for x in delta)
                kinds = sorted(set(x[0] for x in delta))
                what = kinds[0] if len(kinds) == 1 else "pair-net-" + "+".join(kinds)
        return "C12.%s%s-missed-%s-at-depth%d" % (inp, tagf, what, d)
    if all(hidden(e, pattern) for e in edits):
        return "C12.filter-leak-%s-%s-%s-at-depth%d" % (inp, filt, what, d)
    if inp == "structure":
        return "C12.structure%s-fired-on-content-change-%s-at-depth%d" % (tagf, what, d)
    return "C12.other-spurious-rerun-%s%s-%s-at-depth%d" % (inp, tagf, what, d)


def models_for(shape, edits):
    m = tm.to_model(shape)
    out = []
    if edits == POPULATE:
        return out
    for e in edits:
        out.append(tm.clone(m))
        tm.apply_model(m, e)
    return out


# ---------------------------------------------------------------- isolated path
def edits_text(edits):
    return POPULATE if edits == POPULATE else tm.edits_str(edits)


class Isolated:
    """Fresh sandbox, one tree, one consuming command, brought to the state after the first build: populate, build
    (with a mkdir root the description's mkdir command finds the directory in place).  MADE (mkdir roots only): build
    (the mkdir command makes the root), populate, build -- the outcome of that build is kept in .pop."""

    def __init__(self, shape, cfg, env, made=False):
        self.sb = sb = Sandbox()
        self.base = None
        self.builds = 0
        self.pop = None
        try:
            self.base = new_tree_base(env)
            self.root = root_path(self.base, "T")
            self.trees = Trees(sb, [self.root], self.base)
            self.pattern = PATTERN[cfg[1]]
            sb.write("build.llbuild", render(make_desc([(self.root, cfg, "c")], env)))
            what = "%s %s" % (tm.shape_str(shape), cfg_name(cfg, env))
            if made:
                if env[0] != "mkdir":
                    raise HarnessError("C12: `populate` needs a mkdir root")
                rc0, out0, ran0 = sb.build("all", "serial")
                self.builds += 1
                if rc0 != 0 or ran0 != ["c"] or not os.path.isdir(sb.p(self.root)):
                    raise HarnessError("C12 isolated: build that makes the root of %s: rc=%d ran=%r\n%s" % (what, rc0, ran0, out0))
                ve = view(sb, self.root, self.pattern)
                self.trees.populate(shape, make_roots=False)
                vp = view(sb, self.root, self.pattern)
                rc1, out1, ran1 = sb.build("all", "serial")
                self.builds += 1
                self.pop = {"expect": expectation_populate(cfg, ve, vp, env), "reran": "c" in ran1, "rc2": rc1, "out": out1,
                            "v0": ve, "v1": vp, "ran": ran1}
            else:
                self.trees.populate(shape)
                rc1, out1, ran1 = sb.build("all", "serial")
                self.builds += 1
                if rc1 != 0 or ran1 != ["c"]:
                    raise HarnessError("C12 isolated: first build of %s: rc=%d ran=%r\n%s" % (what, rc1, ran1, out1))
        except BaseException:
            self.close()
            raise

    def close(self):
        self.sb.destroy()
        drop_tree_base(self.base)


def run_isolated(shape, edits, cfg, env=BASE_ENV, verbose=False):
    """Returns dict(expect, reran, rc2, out, builds, v0, v1)."""
    iso = Isolated(shape, cfg, env, made=(edits == POPULATE))
    try:
        sb, pattern = iso.sb, iso.pattern
        if edits == POPULATE:
            r = dict(iso.pop)
            r["builds"] = iso.builds
            if verbose:
                print("shape   %s" % tm.shape_str(shape))
                print("config  %s (pattern %s)%s" % (cfg_name(cfg, env), pattern, env_text(env)))
                print("history build (mkdir makes the root); the driver populates it; build")
                print("visible listing after populating: %r" % (sorted(r["v1"].V.items()),))
                print("reference: %s re-execute; second build rc=%d executed %r" % (r["expect"], r["rc2"], r["ran"]))
                print(r["out"])
            return r
        v0 = view(sb, iso.root, pattern)
        for e in edits:
            iso.trees.apply(e)
        iso.trees.forget()
        v1 = view(sb, iso.root, pattern)
        rc2, out2, ran2 = sb.build("all", "serial")
        exp = expectation(cfg, v0, v1, edits, models_for(shape, edits), env)
        if verbose:
            print("shape   %s" % tm.shape_str(shape))
            print("config  %s (pattern %s)%s" % (cfg_name(cfg, env), pattern, env_text(env)))
            print("edits   %s" % tm.edits_str(edits))
            print("visible listing before: %r" % (sorted(v0.V.items()),))
            print("visible listing after : %r" % (sorted(v1.V.items()),))
            print("sub-directory (mtime, size) before/after: %r / %r ; root directory's own metadata changed: %s" % (
                sorted(v0.DM.items()), sorted(v1.DM.items()), v0.R != v1.R))
            print("reference: %s re-execute; second build rc=%d executed %r" % (exp, rc2, ran2))
            print(out2)
        return {"expect": exp, "reran": "c" in ran2, "rc2": rc2, "out": out2, "builds": iso.builds + 1, "v0": v0, "v1": v1}
    finally:
        iso.close()


# ---------------------------------------------------------------- batch path
class Batch:
    def __init__(self, shape, res, env=BASE_ENV, made=False):
        """MADE (mkdir roots): only the `populate` history is run: build (mkdir makes the six roots), populate, build;
        its outcome is in .populate_results and the batch takes no edits."""
        self.shape = shape
        self.res = res
        self.env = env
        self.made = made
        self.sb = Sandbox()
        self.base = None
        self.populate_results = None
        try:
            self._setup()
        except BaseException:
            self.close()
            raise

    def _setup(self):
        shape, res, env, sb = self.shape, self.res, self.env, self.sb
        self.base = new_tree_base(env)
        self.roots = [root_path(self.base, "T%d" % (i + 1)) for i in range(len(CFGS))]
        self.tags = ["c%d" % (i + 1) for i in range(len(CFGS))]
        self.trees = Trees(sb, self.roots, self.base)
        desc = make_desc([(r, c, t) for r, c, t in zip(self.roots, CFGS, self.tags)], env)
        sb.write("build.llbuild", render(desc))
        what = "%s%s" % (tm.shape_str(shape), env_text(env))
        if self.made:
            rc, out, ran = sb.build("all", "serial")
            res.count("builds")
            if rc != 0 or sorted(ran) != sorted(self.tags) or not all(os.path.isdir(sb.p(r)) for r in self.roots):
                raise HarnessError("C12 batch: build that makes the roots of %s: rc=%d ran=%r\n%s" % (what, rc, ran, out))
            views_e = [view(sb, r, PATTERN[c[1]]) for r, c in zip(self.roots, CFGS)]
            self.trees.populate(shape, make_roots=False)
            views_p = [view(sb, r, PATTERN[c[1]]) for r, c in zip(self.roots, CFGS)]
            rc, out, ran = sb.build("all", "serial")
            res.count("builds")
            self.populate_rc, self.populate_out = rc, out
            self.populate_results = [(cfg, expectation_populate(cfg, views_e[i], views_p[i], env), self.tags[i] in ran,
                                      views_e[i], views_p[i]) for i, cfg in enumerate(CFGS)]
            return
        self.trees.populate(shape)
        rc, out, ran = sb.build("all", "serial")
        res.count("builds")
        if rc != 0 or sorted(ran) != sorted(self.tags):
            raise HarnessError("C12 batch: first build of %s: rc=%d ran=%r\n%s" % (what, rc, ran, out))
        leftovers = [f for f in os.listdir(sb.root) if f.startswith("build.db") and f != "build.db"]
        if leftovers:
            raise HarnessError("C12 batch: database side files after a finished build: %r" % leftovers)
        shutil.copyfile(sb.p("build.db"), sb.p("snap.db"))
        self.outs = ["o-" + t for t in self.tags]
        self.fp0 = fingerprint(sb, self.roots + self.outs)
        self.views0 = [view(sb, r, PATTERN[c[1]]) for r, c in zip(self.roots, CFGS)]

    def close(self):
        self.sb.destroy()
        drop_tree_base(self.base)

    def run(self, edits):
        """Apply EDITS to all six trees, run the second build, undo.  Returns [(cfg, expect, reran)], rc, out."""
        sb = self.sb
        models = models_for(self.shape, edits)
        for e in edits:
            self.trees.apply(e)
        views1 = [view(sb, r, PATTERN[c[1]]) for r, c in zip(self.roots, CFGS)]
        shutil.copyfile(sb.p("snap.db"), sb.p("build.db"))
        rc, out, ran = sb.build("all", "serial")
        self.res.count("builds")
        self._restore(tm.edits_str(edits))
        results = []
        for i, cfg in enumerate(CFGS):
            exp = expectation(cfg, self.views0[i], views1[i], edits, models, self.env)
            results.append((cfg, exp, self.tags[i] in ran, self.views0[i], views1[i]))
        return results, rc, out, models

    def _restore(self, what):
        """Undo: structure and contents first, then every mtime (trees and the outputs the builds rewrote); verify."""
        sb = self.sb
        self.trees.undo()
        for o in self.outs:
            want = self.fp0[o]
            with open(sb.p(o)) as f:
                cur = f.read()
            if cur != want[5]:
                raise HarnessError("C12 batch: output %s changed content" % o)
        restore_mtimes(sb, self.fp0)
        fp = fingerprint(sb, self.roots + self.outs)
        if fp != self.fp0:
            diff = [k for k in set(fp) | set(self.fp0) if fp.get(k) != self.fp0.get(k)]
            raise HarnessError("C12 batch: undo of %s on %s did not restore %r" % (
                what, tm.shape_str(self.shape), sorted(diff)[:4]))
        for f in os.listdir(sb.p(self.trees.stash)):
            raise HarnessError("C12 batch: stash not empty after undo: " + f)

    def run_chain(self, e1, e2):
        """build (shared); E1; build; E2; build; undo.  Returns [(cfg, exp2, reran2, exp3, reran3, v1, v2)], rcs, m0, m1."""
        sb = self.sb
        m0 = tm.to_model(self.shape)
        m1 = tm.clone(m0)
        tm.apply_model(m1, e1)
        self.trees.apply(e1)
        views1 = [view(sb, r, PATTERN[c[1]]) for r, c in zip(self.roots, CFGS)]
        shutil.copyfile(sb.p("snap.db"), sb.p("build.db"))
        rc2, out2, ran2 = sb.build("all", "serial")
        self.trees.apply(e2)
        views2 = [view(sb, r, PATTERN[c[1]]) for r, c in zip(self.roots, CFGS)]
        rc3, out3, ran3 = sb.build("all", "serial")
        self.res.count("builds", 2)
        self._restore(tm.edit_str(e1) + " / " + tm.edit_str(e2))
        results = []
        for i, cfg in enumerate(CFGS):
            exp2 = expectation(cfg, self.views0[i], views1[i], [e1], [m0], self.env)
            exp3 = expectation(cfg, views1[i], views2[i], [e2], [m1], self.env)
            results.append((cfg, exp2, self.tags[i] in ran2, exp3, self.tags[i] in ran3, views1[i], views2[i]))
        return results, (rc2, rc3), out2 + out3, m0, m1


# ---------------------------------------------------------------- which environment does a violation need?
_narrow_memo = {}


def needed_env(res, env, key, signature, runner, populate=False):
    """ENV narrowed to the components without which the disagreement SIGNATURE does not show: the same case is re-run
    (isolated) in src/default and, if both components differ from it, in the two environments in between.
    runner(env2) -> signature there."""
    if env == BASE_ENV:
        return env
    if populate:
        cands = [("mkdir", "default")] if env[1] != "default" else []
    else:
        cands = [BASE_ENV]
        if env[0] != BASE_ENV[0] and env[1] != BASE_ENV[1]:
            cands += [(env[0], "default"), ("src", env[1])]
    for e2 in cands:
        k = (key, e2)
        if k not in _narrow_memo:
            _narrow_memo[k] = runner(e2)
            res.count("violations_rerun_in_simpler_environment")
        if _narrow_memo[k] == signature:
            return e2
    return env


def add_position(model_before, e):
    """first / between / last / only: where the added name sorts among the names already in its directory."""
    dp, name = tm.split(e[1])
    sib = sorted(tm.lookup_dir(model_before, dp))
    if not sib:
        return "only"
    if name < sib[0]:
        return "first"
    if name > sib[-1]:
        return "last"
    return "between"


def judge_and_record(res, shape, edits, cfg, exp, reran, models, v0, v1, env=BASE_ENV, confirm=True):
    """Counts the case; on a disagreement confirms it isolated and records the violation."""
    res.count("evaluations")
    res.count("evaluations_%s_root_%s" % env)
    res.count("observed_rerun" if reran else "observed_no_rerun")
    populate = edits == POPULATE
    if populate:
        res.count("populate_evaluations")
    if exp == SILENT:
        res.count("not_asserted")
        res.count("not_asserted_reran" if reran else "not_asserted_not_reran")
        if populate:
            return
        if len(edits) == 1 and edits[0][0] == "ch":
            res.count("not_asserted_chmod_%s_%s" % (cfg[0], "reran" if reran else "not_reran"))
        if env[1] == "checksum-only" and len(edits) == 1 and edits[0][0] == "mt" and tm.is_content_only(models[0], edits[0]) \
                and cfg[0] == "tree" and not hidden(edits[0], PATTERN[cfg[1]]):
            res.count("not_asserted_file_mtime_only_in_checksum_only_mode_" + ("reran" if reran else "not_reran"))
        if cfg[0] == "tree" and cfg[1] != "none" and v0.V == v1.V and edits and \
                all(hidden(e, PATTERN[cfg[1]]) for e in edits):
            # only excluded names were edited, but a visible sub-directory's own metadata changed with them
            res.count("not_asserted_hidden_edit_in_subdir_" + ("reran" if reran else "not_reran"))
        return
    res.count("expected_rerun" if exp == MUST else "expected_no_rerun")
    if edits:
        res.count("distinct_nontrivial")
    if exp == MUST and not populate and len(edits) == 1 and tm.base_op(edits[0]) == "add" and cfg == ("tree", "none"):
        res.count("asserted_additions_sorting_%s_at_depth%d" % (add_position(models[0], edits[0]), tm.depth(edits[0][1])))
    if (exp == MUST) == reran:
        return
    spec = "C12|%s|%s|%s" % (tm.shape_str(shape), cfg_name(cfg, env), edits_text(edits))
    cls = violation_class(cfg, edits, models, exp, v0, v1)

    def runner(env2):
        iso = run_isolated(shape, edits, cfg, env2)
        res.count("builds", iso["builds"])
        return (iso["expect"], iso["reran"])

    cls += env_suffix(needed_env(res, env, (tm.shape_str(shape), edits_text(edits), cfg), (exp, reran), runner, populate))
    if confirm and res.per_class.get(cls, 0) < res.max_per_class:
        iso = run_isolated(shape, edits, cfg, env)
        res.count("builds", iso["builds"])
        res.count("violations_confirmed_isolated")
        if iso["expect"] != exp or iso["reran"] != reran:
            raise HarnessError("C12: batch and isolated runs disagree on %s: batch expect=%s reran=%s, isolated "
                               "expect=%s reran=%s" % (spec, exp, reran, iso["expect"], iso["reran"]))
    filt = "" if cfg[1] == "none" else " with content-exclusion-patterns [%s]" % PATTERN[cfg[1]]
    if populate:
        res.violate(cls, "tree root produced by a mkdir command%s, consumed as %s input%s; after the first build the driver "
                    "fills it with {%s}: reference says the consumer %s re-execute at the next build, it %s" % (
                        env_text((BASE_ENV[0], env[1])), cfg[0], filt, tm.shape_str(shape),
                        "must" if exp == MUST else "must not", "did" if reran else "did not"), spec)
        return
    res.violate(cls, "tree {%s} as %s input%s%s, edit %s: reference says the consumer %s re-execute, it %s" % (
        tm.shape_str(shape), cfg[0], filt, env_text(env),
        tm.edits_str(edits), "must" if exp == MUST else "must not", "did" if reran else "did not"), spec)


def to_shape(m):
    """A fresh shape with the names and types of model M."""
    return tuple((n, m[n]["k"], to_shape(m[n]["c"]) if m[n]["k"] == "d" else ()) for n in sorted(m))


def run_isolated_chain(shape, e1, e2, cfg, env=BASE_ENV, verbose=False):
    iso = Isolated(shape, cfg, env)
    try:
        sb, pattern, trees, root = iso.sb, iso.pattern, iso.trees, iso.root
        m0 = tm.to_model(shape)
        m1 = tm.clone(m0)
        tm.apply_model(m1, e1)
        v0 = view(sb, root, pattern)
        trees.apply(e1)
        v1 = view(sb, root, pattern)
        rc2, out2, ran2 = sb.build("all", "serial")
        trees.apply(e2)
        trees.forget()
        v2 = view(sb, root, pattern)
        rc3, out3, ran3 = sb.build("all", "serial")
        exp2 = expectation(cfg, v0, v1, [e1], [m0], env)
        exp3 = expectation(cfg, v1, v2, [e2], [m1], env)
        if verbose:
            print("shape   %s" % tm.shape_str(shape))
            print("config  %s (pattern %s)%s" % (cfg_name(cfg, env), pattern, env_text(env)))
            print("history build; %s; build; %s; build" % (tm.edit_str(e1), tm.edit_str(e2)))
            print("second build: reference %s re-execute; rc=%d executed %r" % (exp2, rc2, ran2))
            print("visible listing before the last edit: %r" % (sorted(v1.V.items()),))
            print("visible listing after the last edit : %r" % (sorted(v2.V.items()),))
            print("third build: reference %s re-execute; rc=%d executed %r" % (exp3, rc3, ran3))
            print(out3)
        return {"exp2": exp2, "reran2": "c" in ran2, "exp3": exp3, "reran3": "c" in ran3, "rc": (rc2, rc3),
                "builds": iso.builds + 2, "v1": v1, "v2": v2, "m0": m0, "m1": m1}
    finally:
        iso.close()


_alone_memo = {}


def violates_alone(res, m1, e2, cfg, exp3, reran3, env=BASE_ENV):
    """Does the last edit of a chain, applied alone to a FRESH tree shaped like the intermediate one, give the same
    disagreement?  Then the chain adds nothing and the finding belongs to the single edit's class."""
    sh1 = to_shape(m1)
    key = (tm.shape_str(sh1), e2, cfg, env)
    if key not in _alone_memo:
        iso = run_isolated(sh1, [e2], cfg, env)
        res.count("builds", iso["builds"])
        _alone_memo[key] = (iso["expect"], iso["reran"])
    return _alone_memo[key] == (exp3, reran3)


def judge_chain(res, shape, e1, e2, cfg, exp2, reran2, exp3, reran3, m0, m1, v1, v2, env=BASE_ENV, confirm=True):
    res.count("evaluations")
    res.count("evaluations_%s_root_%s" % env)
    res.count("chain_evaluations")
    res.count("observed_rerun" if reran3 else "observed_no_rerun")
    settled = exp2 != SILENT and (exp2 == MUST) == reran2
    unobservable_first = tm.is_quiet(e1) and not hidden(e1, PATTERN[cfg[1]])
    if unobservable_first:
        res.count("not_asserted_chain_after_quiet_edit_of_visible_name_" + (
            "conforming" if exp3 == SILENT or (exp3 == MUST) == reran3 else "deviating"))
    missed_second = exp2 == MUST and not reran2
    if missed_second and env != BASE_ENV:
        res.count("not_asserted_chain_after_missed_second_build")
    if exp3 == SILENT or (exp3 == MUSTNOT and not settled) or unobservable_first or (missed_second and env != BASE_ENV):
        # (a re-execution at the third build is only blamed on the last edit if the second build did what the
        # reference demanded of it; and nothing is demanded after a first edit that was deliberately made
        # unobservable -- a visible entry changed while its directory's mtime was put back -- because the tool
        # may legitimately still hold the old listing of that directory; in the added environments nothing is demanded
        # either after a second build that missed its own edit -- that miss is reported by the single-edit case, and
        # everything after it merely repeats it)
        res.count("not_asserted")
        res.count("not_asserted_reran" if reran3 else "not_asserted_not_reran")
        return
    res.count("expected_rerun" if exp3 == MUST else "expected_no_rerun")
    res.count("distinct_nontrivial")
    if (exp3 == MUST) == reran3:
        return
    spec = "C12|%s|%s|%s|%s" % (tm.shape_str(shape), cfg_name(cfg, env), tm.edit_str(e1), tm.edit_str(e2))
    cls = violation_class(cfg, [e2], [m1], exp3, v1, v2)
    if not violates_alone(res, m1, e2, cfg, exp3, reran3, env):
        cls += "-after-rebuild"

    def runner(env2):
        iso = run_isolated_chain(shape, e1, e2, cfg, env2)
        res.count("builds", iso["builds"])
        return (iso["exp2"], iso["reran2"], iso["exp3"], iso["reran3"])

    cls += env_suffix(needed_env(res, env, (tm.shape_str(shape), tm.edit_str(e1) + "|" + tm.edit_str(e2), cfg),
                                 (exp2, reran2, exp3, reran3), runner))
    if confirm and res.per_class.get(cls, 0) < res.max_per_class:
        iso = run_isolated_chain(shape, e1, e2, cfg, env)
        res.count("builds", iso["builds"])
        res.count("violations_confirmed_isolated")
        if (iso["exp2"], iso["reran2"], iso["exp3"], iso["reran3"]) != (exp2, reran2, exp3, reran3):
            raise HarnessError("C12: batch and isolated chains disagree on %s" % spec)
    res.violate(cls, "tree {%s} as %s input%s%s, history build; %s; build; %s; build: reference says that at the last build the "
                "consumer %s re-execute, it %s" % (
                    tm.shape_str(shape), cfg[0],
                    "" if cfg[1] == "none" else " with content-exclusion-patterns [%s]" % PATTERN[cfg[1]], env_text(env),
                    tm.edit_str(e1), tm.edit_str(e2), "must" if exp3 == MUST else "must not",
                    "did" if reran3 else "did not"), spec)


# ---------------------------------------------------------------- enumeration
def chain_sequences(shape):
    """Every (e1, e2): e2 is enumerated on the tree as edited by e1; a build runs in between, so nothing commutes."""
    m0 = tm.to_model(shape)
    for e1 in tm.edits(m0):
        m1 = tm.clone(m0)
        tm.apply_model(m1, e1)
        for e2 in tm.edits(m1):
            yield e1, e2


def single_sequences(shape):
    """[] (the null control) and every single edit."""
    yield []
    for e in tm.edits(tm.to_model(shape)):
        yield [e]


def pair_sequences(shape, stride=1, phase=0):
    """Every pair of edits up to commutation of unrelated edits; with STRIDE > 1 only the pairs whose running index is
    PHASE modulo STRIDE."""
    m0 = tm.to_model(shape)
    singles = tm.edits(m0)
    n = 0
    for e1 in singles:
        m1 = tm.clone(m0)
        tm.apply_model(m1, e1)
        for e2 in tm.edits(m1):
            if not tm.pair_is_redundant(m0, e1, e2):
                n += 1
                if n % stride == phase % stride:
                    yield [e1, e2]


def ordered_pairs_upper_bound(shape):
    """Number of (e1, e2) sequences before removing mirror images: cheap, and a deterministic function of the shape;
    used only to cut a shape's pairs / chains into work items of similar size."""
    m0 = tm.to_model(shape)
    n = 0
    for e1 in tm.edits(m0):
        m1 = tm.clone(m0)
        tm.apply_model(m1, e1)
        n += len(tm.edits(m1))
    return n


def plan(tier):
    """Per environment class: shapes (by entry count) that get the null control and all single edits; largest size that
    gets ALL pairs; the next size gets the pairs of one residue class modulo `stride` (the seed picks the class);
    largest size that gets all chained histories.  -1 = none."""
    if tier == "quick":
        return {"base": {"single_size": 3, "pair_full": 1, "pair_strided": 2, "stride": 8, "chain": 1},
                "new": {"single_size": 2, "pair_full": -1, "pair_strided": -1, "stride": 1, "chain": 0}}
    return {"base": {"single_size": 6, "pair_full": 2, "pair_strided": 3, "stride": 3, "chain": 2},
            "new": {"single_size": 4, "pair_full": 1, "pair_strided": 1, "stride": 1, "chain": 1}}


ITEM_HISTORIES = 150     # a work item holds about this many histories (pairs) or half as many (chains: two builds each)


def work_items(tier):
    """[(env, shape index, segment, k, m)]: segment S = null control + all single edits (+ the populate case for mkdir
    roots), P = slice k of m of the shape's pairs, C = slice k of m of its chained histories.  Item i is run by shard
    (i + seed) % nshards."""
    pl = plan(tier)
    shapes = tm.all_shapes()
    items = []
    for env in [BASE_ENV] + NEW_ENVS:
        b = pl["base" if env == BASE_ENV else "new"]
        for idx, shape in enumerate(shapes):
            sz = tm.size(shape)
            if sz > max(b["single_size"], b["pair_strided"], b["chain"]):
                continue
            ub = ordered_pairs_upper_bound(shape) if sz <= max(b["pair_strided"], b["chain"]) else 0
            if sz <= b["single_size"]:
                items.append((env, idx, "S", 0, 1))
            if sz <= b["pair_strided"]:
                stride = b["stride"] if sz > b["pair_full"] else 1
                m = max(1, -(-ub // (stride * ITEM_HISTORIES)))
                items += [(env, idx, "P", k, m) for k in range(m)]
            if sz <= b["chain"]:
                m = max(1, -(-2 * ub // ITEM_HISTORIES))
                items += [(env, idx, "C", k, m) for k in range(m)]
    return pl, shapes, items


STRIDE = 199


def run(args, res):
    pl, shapes, items = work_items(args.tier)
    n_eval = 0
    for i, (env, idx, seg, k, m) in enumerate(items):
        if (i + args.seed) % args.nshards != args.shard:
            continue
        if args.over_budget():
            res.exhaustive = False
            break
        shape = shapes[idx]
        b = Batch(shape, res, env)
        res.count("work_items")
        try:
            sz = tm.size(shape)
            bp = pl["base" if env == BASE_ENV else "new"]
            if seg == "S":
                if env == BASE_ENV:
                    res.count("shapes")
                res.count("shape_environment_combinations")
                if env[0] == "mkdir":
                    bm = Batch(shape, res, env, made=True)
                    try:
                        res.count("histories")
                        res.count("histories_populate")
                        if bm.populate_rc != 0:
                            res.violate("C12.other-build-failed" + env_suffix(env),
                                        "root made by mkdir, then filled with {%s}%s: next build exits %d: %s" % (
                                            tm.shape_str(shape), env_text(env), bm.populate_rc, bm.populate_out[-300:]),
                                        "C12|%s|%s|%s" % (tm.shape_str(shape), cfg_name(CFGS[0], env), POPULATE))
                        else:
                            for cfg, exp, reran, v0, v1 in bm.populate_results:
                                judge_and_record(res, shape, POPULATE, cfg, exp, reran, [], v0, v1, env)
                    finally:
                        bm.close()
                seqs = single_sequences(shape)
            elif seg == "P":
                stride = bp["stride"] if sz > bp["pair_full"] else 1
                seqs = (p for j, p in enumerate(pair_sequences(shape, stride, args.seed + idx)) if j % m == k)
            else:
                seqs = ()
            for edits in seqs:
                if args.over_budget():
                    res.exhaustive = False
                    break
                results, rc, out, models = b.run(edits)
                res.count("histories")
                res.count("histories_%d_edits" % len(edits))
                if rc != 0:
                    res.violate("C12.other-build-failed" + env_suffix(env), "tree {%s}%s, edit %s: second build exits %d: %s" % (
                        tm.shape_str(shape), env_text(env), tm.edits_str(edits), rc, out[-300:]),
                        "C12|%s|%s|%s" % (tm.shape_str(shape), cfg_name(CFGS[0], env), tm.edits_str(edits)))
                    continue
                for cfg, exp, reran, v0, v1 in results:
                    judge_and_record(res, shape, edits, cfg, exp, reran, models, v0, v1, env)
                    n_eval += 1
                    if n_eval % STRIDE == 0:
                        iso = run_isolated(shape, edits, cfg, env)
                        res.count("builds", iso["builds"])
                        res.count("batch_cases_crosschecked_isolated")
                        if iso["expect"] != exp or iso["reran"] != reran:
                            raise HarnessError("C12: batch and isolated runs disagree on C12|%s|%s|%s: batch expect=%s "
                                               "reran=%s, isolated expect=%s reran=%s" % (
                                                   tm.shape_str(shape), cfg_name(cfg, env), tm.edits_str(edits), exp, reran,
                                                   iso["expect"], iso["reran"]))
                if len(edits) and len(res.samples) < 5 and res.counters.get("histories", 0) % 97 == 3:
                    res.sample({"tree": tm.shape_str(shape), "edits": tm.edits_str(edits), "environment": "%s/%s" % env,
                                "per configuration (expect, re-executed)": {cfg_name(c): [x, r] for c, x, r, _, _ in results}})
            if seg == "C":
                for j, (e1, e2) in enumerate(chain_sequences(shape)):
                    if j % m != k:
                        continue
                    if args.over_budget():
                        res.exhaustive = False
                        break
                    results, rcs, out, m0, m1 = b.run_chain(e1, e2)
                    res.count("histories")
                    res.count("histories_chained")
                    if rcs != (0, 0):
                        res.violate("C12.other-build-failed" + env_suffix(env),
                                    "tree {%s}%s, history build; %s; build; %s; build: exit codes %r: %s" % (
                                        tm.shape_str(shape), env_text(env), tm.edit_str(e1), tm.edit_str(e2), rcs, out[-300:]),
                                    "C12|%s|%s|%s|%s" % (tm.shape_str(shape), cfg_name(CFGS[0], env), tm.edit_str(e1),
                                                         tm.edit_str(e2)))
                        continue
                    for cfg, exp2, reran2, exp3, reran3, v1, v2 in results:
                        judge_chain(res, shape, e1, e2, cfg, exp2, reran2, exp3, reran3, m0, m1, v1, v2, env)
                        n_eval += 1
                        if n_eval % STRIDE == 0:
                            iso = run_isolated_chain(shape, e1, e2, cfg, env)
                            res.count("builds", iso["builds"])
                            res.count("batch_cases_crosschecked_isolated")
                            if (iso["exp2"], iso["reran2"], iso["exp3"], iso["reran3"]) != (exp2, reran2, exp3, reran3):
                                raise HarnessError("C12: batch and isolated chains disagree on C12|%s|%s|%s|%s" % (
                                    tm.shape_str(shape), cfg_name(cfg, env), tm.edit_str(e1), tm.edit_str(e2)))
        finally:
            b.close()
    res.counters["bound_depth"] = tm.MAXDEPTH
    res.counters["bound_fanout"] = 2
    res.counters["max_checksum_only_trees_on_disk_fs"] = 1 if DISK is not None else 0
    nsh = lambda n: len([s for s in shapes if tm.size(s) <= n])  # noqa: E731
    B, N = pl["base"], pl["new"]

    def bounds(b):
        t = "null control and every single edit for the %d shapes of <= %d entries" % (nsh(b["single_size"]), b["single_size"])
        if b["pair_full"] >= 0:
            t += ", every pair of edits for shapes of <= %d entries" % b["pair_full"]
        if b["pair_strided"] > b["pair_full"]:
            t += ", for shapes of %d entries the pairs of one residue class modulo %d (chosen by the seed)" % (
                b["pair_strided"], b["stride"])
        if b["chain"] >= 0:
            t += ", every CHAINED history build, e1, build, e2, build for shapes of <= %d entries" % b["chain"]
        return t

    res.strings["rule"] = (
        "all directory contents of depth <= 2 whose per-directory name set is one of {}, {a}, {k.x}, {a,b}, {a,k.x} with every "
        "entry a file, a symlink (to a regular file outside the tree) or a directory "
        "x the null control, every single edit {add file/symlink/dir(/dir-with-file) under a free name (first of a, b, c not "
        "taken: it sorts after a, between a and k.x, or before k.x) or k.x (sorts last), remove, rename, "
        "retype, content same size, content different size, mtime-only, chmod, symlink retarget; quiet (parent mtime restored) "
        "variants of add/remove/rename/retype of names k.x and b at depth 2} at every position, pairs of edits "
        "(second edit enumerated on the edited tree; mirror images of unrelated edits explored once) and CHAINED histories "
        "(judged at the last build against the tree as it was at the second) "
        "x {directory-tree, directory-structure} x {no filter, content-exclusion-patterns [*.x], [b]} "
        "x environment {root is a source directory, root is the output of a mkdir command of the description (tree in place "
        "before the first build; plus the case `populate`: build -- the command makes the empty root --, the driver fills it "
        "with the shape, build -- judged)} x {client file-system default, "
        "device-agnostic, checksum-only (trees on a disk file system whose directory size does not count entries)}.  "
        "Bounds of this tier -- environment src/default: " + bounds(B) + "; each of the 5 other environments: " + bounds(N) +
        ".  history = build, edit(s), build (chained: one more edit and build) in new llbuild processes; evaluations = (tree, "
        "edits, configuration, environment) cases observed; distinct_nontrivial = those with >= 1 edit on which the reference "
        "asserts a verdict (not_asserted = the rest)")
    res.assumptions += [
        "exclusion patterns are fnmatch(3) patterns applied to the basename of every entry at every depth and an excluded "
        "directory hides everything beneath it (BuildSystem.cpp FilteredDirectoryContentsTask::getFilteredContents; the "
        "filters are handed down unchanged to each sub-directory signature)",
        "symbolic links in the trees point to a regular file outside the tree that is never edited; dangling links and links "
        "to directories are not in the space",
        "not asserted: cases where only a directory's own metadata (mtime, size) differs (tree inputs); compound edits that "
        "restore names and types, and directory mtime (structure inputs); chmod (llbuild's FileInfo equality leaves the mode "
        "out by design, DESIGN section 7); quiet edits of visible names; in checksum-only mode cases whose only visible "
        "difference is a file's mtime (C13: a pure timestamp change is not detected there)",
        "no edit replaces an inode while keeping type, content and mtime, so device-agnostic mode has the same reference as "
        "the default mode",
        "only the tree root is ever the output of a mkdir command; sub-directories are never produced by commands",
        "in the added environments a chained history makes no claim about its last build when the second build missed its "
        "own edit (that miss is reported by the single-edit case)",
        "batch execution shares the first build of a shape among all its edit sequences by restoring database, tree and outputs "
        "exactly (lstat fingerprint verified after every undo); every violation and every %d-th case is re-run in isolation "
        "(fresh sandbox, one tree, one command) and must agree" % STRIDE,
        "two unrelated edits commute, so of a pair and its mirror image one order is explored",
    ]


def replay(spec, res):
    parts = spec.split("|")
    shape = tm.parse_shape(parts[1])
    cfg, env = parse_cfg(parts[2])
    if parts[3] == POPULATE:
        iso = run_isolated(shape, POPULATE, cfg, env, verbose=True)
        res.count("builds", iso["builds"])
        if iso["rc2"] != 0:
            res.violate("C12.other-build-failed" + env_suffix(env), "build after populating exits %d" % iso["rc2"], spec)
            return
        judge_and_record(res, shape, POPULATE, cfg, iso["expect"], iso["reran"], [], iso["v0"], iso["v1"], env, confirm=False)
        return
    edits = tm.parse_edits(parts[3])
    if len(parts) > 4:
        e1, e2 = edits[0], tm.parse_edit(parts[4])
        iso = run_isolated_chain(shape, e1, e2, cfg, env, verbose=True)
        res.count("builds", iso["builds"])
        if iso["rc"] != (0, 0):
            res.violate("C12.other-build-failed" + env_suffix(env), "builds exit %r" % (iso["rc"],), spec)
            return
        judge_chain(res, shape, e1, e2, cfg, iso["exp2"], iso["reran2"], iso["exp3"], iso["reran3"], iso["m0"], iso["m1"],
                    iso["v1"], iso["v2"], env, confirm=False)
        return
    iso = run_isolated(shape, edits, cfg, env, verbose=True)
    res.count("builds", iso["builds"])
    models = models_for(shape, edits)
    if iso["rc2"] != 0:
        res.violate("C12.other-build-failed" + env_suffix(env), "second build exits %d" % iso["rc2"], spec)
        return
    judge_and_record(res, shape, edits, cfg, iso["expect"], iso["reran"], models, iso["v0"], iso["v1"], env, confirm=False)

#!/usr/bin/python3
"""worldx2: bounded-exhaustive exploration of on-disk histories through the real `llbuild buildsystem build`
tool (DESIGN.md 4.5), second part: decides C12 and the history part of C11.  Reuses worldx's machinery
(../worldx/wx.py: Sandbox with the logical clock, description DSL, result/argument contract helpers; vcmd).

  worldx2.py --prop C12|C11 --tier quick|thorough --shard I --nshards N --out FILE --seed S --budget SEC
             [--replay-spec SPEC]

Replay specs
  C12|<tree>|<input>/<filter>|<edits>      tree: `-` or name=kind[{...}],...   e.g.  a=d{k.x=f},b=f
                                           input: tree | structure;  filter: none | star (`*.x`) | exact (`b`)
                                           edits: none | op:path[:arg];...      e.g.  cs:a/k.x;add:c:f
                                           (ops: add rm mv ty cs cd mt ch lt, quiet variants addq rmq mvq tyq; see treemodel.py)
  C12|<tree>|<input>/<filter>|<e1>|<e2>    chained history: build; e1; build; e2; build (the last build is judged)
  C12|<tree>|<input>/<filter>/<root>/<fs>|...   the same in another environment: root: src | mkdir (the tree root is produced
                                           by a mkdir command; history starts build, populate, build); fs: default |
                                           device-agnostic | checksum-only (client file-system mode).  With a mkdir root the
                                           edits may be the word `populate`: the build after populating is the judged one.
  C11|<style>|<path class>|<E|M>|<serial|par>|<history>   style: makefile | dependency-info | makefile-two-files;
                                           E/M: P initially present / missing; history: letters of m g t x c n u w q (see c11.py)
  C11m|<style>|<malformed id>
A trailing " #<class>" (added to every recorded spec) restricts the replay's verdict to that violation class.
"""
import os
import sys
import traceback

sys.dont_write_bytecode = True
HERE = os.path.dirname(os.path.abspath(__file__))
ROOT = os.path.dirname(os.path.dirname(HERE))
sys.path.insert(0, HERE)
sys.path.insert(0, os.path.join(os.path.dirname(HERE), "worldx"))
import wx  # noqa: E402
from wx import Result, Args, HarnessError  # noqa: E402

# own scratch space and own copy of the helpers
wx.SCRATCH = "/dev/shm/verif-worldx2-%d" % os.getpid()
HBIN = os.environ.get("VERIF_WORLDX2_BIN", os.path.join(ROOT, "build", "harness", "worldx2"))
wx.VCMD = os.path.join(HBIN, "vcmd")
if "VERIF_LLBUILD" not in os.environ:
    wx.LLBUILD = os.path.join(ROOT, "build", "repo-verif", "bin", "llbuild")

import c11  # noqa: E402
import c12  # noqa: E402

c11.VDEP = os.path.join(HBIN, "vdep")

# Trees of C12's checksum-only cases live on a file system whose directories do not change size with their entry count
# (tmpfs counts entries in st_size, which hands llbuild a change signal that a disk file system does not give).
DISK_PARENT = os.environ.get("VERIF_WORLDX2_DISK", "/var/tmp")
DISK_PREFIX = "verif-worldx2-"


def setup_disk():
    """Creates <DISK_PARENT>/verif-worldx2-<pid> if that file system keeps directory sizes constant; sweeps the
    directories of dead harness processes.  Returns the path or None."""
    import re
    import shutil
    try:
        for d in os.listdir(DISK_PARENT):
            m = re.match(re.escape(DISK_PREFIX) + r"(\d+)$", d)
            if m and not os.path.exists("/proc/" + m.group(1)):
                shutil.rmtree(os.path.join(DISK_PARENT, d), ignore_errors=True)
        d = os.path.join(DISK_PARENT, DISK_PREFIX + "%d" % os.getpid())
        if os.path.exists(d):
            shutil.rmtree(d)
        os.makedirs(d)
        probe = os.path.join(d, "probe")
        os.mkdir(probe)
        s0 = os.lstat(probe).st_size
        for n in ("a", "b", "k.x"):
            open(os.path.join(probe, n), "w").close()
        s1 = os.lstat(probe).st_size
        shutil.rmtree(probe)
        if s0 != s1:
            shutil.rmtree(d, ignore_errors=True)
            return None
        return d
    except OSError:
        return None


def cleanup():
    import shutil
    wx.cleanup()
    if c12.DISK is not None:
        shutil.rmtree(c12.DISK, ignore_errors=True)

A_COMMON = [
    "every build runs in a new llbuild process (--serial unless stated) against build.db in the sandbox: a database restart "
    "at every build boundary",
    "all file times come from worldx's logical clock (base 1e9 s + counter * 1 ms): every edit takes a fresh mtime, so it is "
    "stat-observable, and creating / removing / renaming an entry gives the parent directory a fresh mtime as a real file "
    "system does (except in the explicitly quiet variants)",
    "whether a command re-executed is read from exec.log, to which the helper command appends its tag when it starts",
]


def replay(args, res):
    spec, _, only = args.replay.partition(" #")
    try:
        if spec.startswith("C12|"):
            c12.replay(spec, res)
        elif spec.startswith("C11|") or spec.startswith("C11m|"):
            c11.replay(spec, res)
        else:
            raise HarnessError("unknown replay spec " + spec)
    finally:
        if only:
            res.violations = [v for v in res.violations if v["class"] == only]


def main():
    args = Args(sys.argv)
    res = Result(max_per_class=3)
    res.assumptions = list(A_COMMON)
    try:
        for exe in (wx.LLBUILD, wx.VCMD, c11.VDEP):
            if not os.path.exists(exe):
                raise HarnessError("missing " + exe)
        if args.prop == "C12" or (args.replay or "").startswith("C12|"):
            c12.DISK = setup_disk()
        if args.replay:
            replay(args, res)
        elif args.prop == "C12":
            c12.run(args, res)
        elif args.prop == "C11":
            c11.run(args, res)
        else:
            raise HarnessError("unknown property " + args.prop)
    except HarnessError as e:
        print("HARNESS ERROR: %s" % e, file=sys.stderr)
        traceback.print_exc()
        cleanup()
        return 3
    except Exception:
        traceback.print_exc()
        cleanup()
        return 3
    cleanup()
    res.write(args.out)
    if args.replay:
        print("replay: %d violation(s)" % len(res.violations))
        for v in res.violations:
            print("  %s: %s" % (v["class"], v["what"]))
    return 1 if res.violations else 0


if __name__ == "__main__":
    sys.exit(main())

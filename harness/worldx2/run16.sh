#!/bin/bash
# Developer convenience (not used by /verif/check): run one property/tier on N shards in parallel and merge.
#   run16.sh C12|C11 quick|thorough BUDGET [OUTDIR] [NSHARDS]
prop=$1; tier=$2; budget=${3:-200}; out=${4:-/dev/shm/wx2-out-$prop-$tier}; n=${5:-16}
here=$(cd "$(dirname "$0")" && pwd)
mkdir -p "$out"
start=$(date +%s)
for i in $(seq 0 $((n-1))); do
  /usr/bin/python3 "$here/worldx2.py" --prop "$prop" --tier "$tier" --shard "$i" --nshards "$n" --seed 0 \
      --budget "$budget" --out "$out/s$i.json" > "$out/s$i.log" 2>&1 &
done
wait
end=$(date +%s)
echo "wall $((end-start)) s"
/usr/bin/python3 - "$out" "$n" <<'EOF'
import json, sys, collections
out, n = sys.argv[1], int(sys.argv[2])
tot = collections.Counter(); exh = True; viol = []; missing = []
for i in range(n):
    try:
        d = json.load(open("%s/s%d.json" % (out, i)))
    except Exception as e:
        missing.append(i); continue
    for k, v in d["coverage"].items():
        if isinstance(v, bool): continue
        if isinstance(v, (int, float)):
            if k.startswith("max_") or k.startswith("bound_"): tot[k] = max(tot[k], v)
            else: tot[k] += v
    exh = exh and d["coverage"]["exhaustive"]
    viol += d["violations"]
print("shards without result:", missing)
print("exhaustive:", exh)
for k in sorted(tot): print("  %-55s %d" % (k, tot[k]))
cl = collections.OrderedDict()
for v in viol: cl.setdefault(v["class"], []).append(v)
print("violation classes: %d" % len(cl))
for c, vs in sorted(cl.items()):
    vs.sort(key=lambda v: len(v["replay"]["spec"]))
    print("  %s  (x%d written)  smallest: %s" % (c, len(vs), vs[0]["replay"]["spec"].split(" #")[0]))
EOF

"""treemodel: the pure (no file system) part of the C12 space: tree shapes, the
edit alphabet, applying an edit to a shape, textual forms for replay specs.

Shape    a directory's contents: tuple of entries sorted by name; entry = (name, kind, sub)
         kind 'f' regular file, 'l' symbolic link (to a regular file OUTSIDE the tree that is
         never edited), 'd' directory (sub = its contents, () if empty).
Bound    depth <= 2 (entries directly in the root are at depth 1), fan-out <= 2, the names present in one
         directory are one of {}, {a}, {k.x}, {a,b}, {a,k.x}  (k.x matches the pattern `*.x`, b matches
         the exact-name pattern `b`).

Model    mutable nested dict used to enumerate edits and to apply them:  name -> node,
         node = {'k': 'f', 'v': content toggles, 'n': appends, 'm': chmod toggles, 't': touches}
              | {'k': 'l', 'r': retargets}
              | {'k': 'd', 'c': {name: node}, 't': touches}

Edit     tuple (op, path[, arg]) with path relative to the tree root ('a', 'a/k.x'):
           add  path kind     kind in f, l, d (empty directory), D (directory holding one file `a`; depth 1 only)
           rm   path          (a directory goes with everything beneath it)
           mv   path newname  rename within the same directory
           ty   path kind     retype: the entry is removed and an entry of another kind gets its name
           cs   path          file content rewritten in place, same size
           cd   path          file content appended to (different size)
           mt   path          mtime-only change (file or directory)
           ch   path          permission bits of a file changed (0644 <-> 0600), nothing else
           lt   path          symbolic link re-pointed to another existing regular file (same target length)
         a trailing 'q' on add/rm/mv/ty ("addq") is the QUIET variant: the parent directory's mtime is put
         back to what it was, so that the only observable difference is the entry itself.  Quiet variants
         exist only for depth-2 entries whose (old or new) name is k.x or b.
"""
import itertools

NAMESETS = [(), ("a",), ("k.x",), ("a", "b"), ("a", "k.x")]
ORDINARY = ("a", "b", "c")
SPECIAL = "k.x"
MAXDEPTH = 2
FILTER_NAMES = ("k.x", "b")


# ---------------------------------------------------------------- shapes
def _entry_opts(level):
    o = [("f", ()), ("l", ())]
    if level < MAXDEPTH:
        o += [("d", c) for c in contents(level + 1)]
    else:
        o.append(("d", ()))
    return o


_memo = {}


def contents(level):
    if level in _memo:
        return _memo[level]
    out = []
    for ns in NAMESETS:
        for combo in itertools.product(*[_entry_opts(level) for _ in ns]):
            out.append(tuple((n,) + c for n, c in zip(ns, combo)))
    _memo[level] = out
    return out


def size(shape):
    return sum(1 + size(e[2]) for e in shape)


def all_shapes():
    """All shapes inside the bound, simplest first (stable)."""
    s = list(contents(1))
    s.sort(key=lambda x: (size(x), shape_str(x)))
    return s


def shape_str(shape):
    if not shape:
        return "-"

    def r(sh):
        return ",".join(n + "=" + k + ("{" + r(sub) + "}" if k == "d" and sub else "") for n, k, sub in sh)
    return r(shape)


def parse_shape(s):
    if s == "-" or s == "":
        return ()
    pos = [0]

    def entries():
        out = []
        while True:
            j = pos[0]
            while s[j] != "=":
                j += 1
            name = s[pos[0]:j]
            kind = s[j + 1]
            pos[0] = j + 2
            sub = ()
            if pos[0] < len(s) and s[pos[0]] == "{":
                pos[0] += 1
                sub = entries()
                assert s[pos[0]] == "}"
                pos[0] += 1
            out.append((name, kind, sub))
            if pos[0] < len(s) and s[pos[0]] == ",":
                pos[0] += 1
                continue
            return tuple(out)

    return entries()


# ---------------------------------------------------------------- model
def to_model(shape):
    m = {}
    for n, k, sub in shape:
        if k == "f":
            m[n] = {"k": "f", "v": 0, "n": 0, "m": 0, "t": 0}
        elif k == "l":
            m[n] = {"k": "l", "r": 0}
        else:
            m[n] = {"k": "d", "c": to_model(sub), "t": 0}
    return m


def clone(m):
    out = {}
    for n, v in m.items():
        v2 = dict(v)
        if v["k"] == "d":
            v2["c"] = clone(v["c"])
        out[n] = v2
    return out


def new_node(kind):
    if kind == "f":
        return {"k": "f", "v": 0, "n": 0, "m": 0, "t": 0, "new": 1}
    if kind == "l":
        return {"k": "l", "r": 0, "new": 1}
    if kind == "d":
        return {"k": "d", "c": {}, "t": 0, "new": 1}
    if kind == "D":
        return {"k": "d", "c": {"a": {"k": "f", "v": 0, "n": 0, "m": 0, "t": 0, "new": 1}}, "t": 0, "new": 1}
    raise ValueError(kind)


def lookup_dir(m, dpath):
    """Contents dict of directory DPATH ('' = root)."""
    cur = m
    if dpath:
        for comp in dpath.split("/"):
            cur = cur[comp]["c"]
    return cur


def split(path):
    i = path.rfind("/")
    return (path[:i], path[i + 1:]) if i >= 0 else ("", path)


def depth(path):
    return path.count("/") + 1


def walk(m, prefix=""):
    """(path, node) for every entry, parents first, sorted."""
    for n in sorted(m):
        p = prefix + n
        yield p, m[n]
        if m[n]["k"] == "d":
            for x in walk(m[n]["c"], p + "/"):
                yield x


def free_names(d):
    out = []
    for n in ORDINARY:
        if n not in d:
            out.append(n)
            break
    if SPECIAL not in d:
        out.append(SPECIAL)
    return out


def edits(m):
    """Every single edit applicable to model M, in a fixed order (simplest kinds first)."""
    out = []
    dirs = [""] + [p for p, nd in walk(m) if nd["k"] == "d" and depth(p) < MAXDEPTH]
    for dp in dirs:
        d = lookup_dir(m, dp)
        for name in free_names(d):
            path = (dp + "/" if dp else "") + name
            for kind in ("f", "l", "d") + (("D",) if dp == "" else ()):
                out.append(("add", path, kind))
                if depth(path) == 2 and name in FILTER_NAMES:
                    out.append(("addq", path, kind))
    for p, nd in walk(m):
        dp, name = split(p)
        quiet = depth(p) == 2
        out.append(("rm", p))
        if quiet and name in FILTER_NAMES:
            out.append(("rmq", p))
        for nn in free_names(lookup_dir(m, dp)):
            if nn == name:
                continue
            out.append(("mv", p, nn))
            if quiet and (name in FILTER_NAMES or nn in FILTER_NAMES):
                out.append(("mvq", p, nn))
        for k2 in "fld":
            if k2 != nd["k"]:
                out.append(("ty", p, k2))
                if quiet and name in FILTER_NAMES:
                    out.append(("tyq", p, k2))
        if nd["k"] == "f":
            out += [("cs", p), ("cd", p), ("mt", p), ("ch", p)]
        elif nd["k"] == "l":
            out.append(("lt", p))
        else:
            out.append(("mt", p))
    return out


def apply_model(m, e):
    """Apply edit E to model M in place."""
    op = base_op(e)
    dp, name = split(e[1])
    d = lookup_dir(m, dp)
    if op == "add":
        assert name not in d
        d[name] = new_node(e[2])
    elif op == "rm":
        del d[name]
    elif op == "mv":
        assert e[2] not in d
        d[e[2]] = d.pop(name)
    elif op == "ty":
        assert d[name]["k"] != e[2]
        d[name] = new_node(e[2])
    elif op == "cs":
        d[name]["v"] += 1
    elif op == "cd":
        d[name]["n"] += 1
    elif op == "mt":
        d[name]["t"] += 1
    elif op == "ch":
        d[name]["m"] += 1
    elif op == "lt":
        d[name]["r"] += 1
    else:
        raise ValueError(e)


def base_op(e):
    """Operation without the quiet marker (no plain operation name ends in 'q')."""
    return e[0][:-1] if e[0].endswith("q") else e[0]


def is_quiet(e):
    return e[0].endswith("q")


def edit_str(e):
    return ":".join(e)


def parse_edit(s):
    return tuple(s.split(":"))


def edits_str(es):
    return ";".join(edit_str(e) for e in es) if es else "none"


def parse_edits(s):
    return [] if s in ("", "none") else [parse_edit(x) for x in s.split(";")]


KINDNAME = {"f": "file", "l": "symlink", "d": "dir", "D": "dir-with-file"}


def kind_name(m_before, e):
    """Narrow human name of the edit kind, used in violation classes."""
    op = base_op(e)
    q = "-quiet" if is_quiet(e) else ""
    if op == "add":
        return "add-" + KINDNAME[e[2]] + q
    dp, name = split(e[1])
    k = lookup_dir(m_before, dp)[name]["k"]
    if op == "rm":
        return "remove-" + KINDNAME[k] + q
    if op == "mv":
        return "rename-" + KINDNAME[k] + q
    if op == "ty":
        return "retype-%s-to-%s%s" % (KINDNAME[k], KINDNAME[e[2]], q)
    if op == "cs":
        return "content-same-size"
    if op == "cd":
        return "content-different-size"
    if op == "mt":
        return "mtime-only" if k == "f" else "mtime-only-of-dir"
    if op == "ch":
        return "chmod"
    if op == "lt":
        return "retarget-symlink"
    raise ValueError(e)


def touched_paths(e):
    """Paths (relative to the tree root) an edit names: its target and, for a rename, the new path."""
    op = base_op(e)
    if op == "mv":
        dp, _ = split(e[1])
        return [e[1], (dp + "/" if dp else "") + e[2]]
    return [e[1]]


def is_content_only(m_before, e):
    """Edits that by their nature change no name and no type (content / mtime of a FILE, link target)."""
    if e[0] in ("cs", "cd", "lt"):
        return True
    if e[0] == "mt":
        dp, name = split(e[1])
        return lookup_dir(m_before, dp)[name]["k"] == "f"
    return False


def pair_is_redundant(m0, e1, e2):
    """True if (e1;e2) is the mirror image of a pair (e2;e1) that is enumerated as well and reaches the same model:
    the two edits touch unrelated entries, so one order is explored (the one with the smaller first edit)."""
    if not (edit_str(e2) < edit_str(e1)):
        return False
    if e2 not in edits(m0):
        return False
    ma = clone(m0)
    apply_model(ma, e2)
    if e1 not in edits(ma):
        return False
    apply_model(ma, e1)
    mb = clone(m0)
    apply_model(mb, e1)
    apply_model(mb, e2)
    return ma == mb and independent(e1, e2)


def independent(e1, e2):
    """Neither edit names a path that is the other's path, an ancestor of it, or a sibling (siblings share
    the parent directory whose mtime both change, and free-name choice depends on the siblings)."""
    for p in touched_paths(e1):
        for q in touched_paths(e2):
            if p == q or p.startswith(q + "/") or q.startswith(p + "/"):
                return False
            if split(p)[0] == split(q)[0] and (base_op(e1) in ("add", "rm", "mv", "ty") or
                                               base_op(e2) in ("add", "rm", "mv", "ty")):
                return False
    return True


if __name__ == "__main__":
    import collections
    sh = all_shapes()
    by = collections.Counter(size(s) for s in sh)
    print("shapes", len(sh), sorted(by.items()))
    tot = 0
    per = collections.Counter()
    pairs = collections.Counter()
    for s in sh:
        m = to_model(s)
        es = edits(m)
        per[size(s)] += len(es)
        n2 = 0
        if size(s) <= 3:
            for e1 in es:
                m1 = clone(m)
                apply_model(m1, e1)
                for e2 in edits(m1):
                    if not pair_is_redundant(m, e1, e2):
                        n2 += 1
            pairs[size(s)] += n2
    print("single edits by shape size", sorted(per.items()), sum(per.values()))
    print("pairs by shape size (<=3)", sorted(pairs.items()))
    for s in sh[:12]:
        print(shape_str(s), parse_shape(shape_str(s)) == s)
    assert all(parse_shape(shape_str(s)) == s for s in sh)

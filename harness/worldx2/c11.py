"""C11 (history part): dependencies discovered through a dependency file are honoured on later builds.

One command `c` (worldx's vcmd) with no declared input writes `out` and a dependency file that names the
undeclared path P (documented Makefile escaping: space, '#', '\\' preceded by '\\', '$' doubled; or dependency-info
records: version record first, then 0x10 <path> NUL).  History: build; then repeatedly one edit + one build, every
build a new llbuild process on the same database.  After every edit the command must re-execute iff P's observable
state changed since the previous build.

Malformed part: a command (vdep) that exits 0 and leaves a malformed dependency file => the build must exit
non-zero; control: the same command with a well-formed file => exit 0.
"""
import itertools
import os

import wx
from wx import Sandbox, HarnessError, Cmd, Desc

VDEP = None  # set by worldx2.py

STYLES_QUICK = ["makefile", "dependency-info"]
STYLES_THOROUGH = ["makefile", "dependency-info", "makefile-two-files"]
# P is named ONLY in the second of two dependency files (the first names a path that never exists):
# every listed file has to be read. Quick tier: for the path classes plain, wdrel and plain+second.
STYLES_SECOND = ["makefile-second-file", "dependency-info-second-file"]


class PathClass:
    def __init__(self, cid, written, wd=None, disk=None, second=None, quick=False, absolute=False):
        self.id = cid
        self.written = written          # what the command is given (-x) and reports in the deps file
        self.wd = wd                    # working-directory attribute (relative to the sandbox root) or None
        self.disk = disk if disk is not None else (os.path.normpath(os.path.join(wd or "", written)))
        self.second = second            # a second reported path, listed AFTER P
        self.quick = quick
        self.absolute = absolute


def path_classes():
    q = True
    L = [
        PathClass("plain", "p.h", quick=q),
        PathClass("space", "p q.h", quick=q),
        PathClass("hash", "p#q.h", quick=q),
        PathClass("dollar", "p$q.h", quick=q),
        PathClass("backslash", "p\\q.h", quick=q),
        PathClass("colon", "p:q.h", quick=q),
        PathClass("subdir", "inc/p.h", quick=q),
        PathClass("wdrel", "p.h", wd="sub", quick=q),
        PathClass("wdrel-subdir", "inc/p.h", wd="sub", quick=q),
        PathClass("allspecial", "a b#c$d\\e:f.h", quick=q),
        PathClass("absolute", "abs.h", quick=q, absolute=True),
        PathClass("plain+second", "p.h", second="z.h", quick=q),
        PathClass("space+second", "p q.h", second="z.h", quick=q),
    ]
    # thorough: every special character leading, trailing, doubled; mixtures; more working directories
    for nm, ch in (("space", " "), ("hash", "#"), ("dollar", "$"), ("backslash", "\\"), ("colon", ":")):
        L.append(PathClass("leading-" + nm, ch + "p.h"))
        L.append(PathClass("trailing-" + nm, "p.h" + ch))
        L.append(PathClass("double-" + nm, "p" + ch + ch + "q.h"))
        L.append(PathClass(nm + "+second", "p" + ch + "q.h", second="z.h"))
        L.append(PathClass("wdrel-" + nm, "p" + ch + "q.h", wd="sub"))
    L += [
        PathClass("backslash-space", "p\\ q.h"),
        PathClass("backslash-hash", "p\\#q.h"),
        PathClass("backslash-n", "p\\nq.h"),
        PathClass("dollar-paren", "p$(x).h"),
        PathClass("hash-space", "p# q.h"),
        PathClass("subdir-space", "in c/p q.h"),
        PathClass("dot-slash", "./p.h", disk="p.h"),
        PathClass("wdrel-up", "../p.h", wd="sub"),
        PathClass("wdrel-deep", "p.h", wd="sub/dir"),
        PathClass("wdrel+second", "p.h", wd="sub", second="z.h"),
    ]
    return L


# edits: letter -> (name, changes P?)
EDITS = {
    "m": "modify",       # rewrite P, same size
    "g": "grow",         # append to P
    "t": "touch",        # mtime-only
    "x": "delete",
    "c": "create",
    "n": "nothing",
    "u": "unrelated",    # modify a file the command never named
    "w": "decoy",        # (working-directory classes) create/modify the same relative name under the sandbox root
    "q": "second",       # (classes with a second path) modify the second reported path
}
CHANGES_P = set("mgtxc")


def histories(pc, init_exists, maxlen):
    alpha = "mgtxcnu" + ("w" if pc.wd and not pc.written.startswith("../") else "") + ("q" if pc.second else "")
    out = []

    def rec(prefix, exists):
        if prefix:
            out.append("".join(prefix))
        if len(prefix) == maxlen:
            return
        for a in alpha:
            if a in "mgtx" and not exists:
                continue
            if a == "c" and exists:
                continue
            rec(prefix + [a], (exists and a != "x") or a == "c")

    rec([], init_exists)
    out.sort(key=lambda h: (len(h), h))
    return out


def make_desc(pc, style, sb):
    written = os.path.join(sb.root, pc.written) if pc.absolute else pc.written
    extras = [written] + ([pc.second] if pc.second else [])
    wdp = (pc.wd + "/") if pc.wd else ""
    if style in STYLES_SECOND:
        mk = style.startswith("makefile")
        deps = (["d1.d", "d2.d"], "makefile" if mk else "dependency-info")
        fl = "-d" if mk else "-i"
        flags = ["-p", fl, "d1.d", fl, "d2.d"]
        extras = ["never-there"] + extras[:1] + (["never-there-2"] + extras[1:] if len(extras) > 1 else [])
    elif style == "makefile-two-files":
        deps = (["d1.d", "d2.d"], "makefile")
        flags = ["-d", "d1.d", "-d", "d2.d"]
    elif style == "makefile":
        deps = ("deps.d", "makefile")
        flags = ["-d", "deps.d"]
    else:
        deps = ("deps.d", "dependency-info")
        flags = ["-i", "deps.d"]
    args = [wx.VCMD, "cat", "c"] + flags
    for x in extras:
        args += ["-x", x]
    args += ["out", "--"]
    attrs = {}
    if pc.wd:
        attrs["working-directory"] = pc.wd
    c = Cmd("c", [], [wdp + "out"], attrs=attrs, deps=deps, raw_args=args)
    return Desc("c11", [c], {"all": [wdp + "out"]})


def apply_edit(sb, pc, a):
    disk = pc.disk
    wdp = (pc.wd + "/") if pc.wd else ""
    if a in "mc":
        cur = sb.lread(disk)
        sb.write(disk, "P1" if cur != "P1" else "P2")
    elif a == "g":
        sb.write(disk, (sb.lread(disk) or "") + "+")
    elif a == "t":
        sb.stamp(disk)
    elif a == "x":
        if not sb.delete(disk):
            raise HarnessError("C11: nothing to delete at " + disk)
    elif a == "u":
        cur = sb.lread("unrelated.h")
        sb.write("unrelated.h", "U1" if cur != "U1" else "U2")
    elif a == "w":
        cur = sb.lread(pc.written)
        sb.write(pc.written, "D1" if cur != "D1" else "D2")
    elif a == "q":
        p2 = os.path.normpath(wdp + pc.second)
        cur = sb.lread(p2)
        sb.write(p2, "Z1" if cur != "Z1" else "Z2")
    elif a == "n":
        pass
    else:
        raise HarnessError("bad edit " + a)


def d14(pc, style):
    return style.startswith("dependency-info") and pc.wd is not None and not pc.absolute


def run_history(res, pc, style, init, mode, hist, verbose=False):
    spec = "C11|%s|%s|%s|%s|%s" % (style, pc.id, "E" if init else "M", mode, hist)
    sb = Sandbox()
    try:
        if pc.wd:
            os.makedirs(sb.p(pc.wd))
        sb.write("unrelated.h", "U0")
        if pc.second:
            sb.write(os.path.normpath(((pc.wd + "/") if pc.wd else "") + pc.second), "Z0")
        if init:
            sb.write(pc.disk, "P0")
        desc = make_desc(pc, style, sb)
        sb.write("build.llbuild", desc.yaml())
        rc, out, ran = sb.build("all", mode)
        res.count("builds")
        if verbose:
            print("path class %s: the dependency file names %r (on disk: %s), style %s, P initially %s" % (
                pc.id, pc.written, pc.disk, style, "present" if init else "missing"))
            for f in ("deps.d", "d1.d"):
                p = sb.p(((pc.wd + "/") if pc.wd else "") + f)
                if os.path.exists(p):
                    print("dependency file %s: %r" % (f, open(p, "rb").read()))
            print("build 1: rc=%d executed %r" % (rc, ran))
        if rc != 0 or ran != ["c"]:
            res.count("evaluations")
            res.violate("C11.build-failed-%s-%s" % (style, pc.id),
                        "first build with a well-formed %s dependency file naming %r: rc=%d executed %r: %s" % (
                            style, pc.written, rc, ran, out[-300:]), spec)
            return
        for k, a in enumerate(hist):
            apply_edit(sb, pc, a)
            rc, out, ran = sb.build("all", mode)
            res.count("builds")
            res.count("evaluations")
            want = a in CHANGES_P or a == "q"
            got = "c" in ran
            if verbose:
                print("edit %d: %s; build: rc=%d executed %r (reference: %s)" % (
                    k + 1, EDITS[a], rc, ran, "re-execute" if want else "nothing runs"))
                if rc != 0:
                    print(out)
            res.count("expected_rerun" if want else "expected_no_rerun")
            res.count("observed_rerun" if got else "observed_no_rerun")
            if k == len(hist) - 1:
                # every proper prefix of a history is itself an enumerated history: count a situation once
                res.count("distinct_nontrivial")
            where = "%s deps naming %r%s, P initially %s, history %s, after edit #%d (%s)" % (
                style, pc.written, " with working-directory %s" % pc.wd if pc.wd else "",
                "present" if init else "missing", hist, k + 1, EDITS[a])
            if rc != 0:
                res.violate("C11.build-failed-%s-%s" % (style, pc.id), "%s: build exits %d: %s" % (where, rc, out[-300:]), spec)
                return
            if want and not got:
                if d14(pc, style):
                    cls = "C11.depinfo-relative-path-not-resolved-against-working-directory"
                else:
                    cls = "C11.discovered-%s-%s-%s-not-rerun" % (style, pc.id, EDITS[a])
                res.violate(cls, where + ": the command did not re-execute", spec)
            elif got and not want:
                if d14(pc, style) and a == "w":
                    cls = "C11.depinfo-relative-path-not-resolved-against-working-directory"
                else:
                    cls = "C11.spurious-rerun-%s-%s-after-%s" % (style, pc.id, EDITS[a])
                res.violate(cls, where + ": the command re-executed although P did not change", spec)
    finally:
        sb.destroy()


# ---------------------------------------------------------------- malformed dependency files
def hx(b):
    return "".join("%02x" % c for c in b)


V = b"\x00vdep\x00"
MALFORMED = {
    "makefile": [
        ("control", b"out: p.h\n", True),
        ("control-continuation", b"out: a.h \\\n p.h\n", True),
        ("missing-colon", b"out p.h\n", False),
        ("truncated-before-colon", b"out", False),
        ("truncated-in-continuation", b"out: a.h \\", False),
        ("missing-target", b": p.h\n", False),
        ("lone-dollar", b"out: p.h $x\n", False),
        ("nul-byte", b"out: p.h \x00 q.h\n", False),
        ("garbage", b"\x00\x01\x02\xff\n", False),
        ("second-rule-missing-colon", b"out: a.h\nfoo bar\n", False),
        ("garbage-after-valid-rule", b"out: a.h\n$\n", False),
    ],
    "dependency-info": [
        ("control", V + b"\x10p.h\x00", True),
        ("control-all-opcodes", V + b"\x10p.h\x00\x11m.h\x00\x40out\x00", True),
        ("empty-file", b"", False),
        ("missing-version-record", b"\x10p.h\x00", False),
        ("truncated-no-terminator", V + b"\x10p.h", False),
        ("truncated-after-opcode", V + b"\x10", False),
        ("unknown-opcode", V + b"\x77p.h\x00", False),
        ("empty-operand", V + b"\x10\x00", False),
        ("trailing-nul", V + b"\x10p.h\x00\x00", False),
        ("duplicate-version", V + b"\x10a.h\x00\x00v2\x00", False),
        ("text-garbage", b"hello world\n", False),
        ("makefile-text", b"out: p.h\n", False),
    ],
}


def run_malformed(res, style, mid, verbose=False):
    if mid.endswith("+ok"):
        return run_malformed_then_ok(res, style, mid[:-3], verbose)
    return run_malformed_single(res, style, mid, verbose)


def run_malformed_then_ok(res, style, mid, verbose=False):
    """The malformed file is the FIRST of two dependency files, the second one is well formed: the command still has
    to fail (the verdict of an earlier file must not be overwritten by a later one)."""
    entry = [e for e in MALFORMED[style] if e[0] == mid]
    _, data, wellformed = entry[0]
    ok = [e for e in MALFORMED[style] if e[2]][0][1]
    spec = "C11m|%s|%s+ok" % (style, mid)
    sb = Sandbox()
    try:
        sb.write("p.h", "P0")
        sb.write("a.h", "A0")
        c = Cmd("c", [], ["out"], deps=(["deps.d", "ok.d"], style), raw_args=[VDEP, "c", "out", "deps.d", hx(data), "ok.d", hx(ok)])
        sb.write("build.llbuild", Desc("c11m", [c], {"all": ["out"]}).yaml())
        rc, out, ran = sb.build("all", "serial")
        res.count("builds")
        res.count("evaluations")
        res.count("malformed_then_wellformed_cases")
        if verbose:
            print("%s dependency files [%r (malformed), %r]: build rc=%d executed %r\n%s" % (style, data, ok, rc, ran, out))
        if ran != ["c"]:
            raise HarnessError("C11 malformed %s/%s+ok: the command did not run: %r\n%s" % (style, mid, ran, out))
        res.count("distinct_nontrivial")
        if rc == 0:
            res.violate("C11.malformed-deps-accepted-when-followed-by-a-well-formed-file-%s-%s" % (style, mid),
                        "a command leaving the malformed %s dependency file %r FOLLOWED by a well-formed second one succeeded "
                        "(build exit 0)" % (style, data), spec)
    finally:
        sb.destroy()


def run_malformed_single(res, style, mid, verbose=False):
    entry = [e for e in MALFORMED[style] if e[0] == mid]
    if not entry:
        raise HarnessError("unknown malformed case %s/%s" % (style, mid))
    _, data, wellformed = entry[0]
    spec = "C11m|%s|%s" % (style, mid)
    sb = Sandbox()
    try:
        sb.write("p.h", "P0")
        sb.write("a.h", "A0")
        c = Cmd("c", [], ["out"], deps=("deps.d", style), raw_args=[VDEP, "c", "out", "deps.d", hx(data)])
        sb.write("build.llbuild", Desc("c11m", [c], {"all": ["out"]}).yaml())
        rc, out, ran = sb.build("all", "serial")
        res.count("builds")
        res.count("evaluations")
        res.count("malformed_cases" if not wellformed else "malformed_controls")
        if verbose:
            print("%s dependency file %r (%s): build rc=%d executed %r\n%s" % (
                style, data, "well-formed control" if wellformed else "malformed", rc, ran, out))
        if ran != ["c"]:
            raise HarnessError("C11 malformed %s/%s: the command did not run: %r\n%s" % (style, mid, ran, out))
        if wellformed:
            if rc != 0:
                raise HarnessError("C11 malformed control %s/%s failed: rc=%d\n%s" % (style, mid, rc, out))
            return
        res.count("distinct_nontrivial")
        res.count("malformed_rejected" if rc != 0 else "malformed_accepted")
        if rc == 0:
            res.violate("C11.malformed-deps-accepted-%s-%s" % (style, mid),
                        "a command leaving the malformed %s dependency file %r succeeded (build exit 0)" % (style, data), spec)
    finally:
        sb.destroy()


# ---------------------------------------------------------------- driver
def work_items(tier):
    items = []
    thorough = tier == "thorough"
    for style in ("makefile", "dependency-info"):
        for mid, _, wf in MALFORMED[style]:
            items.append(("m", style, mid))
            if not wf:
                items.append(("m", style, mid + "+ok"))
    classes = path_classes()   # every class in both tiers (the tiers differ in history length, styles and modes)
    styles = STYLES_THOROUGH if thorough else STYLES_QUICK
    maxlen = 3 if thorough else 2
    hist_items = []
    for pc in classes:
        for style in styles + (STYLES_SECOND if thorough or pc.id in ("plain", "wdrel", "plain+second") else []):
            for init in (True, False):
                for h in histories(pc, init, maxlen):
                    modes = ["serial", "par"] if thorough and len(h) <= 2 else ["serial"]
                    for mode in modes:
                        hist_items.append(("h", pc, style, init, mode, h))
    # shortest histories first, so that the first violation of a class is the smallest
    hist_items.sort(key=lambda it: len(it[5]))
    return items + hist_items, len(classes), styles, maxlen


def run(args, res):
    items, nclasses, styles, maxlen = work_items(args.tier)
    for idx, it in enumerate(items):
        if (idx + args.seed) % args.nshards != args.shard:
            continue
        if args.over_budget():
            res.exhaustive = False
            break
        if it[0] == "m":
            run_malformed(res, it[1], it[2])
        else:
            _, pc, style, init, mode, h = it
            run_history(res, pc, style, init, mode, h)
            res.count("histories")
            if len(res.samples) < 5 and idx % 53 == 7:
                res.sample({"style": style, "path class": pc.id, "reported path": pc.written,
                            "working-directory": pc.wd, "P initially": "present" if init else "missing",
                            "history": [EDITS[a] for a in h], "mode": mode})
    res.counters["bound_depth"] = maxlen
    res.strings["rule"] = (
        "%d path classes (plain, space, '#', '$', backslash, colon, all of them, sub-directory, absolute, relative under a "
        "working-directory != cwd, a second reported path after P%s) x deps styles %s x P initially {present, missing} x every "
        "history of <= %d steps, a step being one edit from {modify same size, grow, touch, delete, create, nothing, unrelated "
        "file, decoy of the same relative name outside the working directory, modify the second path} followed by a build%s; every "
        "build after an edit is judged (re-execute iff P, or the second path, changed); plus %d malformed dependency files "
        "(and %d well-formed controls) that must fail the build; evaluations = judged builds; distinct_nontrivial = histories "
        "whose last build was judged (every proper prefix of a history is itself an enumerated history, so each situation is "
        "counted once) + malformed files" % (
            nclasses, "; each special character leading, trailing, doubled, mixed",
            "/".join(styles), maxlen, " x {--serial, -j4} for <= 2 steps" if args.tier == "thorough" else "",
            sum(1 for s in MALFORMED for e in MALFORMED[s] if not e[2]), sum(1 for s in MALFORMED for e in MALFORMED[s] if e[2])))
    res.assumptions += [
        "the command reports P in its dependency file on every execution, whether or not P exists (the statement's premise "
        "is that the command reports it read P)",
        "Makefile-style files are written by worldx's vcmd with the documented escaping only (backslash before space, '#', "
        "backslash; '$' doubled; ':' verbatim); dependency-info files are a version record followed by 0x10 <path> NUL records",
        "byte-exact recovery of arbitrary escaped strings and exhaustive truncations are the codec part (harness/parsex); this "
        "part checks the link from reported path to rebuild decision end to end",
    ]


def find_class(cid):
    for pc in path_classes():
        if pc.id == cid:
            return pc
    raise HarnessError("unknown path class " + cid)


def replay(spec, res):
    parts = spec.split("|")
    if parts[0] == "C11m":
        run_malformed(res, parts[1], parts[2], verbose=True)
    else:
        run_history(res, find_class(parts[2]), parts[1], parts[3] == "E", parts[4], parts[5], verbose=True)

#!/usr/bin/python3
"""Convenience runner (not used by /verif/check): run all shards of one tier in parallel, merge
the shard results the way /verif/check does and print a summary.

  runtier.py quick|thorough [nshards=16] [budget] [outdir=/dev/shm/verif-worldx3-results]
"""
import json
import os
import subprocess
import sys
import time

here = os.path.dirname(os.path.abspath(__file__))
tier = sys.argv[1]
n = int(sys.argv[2]) if len(sys.argv) > 2 else 16
budget = sys.argv[3] if len(sys.argv) > 3 else ("200" if tier == "quick" else "1500")
outdir = sys.argv[4] if len(sys.argv) > 4 else "/dev/shm/verif-worldx3-results"
os.makedirs(outdir, exist_ok=True)
t0 = time.time()
procs = []
for i in range(n):
    out = os.path.join(outdir, "%s-%d.json" % (tier, i))
    if os.path.exists(out):
        os.unlink(out)
    procs.append((i, out, subprocess.Popen(
        ["/usr/bin/python3", os.path.join(here, "worldx3.py"), "--prop", "C18", "--tier", tier, "--shard", str(i), "--nshards", str(n),
         "--out", out, "--seed", "0", "--budget", budget] + sys.argv[5:], stdout=subprocess.PIPE, stderr=subprocess.STDOUT)))
cov, viol, rcs = {}, {}, []
for i, out, p in procs:
    txt = p.communicate()[0].decode()
    rcs.append(p.returncode)
    if p.returncode not in (0, 1):
        print("shard %d: exit %d\n%s" % (i, p.returncode, txt[-3000:]))
        continue
    d = json.load(open(out))
    for k, v in d["coverage"].items():
        if k == "samples" or k == "rule":
            cov.setdefault(k, v)
        elif k == "exhaustive":
            cov[k] = cov.get(k, True) and v
        elif isinstance(v, dict):
            for kk, vv in v.items():
                cov.setdefault(k, {})[kk] = cov.setdefault(k, {}).get(kk, 0) + vv
        elif k.startswith("max_") or k.startswith("bound_"):
            cov[k] = max(cov.get(k, 0), v)
        else:
            cov[k] = cov.get(k, 0) + v
    for v in d["violations"]:
        viol.setdefault(v["class"], []).append(v)
print("wall %.1f s, exit codes %s" % (time.time() - t0, sorted(set(rcs))))
cov.pop("samples", None)
cov.pop("rule", None)
print(json.dumps(cov, indent=1, sort_keys=True))
for cls in sorted(viol):
    vs = sorted(viol[cls], key=lambda v: (len(v["replay"]["spec"]), v["replay"]["spec"]))
    print("\n%s  (%d recorded)" % (cls, len(vs)))
    for v in vs[:2]:
        print("   %s\n     replay: %s" % (v["what"][:600], v["replay"]["spec"]))

"""nx: Ninja description DSL, renderer, reference evaluator and clean-build oracle
of the worldx3 explorer (C18).  Reuses the sandbox / logical clock / result
machinery of ../worldx/wx.py unchanged.

  Edge / Manifest   one build statement / one manifest variant.  An Edge has
                    explicit inputs ($in, read by the command), implicit inputs
                    (`| x`, a dependency that is NOT on the command line), order-only
                    inputs (`|| x`), `extras` (files the command reads through
                    `-x`; each must be declared implicit, or be reported through a
                    depfile, so that the command stays a deterministic function of
                    what it declares/reports), several outputs, and the rule
                    attributes depfile (+ `deps = gcc`), restat, generator, pool.
                    `phony=True` makes it a phony statement.
  Manifest.ninja()  rendering to Ninja syntax.  Plain edges share one rule and bind
                    `tag` per build statement; edges with attributes get a rule of
                    their own.
  evaluate()        expected contents of every file output reachable from a target.
  NinjaOracle       memoised cross-check of evaluate() against a real clean build.
  NinjaSandbox      wx.Sandbox whose build() runs `llbuild ninja build` (or the real
                    `ninja`, second opinion for triage only).
"""
import os
import subprocess
import sys

sys.path.insert(0, os.path.join(os.path.dirname(os.path.abspath(__file__)), "..", "worldx"))
import wx  # noqa: E402
from wx import HarnessError  # noqa: E402

HBIN3 = os.environ.get("VERIF_WORLDX3_BIN", "/verif/build/harness/worldx3")
NCMD = os.path.join(HBIN3, "ncmd")
REAL_NINJA = "/usr/bin/ninja"
wx.SCRATCH = "/dev/shm/verif-worldx3-%d" % os.getpid()

MODES = ["j1db", "j4db", "j1nodb", "j4nodb"]


def mode_jobs(mode):
    return 4 if mode.startswith("j4") else 1


def mode_db(mode):
    return not mode.endswith("nodb")


class Edge:
    def __init__(self, name, outs, ins=(), imp=(), oo=(), extras=(), deps=None, restat=False, generator=False,
                 pool=None, phony=False, tag=None):
        self.name = name
        self.outs = list(outs)
        self.ins = list(ins)
        self.imp = list(imp)
        self.oo = list(oo)
        self.extras = list(extras)
        self.deps = deps              # None | "depfile" | "gcc"
        self.restat = restat
        self.generator = generator
        self.pool = pool
        self.phony = phony
        self.tag = tag if tag is not None else name
        if deps not in (None, "depfile", "gcc"):
            raise HarnessError("bad deps style")

    def copy(self, **kw):
        e = Edge(self.name, self.outs, self.ins, self.imp, self.oo, self.extras, self.deps, self.restat, self.generator,
                 self.pool, self.phony, self.tag)
        for k, v in kw.items():
            setattr(e, k, v)
        return e

    def depfile(self):
        return self.outs[0] + ".d" if self.deps else None

    def plain(self):
        return not (self.deps or self.restat or self.generator or self.pool or self.extras)

    def command(self):
        """The command line exactly as Ninja will expand it (paths contain no shell-special characters)."""
        a = [NCMD, "cat", self.tag]
        if self.restat:
            a.append("-r")
        if self.deps:
            a += ["-d", self.depfile()]
        for x in self.extras:
            a += ["-x", x]
        a += self.outs + ["--"] + self.ins
        return " ".join(a)

    def kind(self):
        """Short description of the statement's shape, used in violation class names."""
        k = []
        if self.phony:
            return "phony"
        if self.generator:
            k.append("generator")
        if self.restat:
            k.append("restat")
        if self.deps:
            k.append("deps-gcc" if self.deps == "gcc" else "depfile")
        if self.pool:
            k.append("pool")
        if len(self.outs) > 1:
            k.append("multi-output")
        return "-".join(k) or "plain"

    def deftext(self):
        return repr((self.name, self.outs, self.ins, self.imp, self.oo, self.extras, self.deps, self.restat,
                     self.generator, self.pool, self.phony, self.tag))


class Manifest:
    def __init__(self, mid, edges, default=None, pools=(), kind="base"):
        self.id = mid
        self.edges = list(edges)
        self.default = list(default) if default else []
        self.pools = list(pools)
        self.kind = kind           # what kind of manifest edit leads here (for reports)
        self._prod = None
        self.check()

    def copy(self, mid, kind):
        return Manifest(mid, [e.copy() for e in self.edges], self.default, self.pools, kind)

    def check(self):
        seen = {}
        for e in self.edges:
            for o in e.outs:
                if o in seen:
                    raise HarnessError("%s: two producers of %s" % (self.id, o))
                seen[o] = e
        for e in self.edges:
            if e.phony and (e.extras or e.deps):
                raise HarnessError("phony with attributes")
            for x in e.extras:
                if x not in e.imp and not e.deps:
                    raise HarnessError("%s: %s reads %s without declaring or reporting it" % (self.id, e.name, x))
                if x in seen and x not in e.imp and x not in e.oo and x not in self.closure_inputs(e, seen):
                    raise HarnessError("%s: %s reads produced %s without ordering" % (self.id, e.name, x))
            for i in e.ins:
                if i in seen and seen[i].phony and not e.phony:
                    raise HarnessError("%s: phony output %s on a command line" % (self.id, i))

    def closure_inputs(self, e, prod):
        res, todo = set(), list(e.ins + e.imp + e.oo)
        while todo:
            n = todo.pop()
            if n in res:
                continue
            res.add(n)
            if n in prod:
                p = prod[n]
                todo += p.ins + p.imp + p.oo
        return res

    def edge(self, name):
        for e in self.edges:
            if e.name == name:
                return e
        raise KeyError(name)

    def has(self, name):
        return any(e.name == name for e in self.edges)

    def producer(self, node):
        if self._prod is None:
            self._prod = {}
            for e in self.edges:
                for o in e.outs:
                    self._prod[o] = e
        return self._prod.get(node)

    def by_tag(self):
        return {e.tag: e for e in self.edges if not e.phony}

    def target_nodes(self, target):
        """Nodes built by `llbuild ninja build [target]` ('' = default statement, or the root outputs)."""
        if target:
            return [target]
        if self.default:
            return list(self.default)
        used = set()
        for e in self.edges:
            used.update(e.ins + e.imp + e.oo)
        return [o for e in self.edges for o in e.outs if o not in used]

    def reachable(self, target):
        """Edges reachable from TARGET through explicit, implicit and order-only inputs, producers first."""
        order, seen = [], set()

        def visit(node):
            e = self.producer(node)
            if e is None or e.name in seen:
                return
            seen.add(e.name)
            for i in e.ins + e.imp + e.oo:
                visit(i)
            order.append(e)

        for n in self.target_nodes(target):
            visit(n)
        return order

    def file_inputs(self, nodes):
        """NODES with phony outputs replaced (transitively) by the phony statement's own inputs."""
        out, seen = [], set()

        def add(n):
            if n in seen:
                return
            seen.add(n)
            p = self.producer(n)
            if p is not None and p.phony:
                for i in p.ins + p.imp + p.oo:
                    add(i)
                # a phony output may also exist as a real file
                out.append(n)
            else:
                out.append(n)

        for n in nodes:
            add(n)
        return out

    def dependents(self, name, kinds=("ins", "imp", "oo"), through_phony=True):
        """Names of the edges that consume (transitively; through phony statements unless told otherwise) an output of NAME."""
        dirty = set(self.edge(name).outs)
        res = set()
        changed = True
        while changed:
            changed = False
            for e in self.edges:
                if e.name in res or e.name == name:
                    continue
                srcs = []
                for k in kinds:
                    srcs += getattr(e, k)
                if any(i in dirty for i in srcs):
                    if e.phony and not through_phony:
                        continue
                    res.add(e.name)
                    dirty.update(e.outs)
                    changed = True
        return res

    def file_outputs(self):
        return [o for e in self.edges if not e.phony for o in e.outs]

    def all_paths(self):
        s = []
        for e in self.edges:
            for n in e.ins + e.imp + e.oo + e.extras + ([] if e.phony else e.outs):
                if n not in s:
                    s.append(n)
        return s

    def ninja(self):
        L = []
        for p in self.pools:
            L += ["pool %s" % p, "  depth = 1"]
        if any(e.plain() and not e.phony for e in self.edges):
            L += ["rule cat", "  command = %s cat $tag $out -- $in" % NCMD, "  description = $tag"]
        for e in self.edges:
            if e.phony or e.plain():
                continue
            a = [NCMD, "cat", e.tag]
            if e.restat:
                a.append("-r")
            if e.deps:
                a += ["-d", e.depfile()]
            for x in e.extras:
                a += ["-x", x]
            a += ["$out", "--", "$in"]
            L += ["rule r_%s" % e.name, "  command = %s" % " ".join(a), "  description = %s" % e.tag]
            if e.deps:
                L.append("  depfile = %s" % e.depfile())
                if e.deps == "gcc":
                    L.append("  deps = gcc")
            if e.restat:
                L.append("  restat = 1")
            if e.generator:
                L.append("  generator = 1")
            if e.pool:
                L.append("  pool = %s" % e.pool)
        for e in self.edges:
            line = "build %s: %s" % (" ".join(e.outs), "phony" if e.phony else ("cat" if e.plain() else "r_" + e.name))
            if e.ins:
                line += " " + " ".join(e.ins)
            if e.imp:
                line += " | " + " ".join(e.imp)
            if e.oo:
                line += " || " + " ".join(e.oo)
            L.append(line)
            if e.plain() and not e.phony:
                L.append("  tag = %s" % e.tag)
        if self.default:
            L.append("default %s" % " ".join(self.default))
        return "\n".join(L) + "\n"


# ---- variant helpers (each returns a new Manifest) ---------------------------
def retag(m, mid, name):
    n = m.copy(mid, "retag")
    e = n.edge(name)
    e.tag = e.tag + "v2"
    return n


def remove(m, mid, name):
    n = m.copy(mid, "remove-edge")
    n.edges = [e for e in n.edges if e.name != name]
    n._prod = None
    return n


def add(m, mid, edge, kind="add-edge"):
    n = m.copy(mid, kind)
    n.edges.append(edge)
    n._prod = None
    n.check()
    return n


def replace(m, mid, edge, kind):
    n = m.copy(mid, kind)
    n.edges = [edge if e.name == edge.name else e for e in n.edges]
    n._prod = None
    n.check()
    return n


def change(m, mid, name, kind, **kw):
    return replace(m, mid, m.edge(name).copy(**kw), kind)


# ---- reference evaluator --------------------------------------------------
class Expect:
    def __init__(self):
        self.ok = True
        self.why = ""
        self.outputs = {}     # file output -> expected content
        self.payload = {}     # edge name -> payload
        self.order = []       # edge names in dependency order


def evaluate(m, disk, target):
    """Expected result of a clean `llbuild ninja build TARGET`.  disk(path) -> content | None for
    the files no statement produces.  A missing explicit or implicit source fails the build; a
    missing order-only source is ignored (the tool only orders after it); a missing extra is '!'."""
    ex = Expect()
    memo = {}

    class Fail(Exception):
        pass

    def content(n):
        p = m.producer(n)
        if p is None:
            return disk(n)
        if p.phony:
            return disk(n)
        run(p)
        return memo[p.name]

    def need(n, e):
        p = m.producer(n)
        if p is not None:
            run(p)
            if p.phony:
                return
            return
        if disk(n) is None:
            raise Fail("missing input %s of %s" % (n, e.name))

    def run(e):
        if e.name in memo:
            if memo[e.name] is None:
                raise HarnessError("cycle through %s in %s" % (e.name, m.id))
            return
        memo[e.name] = None
        for n in e.ins + e.imp:
            need(n, e)
        for n in e.oo:
            p = m.producer(n)
            if p is not None:
                run(p)
        payload = ""
        if not e.phony:
            parts = []
            for n in e.ins:
                v = content(n)
                if v is None:
                    raise Fail("unreadable input %s of %s" % (n, e.name))
                parts.append(v)
            payload = e.tag + "(" + ",".join(parts)
            for x in e.extras:
                v = content(x)
                payload += ";" + x + "=" + ("!" if v is None else v)
            payload += ")"
            for o in e.outs:
                ex.outputs[o] = payload
        memo[e.name] = payload
        ex.payload[e.name] = payload
        ex.order.append(e.name)

    try:
        for n in m.target_nodes(target):
            p = m.producer(n)
            if p is not None:
                run(p)
            elif disk(n) is None:
                raise Fail("missing target %s" % n)
        if not m.target_nodes(target):
            raise Fail("no targets to build")
    except Fail as f:
        ex.ok = False
        ex.why = str(f)
    return ex


# ---- sandbox ----------------------------------------------------------------
class NinjaSandbox(wx.Sandbox):
    tool = "llbuild"

    def build_argv(self, target, mode, db=True):
        jobs = mode_jobs(mode)
        if self.tool == "ninja":
            a = [REAL_NINJA, "-j", str(jobs), "-f", "build.ninja"]
        else:
            a = [wx.LLBUILD, "ninja", "build", "--jobs", str(jobs), "-f", "build.ninja"]
            a += ["--db", "build.db"] if db else ["--no-db"]
            a += self.extra_args
        if target:
            a.append(target)
        return a

    extra_args = []

    def build(self, target, mode, timeout=60):
        db = mode_db(mode)
        if self.tool == "ninja" and not db:
            for f in (".ninja_log", ".ninja_deps"):
                if os.path.exists(self.p(f)):
                    os.unlink(self.p(f))
        return wx.Sandbox.build(self, target, mode, db=db, timeout=timeout)

    def mtime(self, rel):
        try:
            return os.stat(self.p(rel)).st_mtime_ns
        except OSError:
            return None


# ---- clean-build oracle -------------------------------------------------------
class NinjaOracle:
    """evaluate() cross-checked against a real clean build (fresh directory, --no-db, --jobs 1),
    once per (manifest text, target, relevant source state)."""

    def __init__(self):
        self.memo = {}
        self.checks = 0

    def source_paths(self, m, target):
        paths = []
        for e in m.reachable(target):
            for n in e.ins + e.imp + e.oo + e.extras + (e.outs if e.phony else []):
                p = m.producer(n)
                if (p is None or p.phony) and n not in paths:
                    paths.append(n)
        for n in m.target_nodes(target):
            p = m.producer(n)
            if (p is None or p.phony) and n not in paths:
                paths.append(n)
        return paths

    def expect(self, m, sb, target):
        srcs = self.source_paths(m, target)
        state = tuple((p, sb.read(p)) for p in srcs)
        key = (m.ninja(), target, state)
        if key in self.memo:
            return self.memo[key]
        disk = dict(state)
        ex = evaluate(m, lambda p: disk.get(p, None), target)
        self.verify(m, target, state, ex)
        self.memo[key] = ex
        return ex

    def verify(self, m, target, state, ex):
        self.checks += 1
        cs = NinjaSandbox("clean")
        try:
            for p, v in state:
                if v is not None:
                    cs.write(p, v)
            cs.write("build.ninja", m.ninja())
            rc, out, ran = cs.build(target, "j1nodb")
            if (rc == 0) != ex.ok:
                raise HarnessError("reference/clean-build disagreement on success: manifest=%s target=%r sources=%r "
                                   "reference ok=%s (%s) clean rc=%d\n%s\n%s" % (m.id, target, state, ex.ok, ex.why, rc, out, m.ninja()))
            if rc == 0:
                for path, want in ex.outputs.items():
                    got = cs.read(path)
                    if got != want:
                        raise HarnessError("reference/clean-build disagreement: manifest=%s target=%r sources=%r output %s: "
                                           "reference %r clean build %r\n%s\n%s" % (m.id, target, state, path, want, got, out, m.ninja()))
                tags = m.by_tag()
                names = sorted(tags[t].name for t in ran if t in tags)
                if names != sorted(n for n in ex.order if not m.edge(n).phony):
                    raise HarnessError("reference/clean-build disagreement on the executed set: manifest=%s target=%r "
                                       "reference %s clean build %s\n%s" % (m.id, target, ex.order, names, m.ninja()))
        finally:
            cs.destroy()
